import GdslModel.Lemmas.Path
import GdslModel.Lemmas.Heap
/-!
# Priority-first search (`pfsScan`, `pfsLoop`, `pfsLoopLog`, `runLoop` with kinds `.pfsMin`/`.pfsMax`)
-/
set_option linter.unusedSectionVars false
namespace G
variable {K E : Type} [DecidableEq K]

/-! ## The ghost log -/

theorem pfsLoopLog_prefix (c : Cfg K E) (prio : K → Int) (fuel : Nat) (h : List (K × Int)) (st : TSt K E)
    (log : List ((K × Int) × List (K × Int))) (r : Bool × TSt K E × List ((K × Int) × List (K × Int)))
    (hrun : pfsLoopLog c prio fuel h st log = some r) : ∃ rest, r.2.2 = log ++ rest := by
  induction fuel generalizing h st log with
  | zero => simp [pfsLoopLog] at hrun
  | succ fuel ih =>
    simp only [pfsLoopLog] at hrun
    split at hrun
    · simp only [Option.some.injEq] at hrun; subst hrun; exact ⟨[], by simp⟩
    · split at hrun
      · simp only [Option.some.injEq] at hrun; subst hrun; exact ⟨_, rfl⟩
      · obtain ⟨rest, hr⟩ := ih _ _ _ hrun
        exact ⟨_ :: rest, by rw [hr, List.append_assoc]; rfl⟩

theorem Pfs.log_erases' (c : Cfg K E) (prio : K → Int) (fuel : Nat) (h : List (K × Int)) (st : TSt K E)
    (log : List ((K × Int) × List (K × Int))) (order : List K) :
    (pfsLoopLog c prio fuel h st log).map
      (fun r => (r.1, r.2.1, order ++ (r.2.2.drop log.length).map (fun x => x.1.1))) =
    (pfsLoop c prio fuel h st order) := by
  induction fuel generalizing h st log order with
  | zero => simp [pfsLoopLog, pfsLoop]
  | succ fuel ih =>
    rcases hpop : heapPop (fun x : K × Int => x.2) h with _ | ⟨⟨u, pu⟩, h'⟩
    · simp [pfsLoopLog, pfsLoop, hpop]
    · rcases hscan : pfsScan c prio u (c.adj u) st h' with ⟨b, st', h''⟩
      cases b
      · simp only [pfsLoopLog, pfsLoop, hpop, hscan]
        rw [← ih h'' st' (log ++ [((u, pu), h')]) (order ++ [u])]
        rcases hrun : pfsLoopLog c prio fuel h'' st' (log ++ [((u, pu), h')]) with _ | r
        · simp
        · obtain ⟨rest, hr⟩ := pfsLoopLog_prefix c prio fuel h'' st' _ r hrun
          simp only [Option.map_some, Option.some.injEq, Prod.mk.injEq, true_and]
          rw [hr]
          simp [List.append_assoc]
      · simp [pfsLoopLog, pfsLoop, hpop, hscan]

theorem pfsScan_isHeap (c : Cfg K E) (prio : K → Int) (u : K) (l : List (K × E)) (st : TSt K E)
    (h : List (K × Int)) (hh : IsHeap (fun x : K × Int => x.2) h) :
    IsHeap (fun x : K × Int => x.2) (pfsScan c prio u l st h).2.2 := by
  induction l generalizing st h with
  | nil => simpa [pfsScan] using hh
  | cons p l ih =>
    obtain ⟨v, e⟩ := p
    simp only [pfsScan]
    split
    · split
      · exact ih _ _ hh
      · split
        · exact hh
        · exact ih _ _ (Heap.push_heap' _ _ _ hh).1
    · exact ih _ _ hh

theorem pfsLoopLog_minimal (c : Cfg K E) (prio : K → Int) (fuel : Nat) (h : List (K × Int)) (st : TSt K E)
    (log0 : List ((K × Int) × List (K × Int)))
    (hh : IsHeap (fun x : K × Int => x.2) h) (hl : ∀ x ∈ log0, ∀ y ∈ x.2, y.2 ≤ x.1.2)
    (found : Bool) (st' : TSt K E) (log : List ((K × Int) × List (K × Int)))
    (hrun : pfsLoopLog c prio fuel h st log0 = some (found, st', log)) :
    ∀ x ∈ log, ∀ y ∈ x.2, y.2 ≤ x.1.2 := by
  induction fuel generalizing h st log0 with
  | zero => simp [pfsLoopLog] at hrun
  | succ fuel ih =>
    simp only [pfsLoopLog] at hrun
    split at hrun
    · simp only [Option.some.injEq, Prod.mk.injEq] at hrun
      obtain ⟨_, _, rfl⟩ := hrun; exact hl
    · rename_i u pu h' hpop
      obtain ⟨hmax, hh', hperm⟩ := Heap.pop_max' _ _ _ _ hh hpop
      have hl' : ∀ x ∈ log0 ++ [((u, pu), h')], ∀ y ∈ x.2, y.2 ≤ x.1.2 := by
        intro x hx
        rcases List.mem_append.mp hx with hx | hx
        · exact hl x hx
        · simp only [List.mem_singleton] at hx; subst hx
          intro y hy
          exact hmax y (hperm.mem_iff.mpr (List.mem_cons_of_mem _ hy))
      split at hrun
      · simp only [Option.some.injEq, Prod.mk.injEq] at hrun
        obtain ⟨_, _, rfl⟩ := hrun; exact hl'
      · rename_i st1 h1 hscan
        have h1h := pfsScan_isHeap c prio u (c.adj u) st h' hh'
        rw [hscan] at h1h
        exact ih h1 st1 _ h1h hl' hrun

theorem Pfs.pop_minimal' (c : Cfg K E) (prio : K → Int) (fuel : Nat) (h : List (K × Int)) (st : TSt K E)
    (hh : IsHeap (fun x : K × Int => x.2) h) (found : Bool) (st' : TSt K E)
    (log : List ((K × Int) × List (K × Int)))
    (hrun : pfsLoopLog c prio fuel h st [] = some (found, st', log)) :
    ∀ x ∈ log, ∀ y ∈ x.2, y.2 ≤ x.1.2 :=
  pfsLoopLog_minimal c prio fuel h st [] hh (by simp) found st' log hrun

/-! ## Pending heap entries are discovered nodes -/

/-- a heap entry carries the priority of its node, and the node is the target of a tree edge -/
def Pend (prio : K → Int) (t : List (Edge K E)) (y : K × Int) : Prop :=
  y.2 = prio y.1 ∧ y.1 ∈ t.map (fun e => e.2.1)

omit [DecidableEq K] in
theorem Pend.mono {prio : K → Int} {t t' : List (Edge K E)} (hsub : ∀ x ∈ t, x ∈ t') {y : K × Int}
    (h : Pend prio t y) : Pend prio t' y := by
  refine ⟨h.1, ?_⟩
  obtain ⟨x, hx, hxy⟩ := List.mem_map.mp h.2
  exact List.mem_map.mpr ⟨x, hsub x hx, hxy⟩

theorem pfsScan_pend (c : Cfg K E) (prio : K → Int) (u : K) (l : List (K × E)) (st : TSt K E)
    (h : List (K × Int)) (hh : ∀ y ∈ h, Pend prio st.tree y) :
    (∀ x ∈ st.tree, x ∈ (pfsScan c prio u l st h).2.1.tree) ∧
    ∀ y ∈ (pfsScan c prio u l st h).2.2, Pend prio (pfsScan c prio u l st h).2.1.tree y := by
  induction l generalizing st h with
  | nil => exact ⟨fun x hx => by simpa [pfsScan] using hx, by simpa [pfsScan] using hh⟩
  | cons p l ih =>
    obtain ⟨v, e⟩ := p
    simp only [pfsScan]
    split
    · split
      · exact ih { st with trace := st.trace ++ [(u, v, e)] } h hh
      · have hsub : ∀ x ∈ st.tree, x ∈ st.tree ++ [(u, v, e)] := fun x hx => List.mem_append_left _ hx
        split
        · exact ⟨hsub, fun y hy => (hh y hy).mono hsub⟩
        · have := ih { vis := v :: st.vis, tree := st.tree ++ [(u, v, e)], trace := st.trace ++ [(u, v, e)] }
            (heapPush (fun x => x.2) h (v, prio v)) (by
              intro y hy
              rcases List.mem_cons.mp ((heapPush_perm _ _ _).mem_iff.mp hy) with rfl | hy
              · exact ⟨rfl, by simp⟩
              · exact (hh y hy).mono hsub)
          exact ⟨fun x hx => this.1 x (hsub x hx), this.2⟩
    · exact ih { st with trace := st.trace ++ [(u, v, e)] } h hh

/-- what `Pfs.pending_are_discovered` says about one log entry -/
def LogOk (prio : K → Int) (root : K) (t : List (Edge K E)) (x : (K × Int) × List (K × Int)) : Prop :=
  (x.1.2 = prio x.1.1 ∧ (x.1.1 = root ∨ x.1.1 ∈ t.map (fun e => e.2.1))) ∧
    ∀ y ∈ x.2, y.2 = prio y.1 ∧ y.1 ∈ t.map (fun e => e.2.1)

omit [DecidableEq K] in
theorem LogOk.mono {prio : K → Int} {root : K} {t t' : List (Edge K E)} (hsub : ∀ x ∈ t, x ∈ t')
    {x : (K × Int) × List (K × Int)} (h : LogOk prio root t x) : LogOk prio root t' x := by
  have hm : ∀ k, k ∈ t.map (fun e => e.2.1) → k ∈ t'.map (fun e => e.2.1) := by
    intro k hk
    obtain ⟨x, hx, hxy⟩ := List.mem_map.mp hk
    exact List.mem_map.mpr ⟨x, hsub x hx, hxy⟩
  exact ⟨⟨h.1.1, h.1.2.imp id (hm _)⟩, fun y hy => ⟨(h.2 y hy).1, hm _ (h.2 y hy).2⟩⟩

theorem pfsLoopLog_pend (c : Cfg K E) (prio : K → Int) (root : K) (fuel : Nat) (h : List (K × Int))
    (st : TSt K E) (log0 : List ((K × Int) × List (K × Int)))
    (hh : ∀ y ∈ h, Pend prio st.tree y) (hl : ∀ x ∈ log0, LogOk prio root st.tree x)
    (found : Bool) (st' : TSt K E) (log : List ((K × Int) × List (K × Int)))
    (hrun : pfsLoopLog c prio fuel h st log0 = some (found, st', log)) :
    ∀ x ∈ log, LogOk prio root st'.tree x := by
  induction fuel generalizing h st log0 with
  | zero => simp [pfsLoopLog] at hrun
  | succ fuel ih =>
    simp only [pfsLoopLog] at hrun
    split at hrun
    · simp only [Option.some.injEq, Prod.mk.injEq] at hrun
      obtain ⟨_, rfl, rfl⟩ := hrun; exact hl
    · rename_i u pu h' hpop
      have hperm := heapPop_perm _ _ _ _ hpop
      have hh' : ∀ y ∈ h', Pend prio st.tree y := fun y hy => hh y (hperm.mem_iff.mpr (List.mem_cons_of_mem _ hy))
      have hup : Pend prio st.tree (u, pu) := hh _ (hperm.mem_iff.mpr (List.mem_cons_self))
      have hl' : ∀ x ∈ log0 ++ [((u, pu), h')], LogOk prio root st.tree x := by
        intro x hx
        rcases List.mem_append.mp hx with hx | hx
        · exact hl x hx
        · simp only [List.mem_singleton] at hx; subst hx
          exact ⟨⟨hup.1, Or.inr hup.2⟩, hh'⟩
      have hs := pfsScan_pend c prio u (c.adj u) st h' hh'
      split at hrun
      · rename_i st1 x hscan
        simp only [Option.some.injEq, Prod.mk.injEq] at hrun
        obtain ⟨_, rfl, rfl⟩ := hrun
        rw [hscan] at hs
        exact fun x hx => (hl' x hx).mono hs.1
      · rename_i st1 h1 hscan
        rw [hscan] at hs
        exact ih h1 st1 _ hs.2 (fun x hx => (hl' x hx).mono hs.1) hrun

theorem Pfs.pending_are_discovered' (c : Cfg K E) (prio : K → Int) (fuel : Nat) (root : K) (st : TSt K E)
    (found : Bool) (st' : TSt K E) (log : List ((K × Int) × List (K × Int)))
    (hrun : pfsLoopLog c prio fuel [(root, prio root)] st [] = some (found, st', log)) :
    ∀ x ∈ log, (x.1.2 = prio x.1.1 ∧ (x.1.1 = root ∨ x.1.1 ∈ st'.tree.map (fun e => e.2.1))) ∧
      ∀ y ∈ x.2, y.2 = prio y.1 ∧ y.1 ∈ st'.tree.map (fun e => e.2.1) := by
  cases fuel with
  | zero => simp [pfsLoopLog] at hrun
  | succ fuel =>
    have hpop : heapPop (fun x : K × Int => x.2) [(root, prio root)] = some ((root, prio root), []) := by
      simp [heapPop]
    simp only [pfsLoopLog, hpop] at hrun
    have hs := pfsScan_pend c prio root (c.adj root) st [] (by simp)
    have h0 : LogOk prio root st.tree ((root, prio root), []) := ⟨⟨rfl, Or.inl rfl⟩, by simp⟩
    split at hrun
    · rename_i st1 x hscan
      simp only [Option.some.injEq, Prod.mk.injEq] at hrun
      obtain ⟨_, rfl, rfl⟩ := hrun
      rw [hscan] at hs
      intro x hx
      simp only [List.nil_append, List.mem_singleton] at hx; subst hx
      exact h0.mono hs.1
    · rename_i st1 h1 hscan
      rw [hscan] at hs
      exact pfsLoopLog_pend c prio root fuel h1 st1 _ hs.2 (by
        intro x hx
        simp only [List.nil_append, List.mem_singleton] at hx; subst hx
        exact h0.mono hs.1) found st' log hrun


/-! ## The traversal invariants -/

/-- targets of the tree edges -/
def tgts (t : List (Edge K E)) : List K := t.map (fun x => x.2.1)
/-- nodes in the heap -/
def keys (h : List (K × Int)) : List K := h.map (fun y => y.1)

omit [DecidableEq K] in
theorem mem_tgts {t : List (Edge K E)} {k : K} : k ∈ tgts t ↔ ∃ x ∈ t, x.2.1 = k := by
  simp [tgts]

omit [DecidableEq K] in
theorem tgts_snoc (t : List (Edge K E)) (x : Edge K E) : tgts (t ++ [x]) = tgts t ++ [x.2.1] := by
  simp [tgts]

/-- what holds of every state of a run, found or not: `vis0` is the initial visited list -/
structure Base (c : Cfg K E) (root : K) (vis0 : List K) (st : TSt K E) : Prop where
  treeAcc : ∀ x ∈ st.tree, (x.2.1, x.2.2) ∈ accAdj c.adj c.acc x.1
  traceOk : ∀ x ∈ st.trace, (x.2.1, x.2.2) ∈ c.adj x.1
  dtree : DTree root st.tree
  visEq : st.vis = (tgts st.tree).reverse ++ vis0
  visNodup : st.vis.Nodup

/-- state invariant while the target has not been found: `D` are the nodes popped so far
    (expanded or being expanded), `h` is the heap -/
structure SInv (c : Cfg K E) (root : K) (vis0 : List K) (D : List K) (h : List (K × Int)) (st : TSt K E) : Prop where
  base : Base c root vis0 st
  noTarget : ∀ x ∈ st.tree, c.target ≠ some x.2.1
  src : ∀ x ∈ D ++ keys h, x = root ∨ x ∈ tgts st.tree
  closedMod : ∀ x, (x = root ∨ x ∈ st.vis) → x ∈ D ++ keys h
  nodupDP : (D ++ keys h).Nodup
  dpVis : ∀ x ∈ D ++ keys h, x ∈ st.vis ∨ c.target = some x
  reach : ∀ x ∈ D ++ keys h, Reach (accAdj c.adj c.acc) root x

/-- the target has just been discovered by the last tree edge -/
structure Found (c : Cfg K E) (root : K) (vis0 : List K) (st : TSt K E) : Prop where
  base : Base c root vis0 st
  last : ∃ tree' w, st.tree = tree' ++ [w] ∧ c.target = some w.2.1 ∧ ∀ x ∈ tree', c.target ≠ some x.2.1

theorem Base.trace_step {c : Cfg K E} {root : K} {vis0 : List K} {st st' : TSt K E} {u v : K} {e : E}
    (hI : Base c root vis0 st) (hv : st'.vis = st.vis) (ht : st'.tree = st.tree)
    (htr : st'.trace = st.trace ++ [(u, v, e)]) (hve : (v, e) ∈ c.adj u) : Base c root vis0 st' where
  treeAcc := by rw [ht]; exact hI.treeAcc
  traceOk := by
    rw [htr]; intro x hx
    rcases List.mem_append.mp hx with hx | hx
    · exact hI.traceOk x hx
    · simp only [List.mem_singleton] at hx; subst hx; exact hve
  dtree := by rw [ht]; exact hI.dtree
  visEq := by rw [hv, ht]; exact hI.visEq
  visNodup := by rw [hv]; exact hI.visNodup

theorem Base.disc_step {c : Cfg K E} {root : K} {vis0 : List K} {st st' : TSt K E} {u v : K} {e : E}
    (hI : Base c root vis0 st) (hu : u = root ∨ u ∈ tgts st.tree)
    (hv : st'.vis = v :: st.vis) (ht : st'.tree = st.tree ++ [(u, v, e)])
    (htr : st'.trace = st.trace ++ [(u, v, e)]) (hve : (v, e) ∈ c.adj u) (hacc : c.acc u v e = true)
    (hnv : v ∉ st.vis) : Base c root vis0 st' where
  treeAcc := by
    rw [ht]; intro x hx
    rcases List.mem_append.mp hx with hx | hx
    · exact hI.treeAcc x hx
    · simp only [List.mem_singleton] at hx; subst hx
      exact List.mem_filter.mpr ⟨hve, hacc⟩
  traceOk := by
    rw [htr]; intro x hx
    rcases List.mem_append.mp hx with hx | hx
    · exact hI.traceOk x hx
    · simp only [List.mem_singleton] at hx; subst hx; exact hve
  dtree := by
    rw [ht]
    exact DTree.snoc hI.dtree (hu.imp id (fun h => mem_tgts.mp h))
  visEq := by rw [hv, ht, hI.visEq, tgts_snoc]; simp
  visNodup := by rw [hv]; exact List.nodup_cons.mpr ⟨hnv, hI.visNodup⟩

theorem SInv.trace_step {c : Cfg K E} {root : K} {vis0 D : List K} {h : List (K × Int)} {st st' : TSt K E}
    {u v : K} {e : E} (hI : SInv c root vis0 D h st) (hv : st'.vis = st.vis) (ht : st'.tree = st.tree)
    (htr : st'.trace = st.trace ++ [(u, v, e)]) (hve : (v, e) ∈ c.adj u) : SInv c root vis0 D h st' where
  base := hI.base.trace_step hv ht htr hve
  noTarget := by rw [ht]; exact hI.noTarget
  src := by rw [ht]; exact hI.src
  closedMod := by rw [hv]; exact hI.closedMod
  nodupDP := hI.nodupDP
  dpVis := by rw [hv]; exact hI.dpVis
  reach := hI.reach

omit [DecidableEq K] in
theorem keys_push_perm (D : List K) {h h' : List (K × Int)} {y : K × Int} (hp : h'.Perm (y :: h)) :
    (D ++ keys h').Perm (y.1 :: (D ++ keys h)) := by
  have h1 : (keys h').Perm (y.1 :: keys h) := by
    simpa [keys] using hp.map (fun y : K × Int => y.1)
  exact (List.Perm.append_left D h1).trans List.perm_middle

omit [DecidableEq K] in
theorem keys_pop_perm (D : List K) {h h' : List (K × Int)} {y : K × Int} (hp : h.Perm (y :: h')) :
    (D ++ keys h).Perm ((D ++ [y.1]) ++ keys h') := by
  have h1 : (keys h).Perm (y.1 :: keys h') := by
    simpa [keys] using hp.map (fun y : K × Int => y.1)
  have := List.Perm.append_left D h1
  simpa [List.append_assoc] using this

theorem SInv.disc_step {c : Cfg K E} {root : K} {vis0 D : List K} {h h' : List (K × Int)} {st st' : TSt K E}
    {u v : K} {e : E} {pv : Int} (hI : SInv c root vis0 D h st) (hu : u ∈ D)
    (hv : st'.vis = v :: st.vis) (ht : st'.tree = st.tree ++ [(u, v, e)])
    (htr : st'.trace = st.trace ++ [(u, v, e)]) (hve : (v, e) ∈ c.adj u) (hacc : c.acc u v e = true)
    (hnv : v ∉ st.vis) (hntg : c.target ≠ some v) (hp : h'.Perm ((v, pv) :: h)) :
    SInv c root vis0 D h' st' := by
  have hperm : (D ++ keys h').Perm (v :: (D ++ keys h)) := keys_push_perm D hp
  have hmem : ∀ x, x ∈ D ++ keys h' ↔ x = v ∨ x ∈ D ++ keys h := fun x => by
    rw [hperm.mem_iff, List.mem_cons]
  have huD : u ∈ D ++ keys h := List.mem_append_left _ hu
  have hvt : v ∈ tgts st'.tree := by rw [ht, tgts_snoc]; simp
  have hmono : ∀ k, k ∈ tgts st.tree → k ∈ tgts st'.tree := by
    intro k hk; rw [ht, tgts_snoc]; exact List.mem_append_left _ hk
  refine ⟨hI.base.disc_step (hI.src u huD) hv ht htr hve hacc hnv, ?_, ?_, ?_, ?_, ?_, ?_⟩
  · rw [ht]; intro x hx
    rcases List.mem_append.mp hx with hx | hx
    · exact hI.noTarget x hx
    · simp only [List.mem_singleton] at hx; subst hx; exact hntg
  · intro x hx
    rcases (hmem x).mp hx with rfl | hx
    · exact Or.inr hvt
    · exact (hI.src x hx).imp id (hmono x)
  · intro x hx
    rw [hv, List.mem_cons] at hx
    rcases hx with rfl | rfl | hx
    · exact (hmem _).mpr (Or.inr (hI.closedMod _ (Or.inl rfl)))
    · exact (hmem _).mpr (Or.inl rfl)
    · exact (hmem _).mpr (Or.inr (hI.closedMod _ (Or.inr hx)))
  · rw [hperm.nodup_iff, List.nodup_cons]
    refine ⟨fun hin => ?_, hI.nodupDP⟩
    rcases hI.dpVis v hin with h1 | h1
    · exact hnv h1
    · exact hntg h1
  · intro x hx
    rw [hv]
    rcases (hmem x).mp hx with rfl | hx
    · exact Or.inl List.mem_cons_self
    · exact (hI.dpVis x hx).imp (List.mem_cons_of_mem _) id
  · intro x hx
    rcases (hmem x).mp hx with rfl | hx
    · exact Reach.step (hI.reach u huD) (List.mem_filter.mpr ⟨hve, hacc⟩)
    · exact hI.reach x hx

theorem SInv.found_step {c : Cfg K E} {root : K} {vis0 D : List K} {h : List (K × Int)} {st st' : TSt K E}
    {u v : K} {e : E} (hI : SInv c root vis0 D h st) (hu : u ∈ D)
    (hv : st'.vis = v :: st.vis) (ht : st'.tree = st.tree ++ [(u, v, e)])
    (htr : st'.trace = st.trace ++ [(u, v, e)]) (hve : (v, e) ∈ c.adj u) (hacc : c.acc u v e = true)
    (hnv : v ∉ st.vis) (htg : c.target = some v) : Found c root vis0 st' :=
  ⟨hI.base.disc_step (hI.src u (List.mem_append_left _ hu)) hv ht htr hve hacc hnv,
    st.tree, (u, v, e), ht, htg, hI.noTarget⟩

theorem SInv.pop {c : Cfg K E} {root : K} {vis0 D : List K} {h h' : List (K × Int)} {st : TSt K E}
    {y : K × Int} (hI : SInv c root vis0 D h st) (hp : h.Perm (y :: h')) :
    SInv c root vis0 (D ++ [y.1]) h' st := by
  have hperm := keys_pop_perm D hp
  have hmem : ∀ x, x ∈ (D ++ [y.1]) ++ keys h' ↔ x ∈ D ++ keys h := fun x => hperm.mem_iff.symm
  exact ⟨hI.base, hI.noTarget, fun x hx => hI.src x ((hmem x).mp hx),
    fun x hx => (hmem x).mpr (hI.closedMod x hx), hperm.nodup_iff.mp hI.nodupDP,
    fun x hx => hI.dpVis x ((hmem x).mp hx), fun x hx => hI.reach x ((hmem x).mp hx)⟩

/-- one scan of the edge list of `u`: either the target is found, or the invariant is kept, the visited
    list grows, every accepted successor is visited, and the trace got exactly the scanned edges -/
theorem pfsScan_spec (c : Cfg K E) (prio : K → Int) (root : K) (vis0 D : List K) (u : K) (hu : u ∈ D)
    (l : List (K × E)) (hl : ∀ p ∈ l, p ∈ c.adj u) (st : TSt K E) (h : List (K × Int))
    (hI : SInv c root vis0 D h st) (b : Bool) (st' : TSt K E) (h' : List (K × Int))
    (hs : pfsScan c prio u l st h = (b, st', h')) :
    (b = true → Found c root vis0 st') ∧
    (b = false → SInv c root vis0 D h' st' ∧ (∀ x ∈ st.vis, x ∈ st'.vis) ∧
      (∀ p ∈ l, c.acc u p.1 p.2 = true → p.1 ∈ st'.vis) ∧
      st'.trace = st.trace ++ l.map (fun p => (u, p.1, p.2))) := by
  induction l generalizing st h with
  | nil =>
    simp only [pfsScan, Prod.mk.injEq] at hs
    obtain ⟨rfl, rfl, rfl⟩ := hs
    exact ⟨by simp, fun _ => ⟨hI, fun _ hx => hx, by simp, by simp⟩⟩
  | cons p l ih =>
    obtain ⟨v, e⟩ := p
    have hve : (v, e) ∈ c.adj u := hl _ (by simp)
    have hl' : ∀ p ∈ l, p ∈ c.adj u := fun p hp => hl p (by simp [hp])
    simp only [pfsScan] at hs
    split at hs
    · rename_i hacc
      split at hs
      · rename_i hvis
        obtain ⟨h1, h2⟩ := ih hl' { st with trace := st.trace ++ [(u, v, e)] } h
          (hI.trace_step rfl rfl rfl hve) hs
        refine ⟨h1, fun hb => ?_⟩
        obtain ⟨a1, a2, a3, a4⟩ := h2 hb
        refine ⟨a1, a2, ?_, ?_⟩
        · intro p hp hacc'
          rcases List.mem_cons.mp hp with rfl | hp
          · exact a2 _ hvis
          · exact a3 p hp hacc'
        · rw [a4]; simp
      · rename_i hvis
        split at hs
        · rename_i htg
          simp only [Prod.mk.injEq] at hs
          obtain ⟨rfl, rfl, rfl⟩ := hs
          exact ⟨fun _ => hI.found_step hu rfl rfl rfl hve hacc hvis htg, by simp⟩
        · rename_i htg
          obtain ⟨h1, h2⟩ := ih hl'
            { vis := v :: st.vis, tree := st.tree ++ [(u, v, e)], trace := st.trace ++ [(u, v, e)] }
            (heapPush (fun x => x.2) h (v, prio v))
            (hI.disc_step hu rfl rfl rfl hve hacc hvis htg (heapPush_perm _ _ _)) hs
          refine ⟨h1, fun hb => ?_⟩
          obtain ⟨a1, a2, a3, a4⟩ := h2 hb
          refine ⟨a1, fun x hx => a2 x (List.mem_cons_of_mem _ hx), ?_, ?_⟩
          · intro p hp hacc'
            rcases List.mem_cons.mp hp with rfl | hp
            · exact a2 _ List.mem_cons_self
            · exact a3 p hp hacc'
          · rw [a4]; simp
    · rename_i hacc
      obtain ⟨h1, h2⟩ := ih hl' { st with trace := st.trace ++ [(u, v, e)] } h
        (hI.trace_step rfl rfl rfl hve) hs
      refine ⟨h1, fun hb => ?_⟩
      obtain ⟨a1, a2, a3, a4⟩ := h2 hb
      refine ⟨a1, a2, ?_, ?_⟩
      · intro p hp hacc'
        rcases List.mem_cons.mp hp with rfl | hp
        · exact absurd hacc' hacc
        · exact a3 p hp hacc'
      · rw [a4]; simp


/-! ## The loop -/

/-- loop invariant: additionally every popped node is fully expanded and the trace is the
    concatenation of the edge lists of the popped nodes -/
structure LInv (c : Cfg K E) (root : K) (vis0 : List K) (D : List K) (h : List (K × Int)) (st : TSt K E) : Prop where
  s : SInv c root vis0 D h st
  doneExp : ∀ x ∈ D, ∀ p ∈ accAdj c.adj c.acc x, p.1 ∈ st.vis
  traceEq : st.trace = D.flatMap (edgesOf c.adj)

theorem LInv.step_false {c : Cfg K E} {prio : K → Int} {root : K} {vis0 D : List K} {h h' h'' : List (K × Int)}
    {st st' : TSt K E} {u : K} {pu : Int} (hI : LInv c root vis0 D h st)
    (hpop : heapPop (fun x : K × Int => x.2) h = some ((u, pu), h'))
    (hscan : pfsScan c prio u (c.adj u) st h' = (false, st', h'')) :
    LInv c root vis0 (D ++ [u]) h'' st' := by
  have hS : SInv c root vis0 (D ++ [u]) h' st := hI.s.pop (heapPop_perm _ _ _ _ hpop)
  obtain ⟨-, h2⟩ := pfsScan_spec c prio root vis0 (D ++ [u]) u (by simp) (c.adj u) (fun p hp => hp) st h' hS
    false st' h'' hscan
  obtain ⟨a1, a2, a3, a4⟩ := h2 rfl
  refine ⟨a1, ?_, ?_⟩
  · intro x hx p hp
    rcases List.mem_append.mp hx with hx | hx
    · exact a2 _ (hI.doneExp x hx p hp)
    · simp only [List.mem_singleton] at hx; subst hx
      have := List.mem_filter.mp hp
      exact a3 p this.1 (by simpa using this.2)
  · rw [a4, hI.traceEq, List.flatMap_append]; simp [edgesOf]

theorem LInv.step_true {c : Cfg K E} {prio : K → Int} {root : K} {vis0 D : List K} {h h' h'' : List (K × Int)}
    {st st' : TSt K E} {u : K} {pu : Int} (hI : LInv c root vis0 D h st)
    (hpop : heapPop (fun x : K × Int => x.2) h = some ((u, pu), h'))
    (hscan : pfsScan c prio u (c.adj u) st h' = (true, st', h'')) :
    Found c root vis0 st' := by
  have hS : SInv c root vis0 (D ++ [u]) h' st := hI.s.pop (heapPop_perm _ _ _ _ hpop)
  exact (pfsScan_spec c prio root vis0 (D ++ [u]) u (by simp) (c.adj u) (fun p hp => hp) st h' hS
    true st' h'' hscan).1 rfl

theorem pfsLoop_spec (c : Cfg K E) (prio : K → Int) (root : K) (vis0 : List K) (fuel : Nat)
    (h : List (K × Int)) (st : TSt K E) (order : List K) (hI : LInv c root vis0 order h st)
    (found : Bool) (st' : TSt K E) (order' : List K)
    (hrun : pfsLoop c prio fuel h st order = some (found, st', order')) :
    (found = true → Found c root vis0 st') ∧ (found = false → LInv c root vis0 order' [] st') := by
  induction fuel generalizing h st order with
  | zero => simp [pfsLoop] at hrun
  | succ fuel ih =>
    simp only [pfsLoop] at hrun
    split at hrun
    · rename_i hpop
      have : h = [] := (Heap.pop_none' _ _).mp hpop
      subst this
      simp only [Option.some.injEq, Prod.mk.injEq] at hrun
      obtain ⟨rfl, rfl, rfl⟩ := hrun
      exact ⟨by simp, fun _ => hI⟩
    · rename_i u pu h' hpop
      split at hrun
      · rename_i st1 x hscan
        simp only [Option.some.injEq, Prod.mk.injEq] at hrun
        obtain ⟨rfl, rfl, rfl⟩ := hrun
        exact ⟨fun _ => hI.step_true hpop hscan, by simp⟩
      · rename_i st1 h1 hscan
        exact ih _ _ _ (hI.step_false hpop hscan) hrun

/-! ## Consequences of the invariants -/

theorem Base.tgts_nodup {c : Cfg K E} {root : K} {vis0 : List K} {st : TSt K E} (hB : Base c root vis0 st) :
    (tgts st.tree).Nodup := by
  have := hB.visNodup
  rw [hB.visEq, List.nodup_append] at this
  exact (List.reverse_perm _).nodup_iff.mp this.1

theorem Base.tgt_not_vis0 {c : Cfg K E} {root : K} {vis0 : List K} {st : TSt K E} (hB : Base c root vis0 st)
    (x : Edge K E) (hx : x ∈ st.tree) : x.2.1 ∉ vis0 := by
  have := hB.visNodup
  rw [hB.visEq, List.nodup_append] at this
  intro h0
  exact this.2.2 x.2.1 (List.mem_reverse.mpr (mem_tgts.mpr ⟨x, hx, rfl⟩)) x.2.1 h0 rfl

theorem SInv.target_not_vis {c : Cfg K E} {root : K} {vis0 D : List K} {h : List (K × Int)} {st : TSt K E}
    (hI : SInv c root vis0 D h st) {t : K} (ht : c.target = some t) (h0 : t ∉ vis0) : t ∉ st.vis := by
  rw [hI.base.visEq]
  intro hin
  rcases List.mem_append.mp hin with h1 | h1
  · obtain ⟨x, hx, rfl⟩ := mem_tgts.mp (List.mem_reverse.mp h1)
    exact hI.noTarget x hx ht
  · exact h0 h1

theorem LInv.final_closed {c : Cfg K E} {root : K} {vis0 D : List K} {st : TSt K E}
    (hI : LInv c root vis0 D [] st) :
    ∀ x, (x = root ∨ x ∈ st.vis) → ∀ p ∈ accAdj c.adj c.acc x, p.1 ∈ st.vis :=
  fun x hx => hI.doneExp x (by simpa [keys] using hI.s.closedMod x hx)

theorem walk_closed (A : K → List (K × E)) (vis : List K) {a b : K} {q : List (Edge K E)}
    (hw : Walk A a b q) (hc : ∀ x, (x = a ∨ x ∈ vis) → ∀ p ∈ A x, p.1 ∈ vis) :
    (q = [] ∧ b = a) ∨ b ∈ vis := by
  induction hw with
  | nil => exact Or.inl ⟨rfl, rfl⟩
  | snoc hw he ih =>
    right
    rcases ih with ⟨_, rfl⟩ | hb
    · exact hc _ (Or.inl rfl) _ he
    · exact hc _ (Or.inr hb) _ he

theorem reach_closed (A : K → List (K × E)) (vis : List K) {a b : K}
    (hr : Reach A a b) (hc : ∀ x, (x = a ∨ x ∈ vis) → ∀ p ∈ A x, p.1 ∈ vis) : b = a ∨ b ∈ vis := by
  induction hr with
  | refl => exact Or.inl rfl
  | step hr he ih => exact Or.inr (hc _ ih _ he)

theorem reach_in_closed (A : K → List (K × E)) (nodes : List K) (hc : Closed A nodes) {a b : K}
    (hr : Reach A a b) (ha : a ∈ nodes) : b ∈ nodes := by
  induction hr with
  | refl => exact ha
  | step hr he ih => exact hc _ ih _ he

/-- the shape of the returned path -/
theorem Found.decomp {c : Cfg K E} {root : K} {vis0 : List K} {st : TSt K E} (hF : Found c root vis0 st)
    (hr : root ∈ vis0 ∨ c.target = some root) :
    ∃ tree' w p, st.tree = tree' ++ [w] ∧ c.target = some w.2.1 ∧ backtrack st.tree = p ++ [w] ∧
      Chain root w.1 p ∧ (∀ x ∈ p, x ∈ tree') ∧ (∀ x ∈ tree', x.2.1 ≠ root) := by
  obtain ⟨tree', w, ht, htg, hnt⟩ := hF.last
  have hroot : ∀ x ∈ tree', x.2.1 ≠ root := by
    intro x hx hxr
    rcases hr with hr | hr
    · exact hF.base.tgt_not_vis0 x (by rw [ht]; exact List.mem_append_left _ hx) (hxr ▸ hr)
    · exact hnt x hx (hxr ▸ hr)
  have hd := hF.base.dtree
  rw [ht] at hd
  obtain ⟨p, hp1, hp2, hp3⟩ := backtrack_spec root tree' w hd hroot
  exact ⟨tree', w, p, ht, htg, by rw [ht]; exact hp1, hp2, hp3, hroot⟩

theorem Found.isPath {c : Cfg K E} {root : K} {vis0 : List K} {st : TSt K E} (hF : Found c root vis0 st)
    (hr : root ∈ vis0 ∨ c.target = some root) :
    ∃ t, c.target = some t ∧ IsPath (accAdj c.adj c.acc) root t (backtrack st.tree) := by
  obtain ⟨tree', w, p, ht, htg, hb, hc, hs, -⟩ := hF.decomp hr
  refine ⟨w.2.1, htg, ?_⟩
  rw [hb]
  refine ⟨by simp, ?_⟩
  obtain ⟨a, b, e⟩ := w
  apply chain_walk _ (Chain.snoc hc)
  intro x hx
  apply hF.base.treeAcc
  rw [ht]
  rcases List.mem_append.mp hx with hx | hx
  · exact List.mem_append_left _ (hs x hx)
  · exact List.mem_append_right _ hx

theorem Found.simple {c : Cfg K E} {root : K} {vis0 : List K} {st : TSt K E} (hF : Found c root vis0 st)
    (hr : root ∈ vis0 ∨ c.target = some root) :
    ((backtrack st.tree).map (fun x => x.2.1)).Nodup := by
  obtain ⟨tree', w, p, ht, htg, hb, hc, hs, hroot⟩ := hF.decomp hr
  have hn := hF.base.tgts_nodup
  rw [ht, tgts_snoc, List.nodup_append] at hn
  have h1 := chain_simple root tree' hn.1 hroot hc hs
  rw [hb, List.map_append, List.nodup_append]
  refine ⟨(List.nodup_cons.mp h1).2, by simp, ?_⟩
  intro a ha b hb' hab
  simp only [List.map_cons, List.map_nil, List.mem_singleton] at hb'
  obtain ⟨x, hx, hxa⟩ := List.mem_map.mp ha
  exact hn.2.2 a (mem_tgts.mpr ⟨x, hs x hx, hxa⟩) w.2.1 (by simp) (hab.trans hb')

theorem LInv.no_path {c : Cfg K E} {root : K} {vis0 D : List K} {st : TSt K E}
    (hI : LInv c root vis0 D [] st) {t : K} (ht : c.target = some t) (h0 : t ∉ vis0) :
    ¬ ∃ q, IsPath (accAdj c.adj c.acc) root t q := by
  rintro ⟨q, hne, hw⟩
  rcases walk_closed _ st.vis hw hI.final_closed with ⟨hq, _⟩ | hv
  · exact hne hq
  · exact hI.s.target_not_vis ht h0 hv


/-! ## `runLoop`, `searchPath`, `searchNode` -/

/-- configuration of a run -/
def runCfg (adj : K → List (K × E)) (acc : K → K → E → Bool) (root : K) (target : Option K) (cycle : Bool) :
    Cfg K E := { adj := adj, acc := acc, target := goal root target cycle }
/-- initially visited nodes of a run -/
def runVis0 (root : K) (cycle : Bool) : List K := if cycle then [] else [root]

/-- the heap order of a priority-first kind -/
def prioOf (nval : K → Int) (kind : Kind) : K → Int :=
  match kind with
  | .pfsMin => fun k => - nval k
  | _ => nval

theorem runLoop_pfs (adj : K → List (K × E)) (acc : K → K → E → Bool) (nval : K → Int) (kind : Kind)
    (hk : kind = .pfsMin ∨ kind = .pfsMax) (root : K) (target : Option K) (cycle : Bool) (fuel : Nat) :
    runLoop adj acc nval kind root target cycle fuel =
      (pfsLoop (runCfg adj acc root target cycle) (prioOf nval kind) fuel [(root, prioOf nval kind root)]
        { vis := runVis0 root cycle } []).map
        fun (f, st, o) => { found := f, st := st, order := o } := by
  rcases hk with rfl | rfl <;> rfl

theorem LInv.init (adj : K → List (K × E)) (acc : K → K → E → Bool) (root : K) (target : Option K)
    (cycle : Bool) (pr : Int) :
    LInv (runCfg adj acc root target cycle) root (runVis0 root cycle) [] [(root, pr)]
      { vis := runVis0 root cycle } := by
  refine ⟨⟨⟨by simp, by simp, DTree.nil, by simp [tgts], ?_⟩, by simp, ?_, ?_, by simp [keys], ?_, ?_⟩,
    by simp, by simp⟩
  · cases cycle <;> simp [runVis0]
  · intro x hx; left; simpa [keys] using hx
  · intro x hx; cases cycle <;> simpa [keys, runVis0] using hx
  · intro x hx
    have : x = root := by simpa [keys] using hx
    subst this
    cases cycle <;> simp [runVis0, runCfg, goal]
  · intro x hx
    have : x = root := by simpa [keys] using hx
    subst this; exact Reach.refl _

theorem runVis0_or (adj : K → List (K × E)) (acc : K → K → E → Bool) (root : K) (target : Option K) (cycle : Bool) :
    root ∈ runVis0 root cycle ∨ (runCfg adj acc root target cycle).target = some root := by
  cases cycle <;> simp [runVis0, runCfg, goal]

theorem runLoop_inv (adj : K → List (K × E)) (acc : K → K → E → Bool) (nval : K → Int) (kind : Kind)
    (hk : kind = .pfsMin ∨ kind = .pfsMax) (root : K) (target : Option K) (cycle : Bool) (fuel : Nat)
    (r : Run K E) (h : runLoop adj acc nval kind root target cycle fuel = some r) :
    (r.found = true → Found (runCfg adj acc root target cycle) root (runVis0 root cycle) r.st) ∧
    (r.found = false → LInv (runCfg adj acc root target cycle) root (runVis0 root cycle) r.order [] r.st) := by
  rw [runLoop_pfs adj acc nval kind hk root target cycle fuel] at h
  obtain ⟨⟨f, st, o⟩, h1, rfl⟩ := Option.map_eq_some_iff.mp h
  exact pfsLoop_spec _ _ root _ fuel _ _ [] (LInv.init adj acc root target cycle _) f st o h1

theorem Pfs.run_sound (adj : K → List (K × E)) (acc : K → K → E → Bool) (nval : K → Int) (kind : Kind)
    (hk : kind = .pfsMin ∨ kind = .pfsMax) (root : K) (target : Option K) (cycle : Bool) (fuel : Nat)
    (r : Run K E) (h : runLoop adj acc nval kind root target cycle fuel = some r) (hf : r.found = true) :
    ∃ t, goal root target cycle = some t ∧ IsPath (accAdj adj acc) root t (backtrack r.st.tree) :=
  ((runLoop_inv adj acc nval kind hk root target cycle fuel r h).1 hf).isPath
    (runVis0_or adj acc root target cycle)

theorem Pfs.run_simple (adj : K → List (K × E)) (acc : K → K → E → Bool) (nval : K → Int) (kind : Kind)
    (hk : kind = .pfsMin ∨ kind = .pfsMax) (root : K) (target : Option K) (cycle : Bool) (fuel : Nat)
    (r : Run K E) (h : runLoop adj acc nval kind root target cycle fuel = some r) (hf : r.found = true) :
    ((backtrack r.st.tree).map (fun x => x.2.1)).Nodup :=
  ((runLoop_inv adj acc nval kind hk root target cycle fuel r h).1 hf).simple
    (runVis0_or adj acc root target cycle)

theorem Pfs.run_complete (adj : K → List (K × E)) (acc : K → K → E → Bool) (nval : K → Int) (kind : Kind)
    (hk : kind = .pfsMin ∨ kind = .pfsMax) (root : K) (target : Option K) (cycle : Bool) (fuel : Nat)
    (r : Run K E) (h : runLoop adj acc nval kind root target cycle fuel = some r) (hf : r.found = false)
    (t : K) (hg : goal root target cycle = some t) (hrt : cycle = false → t ≠ root) :
    ¬ ∃ q, IsPath (accAdj adj acc) root t q := by
  refine ((runLoop_inv adj acc nval kind hk root target cycle fuel r h).2 hf).no_path hg ?_
  cases cycle
  · simpa [runVis0] using hrt rfl
  · simp [runVis0]

theorem Pfs.trace_sound (adj : K → List (K × E)) (acc : K → K → E → Bool) (nval : K → Int) (kind : Kind)
    (hk : kind = .pfsMin ∨ kind = .pfsMax) (root : K) (target : Option K) (cycle : Bool) (fuel : Nat)
    (r : Run K E) (h : runLoop adj acc nval kind root target cycle fuel = some r) :
    ∀ x ∈ r.st.trace, (x.2.1, x.2.2) ∈ adj x.1 := by
  have := runLoop_inv adj acc nval kind hk root target cycle fuel r h
  cases hf : r.found
  · exact (this.2 hf).s.base.traceOk
  · exact (this.1 hf).base.traceOk

theorem Pfs.tree_accepted (adj : K → List (K × E)) (acc : K → K → E → Bool) (nval : K → Int) (kind : Kind)
    (hk : kind = .pfsMin ∨ kind = .pfsMax) (root : K) (target : Option K) (cycle : Bool) (fuel : Nat)
    (r : Run K E) (h : runLoop adj acc nval kind root target cycle fuel = some r) :
    ∀ x ∈ r.st.tree, (x.2.1, x.2.2) ∈ accAdj adj acc x.1 := by
  have := runLoop_inv adj acc nval kind hk root target cycle fuel r h
  cases hf : r.found
  · exact (this.2 hf).s.base.treeAcc
  · exact (this.1 hf).base.treeAcc

theorem pfs_searchPath_some (adj : K → List (K × E)) (acc : K → K → E → Bool) (nval : K → Int) (kind : Kind)
    (root : K) (target : Option K) (cycle : Bool) (fuel : Nat) (res : Option (List (Edge K E))) (run : Run K E)
    (h : searchPath adj acc nval kind root target cycle fuel = some (res, run)) :
    runLoop adj acc nval kind root target cycle fuel = some run ∧
      res = if run.found then some (backtrack run.st.tree) else none := by
  unfold searchPath at h
  obtain ⟨r, h1, h2⟩ := Option.map_eq_some_iff.mp h
  simp only [Prod.mk.injEq] at h2
  obtain ⟨h3, rfl⟩ := h2
  exact ⟨h1, h3.symm⟩

theorem Pfs.path_sound' (adj : K → List (K × E)) (acc : K → K → E → Bool) (nval : K → Int) (kind : Kind)
    (hk : kind = .pfsMin ∨ kind = .pfsMax) (root t : K) (fuel : Nat)
    (p : List (Edge K E)) (run : Run K E)
    (h : searchPath adj acc nval kind root (some t) false fuel = some (some p, run)) :
    IsPath (accAdj adj acc) root t p := by
  obtain ⟨h1, h2⟩ := pfs_searchPath_some adj acc nval kind root (some t) false fuel _ run h
  cases hf : run.found
  · simp [hf] at h2
  · simp only [hf, if_true, Option.some.injEq] at h2
    obtain ⟨t', ht, hp⟩ := Pfs.run_sound adj acc nval kind hk root (some t) false fuel run h1 hf
    simp only [goal, Bool.false_eq_true, if_false, Option.some.injEq] at ht
    subst ht; rw [h2]; exact hp

theorem Pfs.path_complete' (adj : K → List (K × E)) (acc : K → K → E → Bool) (nval : K → Int) (kind : Kind)
    (hk : kind = .pfsMin ∨ kind = .pfsMax) (root t : K) (fuel : Nat)
    (run : Run K E) (hrt : t ≠ root)
    (h : searchPath adj acc nval kind root (some t) false fuel = some (none, run)) :
    ¬ Reach (accAdj adj acc) root t := by
  obtain ⟨h1, h2⟩ := pfs_searchPath_some adj acc nval kind root (some t) false fuel _ run h
  cases hf : run.found
  · intro hr
    rcases (reach_iff_path _ _ _).mp hr with h3 | h3
    · exact hrt h3.symm
    · exact Pfs.run_complete adj acc nval kind hk root (some t) false fuel run h1 hf t (by simp [goal])
        (fun _ => hrt) h3
  · simp [hf] at h2

omit [DecidableEq K] in
theorem walk_getLast (A : K → List (K × E)) {a b : K} {p : List (Edge K E)} (hw : Walk A a b p) (hne : p ≠ []) :
    (p.getLast?).map (fun x => x.2.1) = some b := by
  cases hw with
  | nil => exact absurd rfl hne
  | snoc hw he => simp

theorem Pfs.search_iff' (adj : K → List (K × E)) (acc : K → K → E → Bool) (nval : K → Int) (kind : Kind)
    (hk : kind = .pfsMin ∨ kind = .pfsMax) (root t : K) (fuel : Nat)
    (x : Option K) (run : Run K E) (hrt : t ≠ root)
    (h : searchNode adj acc nval kind root (some t) fuel = some (x, run)) :
    (x = some t ∨ x = none) ∧ (x = some t ↔ Reach (accAdj adj acc) root t) := by
  unfold searchNode at h
  obtain ⟨r, h1, h2⟩ := Option.map_eq_some_iff.mp h
  have hx : x = if run.found then ((backtrack run.st.tree).getLast?).map (fun y => y.2.1) else none := by
    rcases hk with rfl | rfl <;>
    · simp only [Prod.mk.injEq] at h2
      obtain ⟨h3, rfl⟩ := h2
      exact h3.symm
  have hr : r = run := by
    rcases hk with rfl | rfl <;>
    · simp only [Prod.mk.injEq] at h2
      exact h2.2
  subst hr
  cases hf : r.found
  · simp only [hf, Bool.false_eq_true, if_false] at hx
    subst hx
    refine ⟨Or.inr rfl, ⟨fun h => by simp at h, fun hr => ?_⟩⟩
    exfalso
    rcases (reach_iff_path _ _ _).mp hr with h3 | h3
    · exact hrt h3.symm
    · exact Pfs.run_complete adj acc nval kind hk root (some t) false fuel r h1 hf t (by simp [goal])
        (fun _ => hrt) h3
  · simp only [hf, if_true] at hx
    obtain ⟨t', ht, hp⟩ := Pfs.run_sound adj acc nval kind hk root (some t) false fuel r h1 hf
    simp only [goal, Bool.false_eq_true, if_false, Option.some.injEq] at ht
    subst ht
    rw [walk_getLast _ hp.2 hp.1] at hx
    subst hx
    exact ⟨Or.inl rfl, ⟨fun _ => (reach_iff_path _ _ _).mpr (Or.inr ⟨_, hp⟩), fun _ => rfl⟩⟩

theorem NodeOrd.cmp_value' (a b : K × Int) :
    (compare a.2 b.2 = .lt ↔ a.2 < b.2) ∧ (compare a.2 b.2 = .eq ↔ a.2 = b.2) := by
  simp only [compare, compareOfLessAndEq]
  constructor
  · constructor
    · intro h; split at h
      · assumption
      · split at h <;> simp at h
    · intro h; simp [h]
  · constructor
    · intro h; split at h
      · simp at h
      · split at h
        · assumption
        · simp at h
    · intro h
      have : ¬ a.2 < b.2 := by omega
      simp [h]


/-! ## `for_each` visits every edge of every reachable node once -/

omit [DecidableEq K] in
theorem pfs_accAdj_true (adj : K → List (K × E)) : accAdj adj (fun _ _ _ => true) = adj := by
  funext u; simp [accAdj]

theorem Pfs.trace_perm (adj : K → List (K × E)) (nval : K → Int) (kind : Kind)
    (hk : kind = .pfsMin ∨ kind = .pfsMax) (root : K) (fuel : Nat) (r : Run K E)
    (h : runLoop adj (fun _ _ _ => true) nval kind root none false fuel = some r) :
    ∃ L : List K, L.Nodup ∧ (∀ u, u ∈ L ↔ Reach adj root u) ∧ r.st.trace.Perm (L.flatMap (edgesOf adj)) := by
  have hinv := runLoop_inv adj _ nval kind hk root none false fuel r h
  cases hf : r.found
  · have hI := hinv.2 hf
    refine ⟨r.order, by simpa [keys] using hI.s.nodupDP, ?_, by rw [hI.traceEq]; exact List.Perm.refl _⟩
    intro u
    constructor
    · intro hu
      have := hI.s.reach u (by simpa [keys] using hu)
      simpa [runCfg, pfs_accAdj_true] using this
    · intro hr
      have hr' : Reach (accAdj adj (fun _ _ _ => true)) root u := by rw [pfs_accAdj_true]; exact hr
      have h1 := reach_closed _ r.st.vis hr' hI.final_closed
      simpa [keys] using hI.s.closedMod u h1
  · have hF := hinv.1 hf
    obtain ⟨_, w, _, htg, _⟩ := hF.last
    simp [runCfg, goal] at htg

/-! ## Filtering is traversing the subgraph of accepted edges -/

theorem pfsScan_filter (c1 c2 : Cfg K E) (prio : K → Int) (u : K) (ht : c1.target = c2.target)
    (h2 : ∀ u v e, c2.acc u v e = true) (l : List (K × E)) (st1 st2 : TSt K E) (h : List (K × Int))
    (hv : st1.vis = st2.vis) (htree : st1.tree = st2.tree) :
    ∃ st1' st2' b h', pfsScan c1 prio u l st1 h = (b, st1', h') ∧
      pfsScan c2 prio u (l.filter (fun p => c1.acc u p.1 p.2)) st2 h = (b, st2', h') ∧
      st1'.vis = st2'.vis ∧ st1'.tree = st2'.tree := by
  induction l generalizing st1 st2 h with
  | nil => exact ⟨st1, st2, false, h, rfl, rfl, hv, htree⟩
  | cons p l ih =>
    obtain ⟨v, e⟩ := p
    by_cases hacc : c1.acc u v e = true
    · rw [List.filter_cons_of_pos (by simpa using hacc)]
      simp only [pfsScan, hacc, h2, if_true, ← ht, ← hv, ← htree]
      by_cases hvis : v ∈ st1.vis
      · simp only [hvis, if_true]
        exact ih _ _ h rfl rfl
      · simp only [hvis, if_false]
        by_cases htg : c1.target = some v
        · simp only [htg, if_true]
          exact ⟨_, _, true, h, rfl, rfl, rfl, rfl⟩
        · simp only [htg, if_false]
          exact ih _ _ _ rfl rfl
    · rw [List.filter_cons_of_neg (by simpa using hacc)]
      simp only [pfsScan, hacc]
      exact ih _ _ h hv htree

theorem pfsLoop_filter (c1 c2 : Cfg K E) (prio : K → Int) (ht : c1.target = c2.target)
    (h2 : ∀ u v e, c2.acc u v e = true)
    (hadj : ∀ u, c2.adj u = (c1.adj u).filter (fun p => c1.acc u p.1 p.2))
    (fuel : Nat) (h : List (K × Int)) (st1 st2 : TSt K E) (order : List K)
    (hv : st1.vis = st2.vis) (htree : st1.tree = st2.tree) :
    (pfsLoop c1 prio fuel h st1 order).map (fun r => (r.1, r.2.1.vis, r.2.1.tree, r.2.2)) =
    (pfsLoop c2 prio fuel h st2 order).map (fun r => (r.1, r.2.1.vis, r.2.1.tree, r.2.2)) := by
  induction fuel generalizing h st1 st2 order with
  | zero => simp [pfsLoop]
  | succ fuel ih =>
    rcases hpop : heapPop (fun x : K × Int => x.2) h with _ | ⟨⟨u, pu⟩, h'⟩
    · simp [pfsLoop, hpop, hv, htree]
    · obtain ⟨st1', st2', b, h'', e1, e2, ev, et⟩ :=
        pfsScan_filter c1 c2 prio u ht h2 (c1.adj u) st1 st2 h' hv htree
      rw [← hadj] at e2
      cases b
      · simp only [pfsLoop, hpop, e1, e2]
        exact ih _ _ _ _ ev et
      · simp [pfsLoop, hpop, e1, e2, ev, et]

theorem Pfs.filter_subgraph (adj : K → List (K × E)) (acc : K → K → E → Bool) (nval : K → Int) (kind : Kind)
    (hk : kind = .pfsMin ∨ kind = .pfsMax) (root : K) (target : Option K) (cycle : Bool) (fuel : Nat) :
    (runLoop adj acc nval kind root target cycle fuel).map (fun r => (r.found, r.st.vis, r.st.tree)) =
    (runLoop (accAdj adj acc) (fun _ _ _ => true) nval kind root target cycle fuel).map
      (fun r => (r.found, r.st.vis, r.st.tree)) := by
  rw [runLoop_pfs adj acc nval kind hk, runLoop_pfs (accAdj adj acc) _ nval kind hk]
  have key := pfsLoop_filter (runCfg adj acc root target cycle)
    (runCfg (accAdj adj acc) (fun _ _ _ => true) root target cycle) (prioOf nval kind) rfl
    (fun _ _ _ => rfl) (fun _ => rfl) fuel [(root, prioOf nval kind root)]
    { vis := runVis0 root cycle } { vis := runVis0 root cycle } [] rfl rfl
  rcases e1 : pfsLoop (runCfg adj acc root target cycle) (prioOf nval kind) fuel
      [(root, prioOf nval kind root)] { vis := runVis0 root cycle } [] with _ | ⟨f1, s1, o1⟩ <;>
  rcases e2 : pfsLoop (runCfg (accAdj adj acc) (fun _ _ _ => true) root target cycle) (prioOf nval kind) fuel
      [(root, prioOf nval kind root)] { vis := runVis0 root cycle } [] with _ | ⟨f2, s2, o2⟩ <;>
  simp only [e1, e2, Option.map_none, Option.map_some, Option.some.injEq, Prod.mk.injEq, reduceCtorEq] at key ⊢
  exact ⟨key.1, key.2.1, key.2.2.1⟩

/-! ## Fuel -/

theorem pfsLoop_fuel (c : Cfg K E) (prio : K → Int) (root : K) (vis0 nodes : List K)
    (hc : Closed (accAdj c.adj c.acc) nodes) (hr : root ∈ nodes) (fuel : Nat) (h : List (K × Int))
    (st : TSt K E) (order : List K) (hI : LInv c root vis0 order h st)
    (hf : nodes.length < fuel + order.length) : (pfsLoop c prio fuel h st order).isSome = true := by
  have hlen : ∀ {D : List K} {h : List (K × Int)} {st : TSt K E}, LInv c root vis0 D h st →
      D.length ≤ nodes.length := by
    intro D h st hI
    have hn : D.Nodup := (List.nodup_append.mp hI.s.nodupDP).1
    exact hn.length_le_of_subset
      (fun x hx => reach_in_closed _ nodes hc (hI.s.reach x (List.mem_append_left _ hx)) hr)
  induction fuel generalizing h st order with
  | zero => have := hlen hI; omega
  | succ fuel ih =>
    rcases hpop : heapPop (fun x : K × Int => x.2) h with _ | ⟨⟨u, pu⟩, h'⟩
    · simp [pfsLoop, hpop]
    · rcases hscan : pfsScan c prio u (c.adj u) st h' with ⟨b, st', h''⟩
      cases b
      · simp only [pfsLoop, hpop, hscan]
        exact ih _ _ _ (hI.step_false hpop hscan) (by simp only [List.length_append, List.length_singleton]; omega)
      · simp [pfsLoop, hpop, hscan]

theorem Pfs.fuel_enough' (adj : K → List (K × E)) (acc : K → K → E → Bool) (nval : K → Int) (kind : Kind)
    (hk : kind = .pfsMin ∨ kind = .pfsMax) (root : K)
    (target : Option K) (cycle : Bool) (fuel : Nat) (nodes : List K)
    (hc : Closed (accAdj adj acc) nodes) (hr : root ∈ nodes) (hf : nodes.length < fuel) :
    (runLoop adj acc nval kind root target cycle fuel).isSome = true := by
  rw [runLoop_pfs adj acc nval kind hk, Option.isSome_map]
  exact pfsLoop_fuel (runCfg adj acc root target cycle) _ root (runVis0 root cycle) nodes hc hr fuel _ _ []
    (LInv.init adj acc root target cycle _) (by simpa using hf)


end G

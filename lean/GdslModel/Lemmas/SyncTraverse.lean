import GdslModel.Lemmas.SyncSingle
import GdslModel.Lemmas.Serde
import GdslModel.Model.Search
/-!
# Traversal lock programs run alone compute the static traversals (C15)

Method: `runSingle_iterNext_bind` consumes one iterator step of a lock program (three interpreter steps, one
read-lock token, store and held set unchanged). `bfsPure` / `dfsPure` / `prePure` are the flat state machines of
`Sync.bfsProg` / `dfsProg` / `preProg` with the list lookup in place of `iterNext`, `none` = step counter exhausted.
`*_run` transfers a finished run of the pure machine to `runSingle` (uniform trace, any larger fuels);
`*_scan` / `*_loop` / `*_edges` relate the pure machines to the static loops of `Model/Search.lean`:
scanning `u` from position `pos` is the static loop over `(adj u).drop pos`.
-/
namespace G
variable {K E : Type} [DecidableEq K]

/-! ### serialised form under a permutation of the iteration order -/

theorem Serde.decompose_perm' {N : Type} (s : Store K E) (nval : K → N) (π π' : List K) (h : π.Perm π') :
    (decompose s nval π).1.Perm (decompose s nval π').1 ∧ (decompose s nval π).2.Perm (decompose s nval π').2 :=
  ⟨h.map _, h.flatMap_right _⟩

/-! ### one iterator step -/

theorem runSingle_iterNext_bind {R : Type} (n : Nat) (u : K) (sel : Adj K E → List (K × E)) (pos : Nat)
    (k : Option (K × E) → Prog K E R) (s : Store K E) (tr : List (Tok K)) :
    runSingle (n + 3) ((Sync.iterNext u sel pos).bind k) s [] tr =
      runSingle n (k ((sel (s.get u))[pos]?)) s [] (tr ++ [(.node u, .r, 0)]) := by
  simp [Sync.iterNext, Sync.query, Prog.bind, runSingle, canAcquire]

theorem drop_eq_nil_getElem? {α : Type} (l : List α) (pos : Nat) (h : l.drop pos = []) : l[pos]? = none := by
  simp only [List.drop_eq_nil_iff] at h
  simp [h]

theorem drop_eq_cons_getElem? {α : Type} (l : List α) (pos : Nat) (x : α) (rest : List α) (h : l.drop pos = x :: rest) :
    l[pos]? = some x ∧ l.drop (pos + 1) = rest := by
  have h1 : l[pos]? = (l.drop pos)[0]? := by simp
  have h2 : l.drop (pos + 1) = (l.drop pos).drop 1 := by simp [List.drop_drop]
  rw [h1, h2, h]; simp

/-! ### breadth-first -/

/-- the state machine of `Sync.bfsProg` on the static lists; `none` = the step counter ran out -/
def bfsPure (adj : K → List (K × E)) (tgt : Option K) : Nat → Option (K × Nat) → List K → List K → Option (Option K)
  | 0, _, _, _ => none
  | _ + 1, none, [], _ => some none
  | m + 1, none, u :: q, vis => bfsPure adj tgt m (some (u, 0)) q vis
  | m + 1, some (u, pos), q, vis =>
    match (adj u)[pos]? with
    | none => bfsPure adj tgt m none q vis
    | some (v, _) =>
      if vis.contains v then bfsPure adj tgt m (some (u, pos + 1)) q vis
      else if tgt = some v then some (some v)
      else bfsPure adj tgt m (some (u, pos + 1)) (q ++ [v]) (v :: vis)

theorem bfs_run (sel : Adj K E → List (K × E)) (tgt : Option K) (s : Store K E) (m : Nat) :
    ∀ (cur : Option (K × Nat)) (q vis : List K) (r : Option K),
      bfsPure (fun k => sel (s.get k)) tgt m cur q vis = some r →
      ∃ us, ∀ f2 f1 tr, m ≤ f2 → 3 * m + 1 ≤ f1 →
        runSingle f1 (Sync.bfsProg sel tgt f2 cur q vis) s [] tr = some (s, r, tr ++ us) := by
  induction m with
  | zero => intro cur q vis r h; simp [bfsPure] at h
  | succ m ih =>
    intro cur q vis r h
    match cur, q with
    | none, [] =>
      simp only [bfsPure, Option.some.injEq] at h
      subst h
      refine ⟨[], fun f2 f1 tr h2 h1 => ?_⟩
      obtain ⟨f2, rfl⟩ : ∃ k, f2 = k + 1 := ⟨f2 - 1, by omega⟩
      obtain ⟨f1, rfl⟩ : ∃ k, f1 = k + 1 := ⟨f1 - 1, by omega⟩
      simp [Sync.bfsProg, runSingle]
    | none, u :: q =>
      simp only [bfsPure] at h
      obtain ⟨us, hus⟩ := ih _ _ _ _ h
      refine ⟨us, fun f2 f1 tr h2 h1 => ?_⟩
      obtain ⟨f2, rfl⟩ : ∃ k, f2 = k + 1 := ⟨f2 - 1, by omega⟩
      simp only [Sync.bfsProg]
      exact hus f2 f1 tr (by omega) (by omega)
    | some (u, pos), q =>
      simp only [bfsPure] at h
      cases hx : (sel (s.get u))[pos]? with
      | none =>
        rw [hx] at h
        obtain ⟨us, hus⟩ := ih _ _ _ _ h
        refine ⟨(.node u, .r, 0) :: us, fun f2 f1 tr h2 h1 => ?_⟩
        obtain ⟨f2, rfl⟩ : ∃ k, f2 = k + 1 := ⟨f2 - 1, by omega⟩
        obtain ⟨f1, rfl⟩ : ∃ k, f1 = k + 3 := ⟨f1 - 3, by omega⟩
        simp only [Sync.bfsProg, runSingle_iterNext_bind, hx]
        rw [hus f2 f1 _ (by omega) (by omega)]
        simp
      | some x =>
        obtain ⟨v, e⟩ := x
        rw [hx] at h
        simp only at h
        by_cases hv : vis.contains v = true
        · simp only [hv, if_true] at h
          obtain ⟨us, hus⟩ := ih _ _ _ _ h
          refine ⟨(.node u, .r, 0) :: us, fun f2 f1 tr h2 h1 => ?_⟩
          obtain ⟨f2, rfl⟩ : ∃ k, f2 = k + 1 := ⟨f2 - 1, by omega⟩
          obtain ⟨f1, rfl⟩ : ∃ k, f1 = k + 3 := ⟨f1 - 3, by omega⟩
          simp only [Sync.bfsProg, runSingle_iterNext_bind, hx, hv, if_true]
          rw [hus f2 f1 _ (by omega) (by omega)]
          simp
        · simp only [hv, Bool.false_eq_true, if_false] at h
          by_cases ht : tgt = some v
          · simp only [ht, if_true, Option.some.injEq] at h
            subst h
            refine ⟨[(.node u, .r, 0)], fun f2 f1 tr h2 h1 => ?_⟩
            obtain ⟨f2, rfl⟩ : ∃ k, f2 = k + 1 := ⟨f2 - 1, by omega⟩
            obtain ⟨f1, rfl⟩ : ∃ k, f1 = k + 1 + 3 := ⟨f1 - 4, by omega⟩
            simp only [Sync.bfsProg, runSingle_iterNext_bind, hx, hv, ht, if_true, Bool.false_eq_true, if_false, runSingle]
          · simp only [ht, if_false] at h
            obtain ⟨us, hus⟩ := ih _ _ _ _ h
            refine ⟨(.node u, .r, 0) :: us, fun f2 f1 tr h2 h1 => ?_⟩
            obtain ⟨f2, rfl⟩ : ∃ k, f2 = k + 1 := ⟨f2 - 1, by omega⟩
            obtain ⟨f1, rfl⟩ : ∃ k, f1 = k + 3 := ⟨f1 - 3, by omega⟩
            simp only [Sync.bfsProg, runSingle_iterNext_bind, hx, hv, ht, if_false, Bool.false_eq_true]
            rw [hus f2 f1 _ (by omega) (by omega)]
            simp

/-- scanning `u` from `pos` in the flat machine is the static scan over the rest of the list -/
theorem bfs_scan (c : Cfg K E) (hacc : ∀ u v e, c.acc u v e = true) (u : K) (l : List (K × E)) :
    ∀ (st : TSt K E) (q : List K) (pos : Nat), (c.adj u).drop pos = l →
      ∃ n, ∀ k, bfsPure c.adj c.target (k + n) (some (u, pos)) q st.vis =
        if (bfsScan c u l st q).1 then some c.target
        else bfsPure c.adj c.target k none (bfsScan c u l st q).2.2 (bfsScan c u l st q).2.1.vis := by
  induction l with
  | nil =>
    intro st q pos hl
    refine ⟨1, fun k => ?_⟩
    simp [bfsPure, bfsScan, drop_eq_nil_getElem? _ _ hl]
  | cons x rest ih =>
    intro st q pos hl
    obtain ⟨v, e⟩ := x
    obtain ⟨hx, hrest⟩ := drop_eq_cons_getElem? _ _ _ _ hl
    by_cases hv : v ∈ st.vis
    · obtain ⟨n, hn⟩ := ih { st with trace := st.trace ++ [(u, v, e)] } q (pos + 1) hrest
      refine ⟨n + 1, fun k => ?_⟩
      have := hn k
      simp only [bfsPure, bfsScan, hx, hacc, if_true, hv, List.contains_eq_mem, decide_true] at this ⊢
      exact this
    · by_cases ht : c.target = some v
      · refine ⟨1, fun k => ?_⟩
        simp [bfsPure, bfsScan, hx, hacc, hv, ht]
      · obtain ⟨n, hn⟩ := ih { st with trace := st.trace ++ [(u, v, e)], vis := v :: st.vis, tree := st.tree ++ [(u, v, e)] }
          (q ++ [v]) (pos + 1) hrest
        refine ⟨n + 1, fun k => ?_⟩
        have := hn k
        simp only [bfsPure, bfsScan, hx, hacc, if_true, hv, ht, if_false, List.contains_eq_mem, decide_false,
          Bool.false_eq_true] at this ⊢
        exact this

theorem bfs_loop (c : Cfg K E) (hacc : ∀ u v e, c.acc u v e = true) (fuel : Nat) :
    ∀ (q : List K) (st : TSt K E) (b : Bool) (st' : TSt K E), bfsLoop c fuel q st = some (b, st') →
      ∃ n, ∀ k, bfsPure c.adj c.target (k + n) none q st.vis = some (if b then c.target else none) := by
  induction fuel with
  | zero => intro q st b st' h; simp [bfsLoop] at h
  | succ fuel ih =>
    intro q st b st' h
    match q with
    | [] =>
      simp only [bfsLoop, Option.some.injEq, Prod.mk.injEq] at h
      refine ⟨1, fun k => ?_⟩
      simp [bfsPure, ← h.1]
    | u :: q =>
      simp only [bfsLoop] at h
      obtain ⟨n1, hn1⟩ := bfs_scan c hacc u (c.adj u) st q 0 (by simp)
      split at h
      · rename_i st1 q1 hs
        simp only [Option.some.injEq, Prod.mk.injEq] at h
        refine ⟨n1 + 1, fun k => ?_⟩
        have := hn1 k
        simp only [hs, if_true] at this
        rw [show k + (n1 + 1) = (k + n1) + 1 from rfl]
        simp only [bfsPure, ← h.1, if_true]
        exact this
      · rename_i st1 q1 hs
        obtain ⟨n2, hn2⟩ := ih _ _ _ _ h
        refine ⟨n2 + n1 + 1, fun k => ?_⟩
        have := hn1 (k + n2)
        simp only [hs, Bool.false_eq_true, if_false, hn2] at this
        rw [show k + (n2 + n1 + 1) = (k + n2 + n1) + 1 by omega]
        simp only [bfsPure]
        exact this

theorem Sync.bfs_alone_refines' (sel : Adj K E → List (K × E)) (s : Store K E) (root : K) (tgt : Option K) (fuel : Nat)
    (res : Option K) (run : Run K E)
    (h : searchNode (fun k => sel (s.get k)) (fun _ _ _ => true) (fun _ => 0) .bfs root tgt fuel = some (res, run)) :
    ∃ n tr, ∀ f1 f2, n ≤ f1 → n ≤ f2 →
      runSingle f1 (Sync.bfsProg sel tgt f2 none [root] [root]) s [] [] = some (s, res, tr) := by
  simp only [searchNode, runLoop, Bool.false_eq_true, if_false, Option.map_map, Option.map_eq_some_iff] at h
  obtain ⟨⟨b, st'⟩, hl, hr⟩ := h
  simp only [Function.comp, Prod.mk.injEq] at hr
  obtain ⟨n, hn⟩ := bfs_loop { adj := fun k => sel (s.get k), acc := fun _ _ _ => true, target := tgt } (fun _ _ _ => rfl)
    fuel _ _ _ _ hl
  have h0 := hn 0
  simp only [Nat.zero_add] at h0
  obtain ⟨us, hus⟩ := bfs_run sel tgt s n none [root] [root] _ h0
  refine ⟨3 * n + 1, us, fun f1 f2 h1 h2 => ?_⟩
  rw [hus f2 f1 [] (by omega) h1, ← hr.1]
  simp

/-! ### depth-first -/

/-- the state machine of `Sync.dfsProg` on the static lists; `none` = the step counter ran out -/
def dfsPure (adj : K → List (K × E)) (tgt : Option K) : Nat → List (K × Nat) → List K → Option (Option K)
  | 0, _, _ => none
  | _ + 1, [], _ => some none
  | m + 1, (u, pos) :: stack, vis =>
    match (adj u)[pos]? with
    | none => dfsPure adj tgt m stack vis
    | some (v, _) =>
      if vis.contains v then dfsPure adj tgt m ((u, pos + 1) :: stack) vis
      else if tgt = some v then some (some v)
      else dfsPure adj tgt m ((v, 0) :: (u, pos + 1) :: stack) (v :: vis)

theorem dfs_edges (c : Cfg K E) (hacc : ∀ u v e, c.acc u v e = true) (fuel : Nat) (u : K) (l : List (K × E)) (st : TSt K E) :
    ∀ (pos : Nat) (r : Bool × TSt K E), (c.adj u).drop pos = l → dfsEdges c fuel u l st = some r →
      ∃ n, ∀ k stack, dfsPure c.adj c.target (k + n) ((u, pos) :: stack) st.vis =
        if r.1 then some c.target else dfsPure c.adj c.target k stack r.2.vis := by
  fun_induction dfsEdges c fuel u l st
  case case1 =>
    intro pos r hl hr
    simp only [Option.some.injEq] at hr
    subst hr
    refine ⟨1, fun k stack => ?_⟩
    simp [dfsPure, drop_eq_nil_getElem? _ _ hl]
  case case2 => intro pos r hl hr; simp at hr
  case case3 fuel u v e rest st0 st h1 hv ih =>
    intro pos r hl hr
    obtain ⟨hx, hrest⟩ := drop_eq_cons_getElem? _ _ _ _ hl
    obtain ⟨n, hn⟩ := ih (pos + 1) r hrest hr
    refine ⟨n + 1, fun k stack => ?_⟩
    have hv' : v ∈ st0.vis := hv
    rw [← hn k stack, show k + (n + 1) = (k + n) + 1 from rfl]
    simp only [dfsPure, hx, List.contains_eq_mem, hv', decide_true, if_true]
    rfl
  case case4 fuel u v e rest st0 st1 h1 hv st ht =>
    intro pos r hl hr
    obtain ⟨hx, hrest⟩ := drop_eq_cons_getElem? _ _ _ _ hl
    simp only [Option.some.injEq] at hr
    subst hr
    have hv' : ¬ v ∈ st0.vis := hv
    refine ⟨1, fun k stack => ?_⟩
    simp [dfsPure, hx, hv', ht]
  case case5 => intro pos r hl hr; simp at hr
  case case6 fuel u v e rest st0 st1 h1 hv st ht st' hrec ih =>
    intro pos r hl hr
    obtain ⟨hx, hrest⟩ := drop_eq_cons_getElem? _ _ _ _ hl
    simp only [Option.some.injEq] at hr
    subst hr
    have hv' : ¬ v ∈ st0.vis := hv
    obtain ⟨n, hn⟩ := ih 0 _ (by simp) hrec
    refine ⟨n + 1, fun k stack => ?_⟩
    have := hn k ((u, pos + 1) :: stack)
    simp only [if_true] at this ⊢
    rw [← this, show k + (n + 1) = (k + n) + 1 from rfl]
    simp only [dfsPure, hx, List.contains_eq_mem, hv', decide_false, Bool.false_eq_true, if_false, ht]
    rfl
  case case7 fuel u v e rest st0 st1 h1 hv st ht st' hrec ih1 ih2 =>
    intro pos r hl hr
    obtain ⟨hx, hrest⟩ := drop_eq_cons_getElem? _ _ _ _ hl
    have hv' : ¬ v ∈ st0.vis := hv
    obtain ⟨n1, hn1⟩ := ih1 0 _ (by simp) hrec
    obtain ⟨n2, hn2⟩ := ih2 (pos + 1) r hrest hr
    refine ⟨n2 + n1 + 1, fun k stack => ?_⟩
    have := hn1 (k + n2) ((u, pos + 1) :: stack)
    simp only [Bool.false_eq_true, if_false, hn2] at this
    rw [← this, show k + (n2 + n1 + 1) = (k + n2 + n1) + 1 by omega]
    simp only [dfsPure, hx, List.contains_eq_mem, hv', decide_false, Bool.false_eq_true, if_false, ht]
    rfl
  case case8 h1 _ =>
    exact absurd (hacc _ _ _) h1

theorem dfs_run (sel : Adj K E → List (K × E)) (tgt : Option K) (s : Store K E) (m : Nat) :
    ∀ (stack : List (K × Nat)) (vis : List K) (r : Option K),
      dfsPure (fun k => sel (s.get k)) tgt m stack vis = some r →
      ∃ us, ∀ f2 f1 tr, m ≤ f2 → 3 * m + 1 ≤ f1 →
        runSingle f1 (Sync.dfsProg sel tgt f2 stack vis) s [] tr = some (s, r, tr ++ us) := by
  induction m with
  | zero => intro stack vis r h; simp [dfsPure] at h
  | succ m ih =>
    intro stack vis r h
    match stack with
    | [] =>
      simp only [dfsPure, Option.some.injEq] at h
      subst h
      refine ⟨[], fun f2 f1 tr h2 h1 => ?_⟩
      obtain ⟨f2, rfl⟩ : ∃ k, f2 = k + 1 := ⟨f2 - 1, by omega⟩
      obtain ⟨f1, rfl⟩ : ∃ k, f1 = k + 1 := ⟨f1 - 1, by omega⟩
      simp [Sync.dfsProg, runSingle]
    | (u, pos) :: stack =>
      simp only [dfsPure] at h
      cases hx : (sel (s.get u))[pos]? with
      | none =>
        rw [hx] at h
        obtain ⟨us, hus⟩ := ih _ _ _ h
        refine ⟨(.node u, .r, 0) :: us, fun f2 f1 tr h2 h1 => ?_⟩
        obtain ⟨f2, rfl⟩ : ∃ k, f2 = k + 1 := ⟨f2 - 1, by omega⟩
        obtain ⟨f1, rfl⟩ : ∃ k, f1 = k + 3 := ⟨f1 - 3, by omega⟩
        simp only [Sync.dfsProg, runSingle_iterNext_bind, hx]
        rw [hus f2 f1 _ (by omega) (by omega)]
        simp
      | some x =>
        obtain ⟨v, e⟩ := x
        rw [hx] at h
        simp only at h
        by_cases hv : vis.contains v = true
        · simp only [hv, if_true] at h
          obtain ⟨us, hus⟩ := ih _ _ _ h
          refine ⟨(.node u, .r, 0) :: us, fun f2 f1 tr h2 h1 => ?_⟩
          obtain ⟨f2, rfl⟩ : ∃ k, f2 = k + 1 := ⟨f2 - 1, by omega⟩
          obtain ⟨f1, rfl⟩ : ∃ k, f1 = k + 3 := ⟨f1 - 3, by omega⟩
          simp only [Sync.dfsProg, runSingle_iterNext_bind, hx, hv, if_true]
          rw [hus f2 f1 _ (by omega) (by omega)]
          simp
        · simp only [hv, Bool.false_eq_true, if_false] at h
          by_cases ht : tgt = some v
          · simp only [ht, if_true, Option.some.injEq] at h
            subst h
            refine ⟨[(.node u, .r, 0)], fun f2 f1 tr h2 h1 => ?_⟩
            obtain ⟨f2, rfl⟩ : ∃ k, f2 = k + 1 := ⟨f2 - 1, by omega⟩
            obtain ⟨f1, rfl⟩ : ∃ k, f1 = k + 1 + 3 := ⟨f1 - 4, by omega⟩
            simp only [Sync.dfsProg, runSingle_iterNext_bind, hx, hv, ht, if_true, Bool.false_eq_true, if_false, runSingle]
          · simp only [ht, if_false] at h
            obtain ⟨us, hus⟩ := ih _ _ _ h
            refine ⟨(.node u, .r, 0) :: us, fun f2 f1 tr h2 h1 => ?_⟩
            obtain ⟨f2, rfl⟩ : ∃ k, f2 = k + 1 := ⟨f2 - 1, by omega⟩
            obtain ⟨f1, rfl⟩ : ∃ k, f1 = k + 3 := ⟨f1 - 3, by omega⟩
            simp only [Sync.dfsProg, runSingle_iterNext_bind, hx, hv, ht, if_false, Bool.false_eq_true]
            rw [hus f2 f1 _ (by omega) (by omega)]
            simp

theorem Sync.dfs_alone_refines' (sel : Adj K E → List (K × E)) (s : Store K E) (root : K) (tgt : Option K) (fuel : Nat)
    (res : Option K) (run : Run K E)
    (h : searchNode (fun k => sel (s.get k)) (fun _ _ _ => true) (fun _ => 0) .dfs root tgt fuel = some (res, run)) :
    ∃ n tr, ∀ f1 f2, n ≤ f1 → n ≤ f2 →
      runSingle f1 (Sync.dfsProg sel tgt f2 [(root, 0)] [root]) s [] [] = some (s, res, tr) := by
  simp only [searchNode, runLoop, Bool.false_eq_true, if_false, Option.map_map, Option.map_eq_some_iff] at h
  obtain ⟨⟨b, st'⟩, hl, hr⟩ := h
  simp only [Function.comp, Prod.mk.injEq] at hr
  obtain ⟨n, hn⟩ := dfs_edges { adj := fun k => sel (s.get k), acc := fun _ _ _ => true, target := tgt } (fun _ _ _ => rfl)
    fuel root _ _ 0 _ (by simp) hl
  have h0 := hn 1 []
  simp only [dfsPure] at h0
  have h1 : dfsPure (fun k => sel (s.get k)) tgt (1 + n) [(root, 0)] [root] = some (if b then tgt else none) := by
    rw [h0]; cases b <;> simp
  obtain ⟨us, hus⟩ := dfs_run sel tgt s (1 + n) _ _ _ h1
  refine ⟨3 * (1 + n) + 1, us, fun f1 f2 h1 h2 => ?_⟩
  rw [hus f2 f1 [] (by omega) h1, ← hr.1]
  simp

/-! ### preorder -/

/-- the state machine of `Sync.preProg` on the static lists; `none` = the step counter ran out -/
def prePure (adj : K → List (K × E)) : Nat → List (K × Nat) → List K → List K → Option (List K)
  | 0, _, _, _ => none
  | _ + 1, [], _, acc => some acc
  | m + 1, (u, pos) :: stack, vis, acc =>
    match (adj u)[pos]? with
    | none => prePure adj m stack vis acc
    | some (v, _) =>
      if vis.contains v then prePure adj m ((u, pos + 1) :: stack) vis acc
      else prePure adj m ((v, 0) :: (u, pos + 1) :: stack) (v :: vis) (acc ++ [v])

theorem pre_edges (c : Cfg K E) (hacc : ∀ u v e, c.acc u v e = true) (fuel : Nat) (u : K) (l : List (K × E)) (st : TSt K E) :
    ∀ (pos : Nat) (r : TSt K E), (c.adj u).drop pos = l → preEdges c fuel u l st = some r →
      ∃ n, ∀ k stack a, prePure c.adj (k + n) ((u, pos) :: stack) st.vis (a ++ st.tree.map (·.2.1)) =
        prePure c.adj k stack r.vis (a ++ r.tree.map (·.2.1)) := by
  fun_induction preEdges c fuel u l st
  case case1 =>
    intro pos r hl hr
    simp only [Option.some.injEq] at hr
    subst hr
    refine ⟨1, fun k stack a => ?_⟩
    simp [prePure, drop_eq_nil_getElem? _ _ hl]
  case case2 => intro pos r hl hr; simp at hr
  case case3 fuel u v e rest st0 st h1 hv ih =>
    intro pos r hl hr
    obtain ⟨hx, hrest⟩ := drop_eq_cons_getElem? _ _ _ _ hl
    obtain ⟨n, hn⟩ := ih (pos + 1) r hrest hr
    refine ⟨n + 1, fun k stack a => ?_⟩
    have hv' : v ∈ st0.vis := hv
    rw [← hn k stack a, show k + (n + 1) = (k + n) + 1 from rfl]
    simp only [prePure, hx, List.contains_eq_mem, hv', decide_true, if_true]
    rfl
  case case4 => intro pos r hl hr; simp at hr
  case case5 fuel u v e rest st0 st1 h1 hv st st' hrec ih1 ih2 =>
    intro pos r hl hr
    obtain ⟨hx, hrest⟩ := drop_eq_cons_getElem? _ _ _ _ hl
    have hv' : ¬ v ∈ st0.vis := hv
    obtain ⟨n1, hn1⟩ := ih1 0 _ (by simp) hrec
    obtain ⟨n2, hn2⟩ := ih2 (pos + 1) r hrest hr
    refine ⟨n2 + n1 + 1, fun k stack a => ?_⟩
    have := hn1 (k + n2) ((u, pos + 1) :: stack) a
    rw [hn2] at this
    rw [← this, show k + (n2 + n1 + 1) = (k + n2 + n1) + 1 by omega]
    simp only [prePure, hx, List.contains_eq_mem, hv', decide_false, Bool.false_eq_true, if_false]
    have e1 : a ++ st.tree.map (·.2.1) = a ++ st0.tree.map (·.2.1) ++ [v] := by
      show a ++ (st0.tree ++ [(u, v, e)]).map (·.2.1) = _
      simp
    rw [e1]
  case case6 h1 _ =>
    exact absurd (hacc _ _ _) h1

theorem pre_run (sel : Adj K E → List (K × E)) (s : Store K E) (m : Nat) :
    ∀ (stack : List (K × Nat)) (vis acc : List K) (r : List K),
      prePure (fun k => sel (s.get k)) m stack vis acc = some r →
      ∃ us, ∀ f2 f1 tr, m ≤ f2 → 3 * m + 1 ≤ f1 →
        runSingle f1 (Sync.preProg sel f2 stack vis acc) s [] tr = some (s, r, tr ++ us) := by
  induction m with
  | zero => intro stack vis acc r h; simp [prePure] at h
  | succ m ih =>
    intro stack vis acc r h
    match stack with
    | [] =>
      simp only [prePure, Option.some.injEq] at h
      subst h
      refine ⟨[], fun f2 f1 tr h2 h1 => ?_⟩
      obtain ⟨f2, rfl⟩ : ∃ k, f2 = k + 1 := ⟨f2 - 1, by omega⟩
      obtain ⟨f1, rfl⟩ : ∃ k, f1 = k + 1 := ⟨f1 - 1, by omega⟩
      simp [Sync.preProg, runSingle]
    | (u, pos) :: stack =>
      simp only [prePure] at h
      cases hx : (sel (s.get u))[pos]? with
      | none =>
        rw [hx] at h
        obtain ⟨us, hus⟩ := ih _ _ _ _ h
        refine ⟨(.node u, .r, 0) :: us, fun f2 f1 tr h2 h1 => ?_⟩
        obtain ⟨f2, rfl⟩ : ∃ k, f2 = k + 1 := ⟨f2 - 1, by omega⟩
        obtain ⟨f1, rfl⟩ : ∃ k, f1 = k + 3 := ⟨f1 - 3, by omega⟩
        simp only [Sync.preProg, runSingle_iterNext_bind, hx]
        rw [hus f2 f1 _ (by omega) (by omega)]
        simp
      | some x =>
        obtain ⟨v, e⟩ := x
        rw [hx] at h
        simp only at h
        by_cases hv : vis.contains v = true
        · simp only [hv, if_true] at h
          obtain ⟨us, hus⟩ := ih _ _ _ _ h
          refine ⟨(.node u, .r, 0) :: us, fun f2 f1 tr h2 h1 => ?_⟩
          obtain ⟨f2, rfl⟩ : ∃ k, f2 = k + 1 := ⟨f2 - 1, by omega⟩
          obtain ⟨f1, rfl⟩ : ∃ k, f1 = k + 3 := ⟨f1 - 3, by omega⟩
          simp only [Sync.preProg, runSingle_iterNext_bind, hx, hv, if_true]
          rw [hus f2 f1 _ (by omega) (by omega)]
          simp
        · simp only [hv, Bool.false_eq_true, if_false] at h
          obtain ⟨us, hus⟩ := ih _ _ _ _ h
          refine ⟨(.node u, .r, 0) :: us, fun f2 f1 tr h2 h1 => ?_⟩
          obtain ⟨f2, rfl⟩ : ∃ k, f2 = k + 1 := ⟨f2 - 1, by omega⟩
          obtain ⟨f1, rfl⟩ : ∃ k, f1 = k + 3 := ⟨f1 - 3, by omega⟩
          simp only [Sync.preProg, runSingle_iterNext_bind, hx, hv, if_false, Bool.false_eq_true]
          rw [hus f2 f1 _ (by omega) (by omega)]
          simp

theorem Sync.pre_alone_refines' (sel : Adj K E → List (K × E)) (s : Store K E) (root : K) (fuel : Nat)
    (ns : List K) (ts : TSt K E)
    (h : orderNodes (fun k => sel (s.get k)) (fun _ _ _ => true) false root fuel = some (ns, ts)) :
    ∃ n tr, ∀ f1 f2, n ≤ f1 → n ≤ f2 →
      runSingle f1 (Sync.preProg sel f2 [(root, 0)] [root] [root]) s [] [] = some (s, ns, tr) := by
  simp only [orderNodes, orderEdges, Bool.false_eq_true, if_false, Option.map_eq_some_iff, Prod.mk.injEq] at h
  obtain ⟨st', hl, hr, -⟩ := h
  obtain ⟨n, hn⟩ := pre_edges { adj := fun k => sel (s.get k), acc := fun _ _ _ => true, target := none } (fun _ _ _ => rfl)
    fuel root _ _ 0 _ (by simp) hl
  have h0 := hn 1 [] [root]
  simp only [prePure, List.map_nil, List.append_nil, List.singleton_append, hr] at h0
  obtain ⟨us, hus⟩ := pre_run sel s (1 + n) _ _ _ _ h0
  refine ⟨3 * (1 + n) + 1, us, fun f1 f2 h1 h2 => ?_⟩
  rw [hus f2 f1 [] (by omega) h1]
  simp

end G

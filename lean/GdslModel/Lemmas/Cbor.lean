import GdslModel.Model.Cbor
import GdslModel.Lemmas.Json
/-!
# The CBOR reader and writer of `Model/Cbor.lean` (C12, C13)

The reader consumes exactly what the writer wrote and returns the rest (`read*_p*`), a proper prefix of what the
writer wrote is an error in every reader (`read*_cut`), and whatever the reader accepts is in range (`*_ok`).
-/
namespace G
namespace Cbor

/-! ## big-endian bytes -/

theorem beVal_snoc (l : List Nat) (b : Nat) : beVal (l ++ [b]) = beVal l * 256 + b := by
  unfold beVal
  rw [List.foldl_append]
  rfl

theorem beBytes_length (w n : Nat) : (beBytes w n).length = w := by
  induction w generalizing n with
  | zero => rfl
  | succ w ih => simp only [beBytes, List.length_append, ih, List.length_cons, List.length_nil]

theorem beVal_beBytes (w n : Nat) (h : n < 256 ^ w) : beVal (beBytes w n) = n := by
  induction w generalizing n with
  | zero =>
    simp only [Nat.pow_zero] at h
    have : n = 0 := by omega
    subst this
    rfl
  | succ w ih =>
    rw [beBytes, beVal_snoc, ih (n / 256) (by rw [Nat.pow_succ] at h; omega)]
    omega

/-! ## proper prefixes -/

/-- `t` is a proper prefix of `w` -/
def Cut (w t : List Nat) : Prop := ∃ u, u ≠ [] ∧ w = t ++ u

theorem cut_nil (t : List Nat) : ¬ Cut [] t := by
  rintro ⟨u, hu, h⟩
  have := congrArg List.length h
  simp only [List.length_nil, List.length_append] at this
  cases u with
  | nil => exact hu rfl
  | cons a u => simp only [List.length_cons] at this; omega

theorem cut_append (a b t : List Nat) (h : Cut (a ++ b) t) : Cut a t ∨ ∃ t', t = a ++ t' ∧ Cut b t' := by
  obtain ⟨u, hu, h⟩ := h
  rcases List.append_eq_append_iff.mp h with ⟨a', h1, h2⟩ | ⟨c', h1, h2⟩
  · exact Or.inr ⟨a', h1, u, hu, h2⟩
  · cases c' with
    | nil =>
      simp only [List.append_nil, List.nil_append] at h1 h2
      exact Or.inr ⟨[], by simp only [h1, List.append_nil], u, hu, by simp only [h2, List.nil_append]⟩
    | cons c cs => exact Or.inl ⟨c :: cs, by simp, h1⟩

theorem cut_cons (a : Nat) (w t : List Nat) (h : Cut (a :: w) t) : t = [] ∨ ∃ t', t = a :: t' ∧ Cut w t' := by
  obtain ⟨u, hu, h⟩ := h
  cases t with
  | nil => exact Or.inl rfl
  | cons b t =>
    simp only [List.cons_append, List.cons.injEq] at h
    exact Or.inr ⟨t, by rw [h.1], u, hu, h.2⟩

theorem cut_take (w : List Nat) (n : Nat) (h : n < w.length) : Cut w (w.take n) := by
  refine ⟨w.drop n, ?_, (List.take_append_drop n w).symm⟩
  intro h0
  have := congrArg List.length h0
  simp only [List.length_drop, List.length_nil] at this
  omega

/-! ## item heads -/

/-- what the readers need to know about a head the writer wrote -/
theorem pHead_shape (m n : Nat) (hn : n < 2 ^ 64) :
    ∃ ai tl, pHead m n = (m + ai) :: tl ∧ ai < 28 ∧ (∀ rest, readArg ai (tl ++ rest) = some (n, rest)) ∧
      (∀ t, Cut tl t → readArg ai t = none) := by
  unfold pHead
  split
  · rename_i h
    refine ⟨n, [], rfl, by omega, ?_, ?_⟩
    · intro rest; simp only [readArg, h, if_true, List.nil_append]
    · intro t ht; exact absurd ht (cut_nil t)
  · have key : ∀ ai w, 24 ≤ ai → ai < 28 → 0 < w →
        w = (if ai = 24 then 1 else if ai = 25 then 2 else if ai = 26 then 4 else if ai = 27 then 8 else 0) →
        n < 256 ^ w →
        (∀ rest, readArg ai (beBytes w n ++ rest) = some (n, rest)) ∧
          (∀ t, Cut (beBytes w n) t → readArg ai t = none) := by
      intro ai w h1 h2 hw hwe hlt
      constructor
      · intro rest
        unfold readArg
        rw [if_neg (by omega)]
        simp only [← hwe]
        rw [if_neg (by omega), if_neg (by simp only [List.length_append, beBytes_length]; omega)]
        have hl := beBytes_length w n
        rw [List.take_left' hl, List.drop_left' hl, beVal_beBytes w n hlt]
      · intro t ⟨u, hu, ht⟩
        unfold readArg
        rw [if_neg (by omega)]
        simp only [← hwe]
        rw [if_neg (by omega)]
        have := congrArg List.length ht
        simp only [beBytes_length, List.length_append] at this
        have : 0 < u.length := by
          cases u with
          | nil => exact absurd rfl hu
          | cons a u => simp only [List.length_cons]; omega
        rw [if_pos (by omega)]
    split
    · obtain ⟨k1, k2⟩ := key 24 1 (by omega) (by omega) (by omega) (by simp) (by omega)
      exact ⟨24, _, rfl, by omega, k1, k2⟩
    · split
      · obtain ⟨k1, k2⟩ := key 25 2 (by omega) (by omega) (by omega) (by simp) (by omega)
        exact ⟨25, _, rfl, by omega, k1, k2⟩
      · split
        · obtain ⟨k1, k2⟩ := key 26 4 (by omega) (by omega) (by omega) (by simp) (by omega)
          exact ⟨26, _, rfl, by omega, k1, k2⟩
        · obtain ⟨k1, k2⟩ := key 27 8 (by omega) (by omega) (by omega) (by simp) (by omega)
          exact ⟨27, _, rfl, by omega, k1, k2⟩

/-! ## tags, integers, array heads -/

/- `skipTags` is unfolded by hand: its equation lemmas cannot be generated (their proof evaluates `b - 0xc0` on a variable
   in unary). -/
theorem skipTags_plain (fuel d b : Nat) (rest : List Nat) (hb : b < 0xc0) :
    skipTags (fuel + 1) d (b :: rest) = some (d, b :: rest) := by
  delta skipTags
  have := Nat.brecOn.eq (motive := fun _ => Nat → List Nat → Option (Nat × List Nat)) (fuel + 1) skipTags._f
  rw [this]
  delta skipTags._f
  dsimp only
  rw [if_neg]
  simp only [Bool.and_eq_true, decide_eq_true_eq]
  omega

theorem skipTags_nil (fuel d : Nat) : skipTags fuel d [] = none := by
  delta skipTags
  have := Nat.brecOn.eq (motive := fun _ => Nat → List Nat → Option (Nat × List Nat)) fuel skipTags._f
  rw [this]
  delta skipTags._f
  cases fuel <;> rfl

theorem readInt_cons (d b : Nat) (rest : List Nat) (hb : b < 0xc0) :
    readInt d (b :: rest) =
      if b < 0x20 then (readArg b rest).map fun (v, r) => ((v : Int), r)
      else if b < 0x40 then (readArg (b - 0x20) rest).map fun (v, r) => (-1 - (v : Int), r)
      else none := by
  unfold readInt
  rw [List.length_cons, skipTags_plain _ d b rest hb]

theorem readInt_nil (d : Nat) : readInt d [] = none := by
  unfold readInt
  rw [skipTags_nil]

theorem readArrayHead_cons (d b : Nat) (rest : List Nat) (hb : b < 0xc0) :
    readArrayHead d (b :: rest) =
      if d ≤ 1 then none
      else if b = 0x9f then some (none, d - 1, rest)
      else if 0x80 ≤ b && b ≤ 0x9b then (readArg (b - 0x80) rest).map fun (n, r) => (some n, d - 1, r)
      else none := by
  unfold readArrayHead
  rw [List.length_cons, skipTags_plain _ d b rest hb]

theorem readArrayHead_nil (d : Nat) : readArrayHead d [] = none := by
  unfold readArrayHead
  rw [skipTags_nil]

/-- a non-negative integer -/
theorem readInt_pNat (d n : Nat) (hn : n < 2 ^ 64) (rest : List Nat) :
    readInt d (pHead 0x00 n ++ rest) = some ((n : Int), rest) := by
  obtain ⟨ai, tl, he, hai, hr, _⟩ := pHead_shape 0x00 n hn
  rw [he, List.cons_append, readInt_cons _ _ _ (by omega), if_pos (by omega), Nat.zero_add, hr]
  rfl

theorem readInt_pInt (d : Nat) (v : Int) (h1 : -(2 ^ 64 : Int) ≤ v) (h2 : v < 2 ^ 64) (rest : List Nat) :
    readInt d (pInt v ++ rest) = some (v, rest) := by
  cases v with
  | ofNat n =>
    simp only [Int.ofNat_eq_natCast] at h2
    exact readInt_pNat d n (by omega) rest
  | negSucc n =>
    show readInt d (pHead 0x20 n ++ rest) = _
    obtain ⟨ai, tl, he, hai, hr, _⟩ := pHead_shape 0x20 n (by omega)
    rw [he, List.cons_append, readInt_cons _ _ _ (by omega), if_neg (by omega), if_pos (by omega),
      show 0x20 + ai - 0x20 = ai by omega, hr]
    simp only [Option.map_some, Option.some.injEq, Prod.mk.injEq, and_true]
    omega

theorem readInt_cut_head (d m n : Nat) (hm : m = 0x00 ∨ m = 0x20) (hn : n < 2 ^ 64) (t : List Nat)
    (ht : Cut (pHead m n) t) : readInt d t = none := by
  obtain ⟨ai, tl, he, hai, _, hc⟩ := pHead_shape m n hn
  rw [he] at ht
  rcases cut_cons _ _ _ ht with rfl | ⟨t', rfl, ht'⟩
  · exact readInt_nil d
  · rw [readInt_cons _ _ _ (by omega)]
    rcases hm with rfl | rfl
    · rw [if_pos (by omega), Nat.zero_add, hc t' ht']; rfl
    · rw [if_neg (by omega), if_pos (by omega), show 0x20 + ai - 0x20 = ai by omega, hc t' ht']; rfl

theorem readInt_cut (d : Nat) (v : Int) (h1 : -(2 ^ 64 : Int) ≤ v) (h2 : v < 2 ^ 64) (t : List Nat)
    (ht : Cut (pInt v) t) : readInt d t = none := by
  cases v with
  | ofNat n =>
    simp only [Int.ofNat_eq_natCast] at h2
    exact readInt_cut_head d 0x00 n (Or.inl rfl) (by omega) t ht
  | negSucc n => exact readInt_cut_head d 0x20 n (Or.inr rfl) (by omega) t ht

theorem readArrayHead_pHead (d n : Nat) (hd : 2 ≤ d) (hn : n < 2 ^ 64) (rest : List Nat) :
    readArrayHead d (pHead 0x80 n ++ rest) = some (some n, d - 1, rest) := by
  obtain ⟨ai, tl, he, hai, hr, _⟩ := pHead_shape 0x80 n hn
  rw [he, List.cons_append, readArrayHead_cons _ _ _ (by omega), if_neg (by omega), if_neg (by omega),
    if_pos (by simp only [Bool.and_eq_true, decide_eq_true_eq]; omega), show 0x80 + ai - 0x80 = ai by omega, hr]
  rfl

theorem readArrayHead_cut (d n : Nat) (hn : n < 2 ^ 64) (t : List Nat) (ht : Cut (pHead 0x80 n) t) :
    readArrayHead d t = none := by
  obtain ⟨ai, tl, he, hai, _, hc⟩ := pHead_shape 0x80 n hn
  rw [he] at ht
  rcases cut_cons _ _ _ ht with rfl | ⟨t', rfl, ht'⟩
  · exact readArrayHead_nil d
  · rw [readArrayHead_cons _ _ _ (by omega)]
    split
    · rfl
    · rw [if_neg (by omega), if_pos (by simp only [Bool.and_eq_true, decide_eq_true_eq]; omega),
        show 0x80 + ai - 0x80 = ai by omega, hc t' ht']
      rfl

/-! ## nodes and edges -/

def NodeOk (p : Nat × Int) : Prop := p.1 < 2 ^ 64 ∧ -(2 ^ 63 : Int) ≤ p.2 ∧ p.2 < 2 ^ 63
def EdgeOk (p : Nat × Nat × Nat) : Prop := p.1 < 2 ^ 64 ∧ p.2.1 < 2 ^ 64 ∧ p.2.2 < 2 ^ 32

theorem inRange_iff (d : Doc) : Json.InRange d ↔ (∀ p ∈ d.1, NodeOk p) ∧ (∀ p ∈ d.2, EdgeOk p) := Iff.rfl

theorem inU64_nat (n : Nat) (h : n < 2 ^ 64) : inU64 (n : Int) = some n := by
  unfold inU64
  rw [if_pos]
  · simp only [Int.toNat_natCast]
  · simp only [Bool.and_eq_true, decide_eq_true_eq]; omega

theorem inU32_nat (n : Nat) (h : n < 2 ^ 32) : inU32 (n : Int) = some n := by
  unfold inU32
  rw [if_pos]
  · simp only [Int.toNat_natCast]
  · simp only [Bool.and_eq_true, decide_eq_true_eq]; omega

theorem inI64_ok (v : Int) (h1 : -(2 ^ 63 : Int) ≤ v) (h2 : v < 2 ^ 63) : inI64 v = some v := by
  unfold inI64
  rw [if_pos]
  simp only [Bool.and_eq_true, decide_eq_true_eq]; omega

theorem inU64_some (v : Int) (k : Nat) (h : inU64 v = some k) : k < 2 ^ 64 := by
  unfold inU64 at h
  split at h
  · rename_i hc
    simp only [Bool.and_eq_true, decide_eq_true_eq] at hc
    simp only [Option.some.injEq] at h
    omega
  · cases h

theorem inU32_some (v : Int) (k : Nat) (h : inU32 v = some k) : k < 2 ^ 32 := by
  unfold inU32 at h
  split at h
  · rename_i hc
    simp only [Bool.and_eq_true, decide_eq_true_eq] at hc
    simp only [Option.some.injEq] at h
    omega
  · cases h

theorem inI64_some (v w : Int) (h : inI64 v = some w) : -(2 ^ 63 : Int) ≤ w ∧ w < 2 ^ 63 := by
  unfold inI64 at h
  split at h
  · rename_i hc
    simp only [Bool.and_eq_true, decide_eq_true_eq] at hc
    simp only [Option.some.injEq] at h
    omega
  · cases h

theorem hasNext_succ (n : Nat) (r : List Nat) : hasNext (some (n + 1)) r = some true := by
  simp only [hasNext, Nat.zero_lt_succ, decide_true]

theorem hasNext_zero (r : List Nat) : hasNext (some 0) r = some false := by
  simp only [hasNext, Nat.lt_irrefl, decide_false]

/- The tuple readers are taken apart on variables only: with the writer's output in place the kernel would evaluate
   `inU64 ↑n` (a subtraction of `2 ^ 64` in unary) when it checks a reduced `match`. -/
theorem readNode_eq (d : Nat) (bs : List Nat) (left : Option Nat) (d' : Nat) (r0 : List Nat) (k : Int) (r1 : List Nat)
    (k' : Nat) (v : Int) (r2 : List Nat) (v' : Int)
    (h1 : readArrayHead d bs = some (left, d', r0)) (h2 : hasNext left r0 = some true)
    (h3 : readInt d' r0 = some (k, r1)) (h4 : inU64 k = some k') (h5 : hasNext (decLeft left) r1 = some true)
    (h6 : readInt d' r1 = some (v, r2)) (h7 : inI64 v = some v') :
    readNode d bs = (closeArray (decLeft (decLeft left)) r2).map fun r => ((k', v'), r) := by
  simp only [readNode, h1, h2, h3, h4, h5, h6, h7]

theorem readNode_none0 (d : Nat) (bs : List Nat) (h1 : readArrayHead d bs = none) : readNode d bs = none := by
  simp only [readNode, h1]

theorem readNode_none1 (d : Nat) (bs : List Nat) (left : Option Nat) (d' : Nat) (r0 : List Nat)
    (h1 : readArrayHead d bs = some (left, d', r0)) (h2 : hasNext left r0 = some true)
    (h3 : readInt d' r0 = none) : readNode d bs = none := by
  simp only [readNode, h1, h2, h3]

theorem readNode_none2 (d : Nat) (bs : List Nat) (left : Option Nat) (d' : Nat) (r0 : List Nat) (k : Int) (r1 : List Nat)
    (k' : Nat)
    (h1 : readArrayHead d bs = some (left, d', r0)) (h2 : hasNext left r0 = some true)
    (h3 : readInt d' r0 = some (k, r1)) (h4 : inU64 k = some k') (h5 : hasNext (decLeft left) r1 = some true)
    (h6 : readInt d' r1 = none) : readNode d bs = none := by
  simp only [readNode, h1, h2, h3, h4, h5, h6]

theorem readEdge_eq (d : Nat) (bs : List Nat) (left : Option Nat) (d' : Nat) (r0 : List Nat) (u : Int) (r1 : List Nat)
    (u' : Nat) (v : Int) (r2 : List Nat) (v' : Nat) (e : Int) (r3 : List Nat) (e' : Nat)
    (h1 : readArrayHead d bs = some (left, d', r0)) (h2 : hasNext left r0 = some true)
    (h3 : readInt d' r0 = some (u, r1)) (h4 : inU64 u = some u') (h5 : hasNext (decLeft left) r1 = some true)
    (h6 : readInt d' r1 = some (v, r2)) (h7 : inU64 v = some v')
    (h8 : hasNext (decLeft (decLeft left)) r2 = some true)
    (h9 : readInt d' r2 = some (e, r3)) (h10 : inU32 e = some e') :
    readEdge d bs = (closeArray (decLeft (decLeft (decLeft left))) r3).map fun r => ((u', v', e'), r) := by
  simp only [readEdge, h1, h2, h3, h4, h5, h6, h7, h8, h9, h10]

theorem readEdge_none0 (d : Nat) (bs : List Nat) (h1 : readArrayHead d bs = none) : readEdge d bs = none := by
  simp only [readEdge, h1]

theorem readEdge_none1 (d : Nat) (bs : List Nat) (left : Option Nat) (d' : Nat) (r0 : List Nat)
    (h1 : readArrayHead d bs = some (left, d', r0)) (h2 : hasNext left r0 = some true)
    (h3 : readInt d' r0 = none) : readEdge d bs = none := by
  simp only [readEdge, h1, h2, h3]

theorem readEdge_none2 (d : Nat) (bs : List Nat) (left : Option Nat) (d' : Nat) (r0 : List Nat) (u : Int) (r1 : List Nat)
    (u' : Nat)
    (h1 : readArrayHead d bs = some (left, d', r0)) (h2 : hasNext left r0 = some true)
    (h3 : readInt d' r0 = some (u, r1)) (h4 : inU64 u = some u') (h5 : hasNext (decLeft left) r1 = some true)
    (h6 : readInt d' r1 = none) : readEdge d bs = none := by
  simp only [readEdge, h1, h2, h3, h4, h5, h6]

theorem readEdge_none3 (d : Nat) (bs : List Nat) (left : Option Nat) (d' : Nat) (r0 : List Nat) (u : Int) (r1 : List Nat)
    (u' : Nat) (v : Int) (r2 : List Nat) (v' : Nat)
    (h1 : readArrayHead d bs = some (left, d', r0)) (h2 : hasNext left r0 = some true)
    (h3 : readInt d' r0 = some (u, r1)) (h4 : inU64 u = some u') (h5 : hasNext (decLeft left) r1 = some true)
    (h6 : readInt d' r1 = some (v, r2)) (h7 : inU64 v = some v')
    (h8 : hasNext (decLeft (decLeft left)) r2 = some true)
    (h9 : readInt d' r2 = none) : readEdge d bs = none := by
  simp only [readEdge, h1, h2, h3, h4, h5, h6, h7, h8, h9]

theorem readNode_pNode (d : Nat) (p : Nat × Int) (hd : 2 ≤ d) (hp : NodeOk p) (rest : List Nat) :
    readNode d (pNode p ++ rest) = some (p, rest) := by
  obtain ⟨h1, h2, h3⟩ := hp
  unfold pNode
  rw [List.append_assoc, List.append_assoc]
  rw [readNode_eq d _ _ _ _ _ _ _ _ _ _ (readArrayHead_pHead d 2 hd (by omega) _) (hasNext_succ 1 _)
    (readInt_pNat _ _ h1 _) (inU64_nat _ h1) (hasNext_succ 0 _) (readInt_pInt _ _ (by omega) (by omega) _)
    (inI64_ok _ h2 h3)]
  rfl

theorem readEdge_pEdge (d : Nat) (p : Nat × Nat × Nat) (hd : 2 ≤ d) (hp : EdgeOk p) (rest : List Nat) :
    readEdge d (pEdge p ++ rest) = some (p, rest) := by
  obtain ⟨h1, h2, h3⟩ := hp
  unfold pEdge
  rw [List.append_assoc, List.append_assoc, List.append_assoc]
  rw [readEdge_eq d _ _ _ _ _ _ _ _ _ _ _ _ _ (readArrayHead_pHead d 3 hd (by omega) _) (hasNext_succ 2 _)
    (readInt_pNat _ _ h1 _) (inU64_nat _ h1) (hasNext_succ 1 _) (readInt_pNat _ _ h2 _) (inU64_nat _ h2)
    (hasNext_succ 0 _) (readInt_pNat _ _ (by omega) _) (inU32_nat _ h3)]
  rfl

theorem readNode_cut (d : Nat) (p : Nat × Int) (hd : 2 ≤ d) (hp : NodeOk p) (t : List Nat) (ht : Cut (pNode p) t) :
    readNode d t = none := by
  obtain ⟨h1, h2, h3⟩ := hp
  unfold pNode at ht
  rw [List.append_assoc] at ht
  rcases cut_append _ _ _ ht with hc | ⟨t0, rfl, ht0⟩
  · exact readNode_none0 d t (readArrayHead_cut d 2 (by omega) t hc)
  · have e1 := readArrayHead_pHead d 2 hd (by omega) t0
    rcases cut_append _ _ _ ht0 with hc | ⟨t1, rfl, ht1⟩
    · exact readNode_none1 d _ _ _ _ e1 (hasNext_succ 1 _) (readInt_cut_head _ 0x00 _ (Or.inl rfl) h1 t0 hc)
    · exact readNode_none2 d _ _ _ _ _ _ _ e1 (hasNext_succ 1 _) (readInt_pNat _ _ h1 _) (inU64_nat _ h1)
        (hasNext_succ 0 _) (readInt_cut _ _ (by omega) (by omega) t1 ht1)

theorem readEdge_cut (d : Nat) (p : Nat × Nat × Nat) (hd : 2 ≤ d) (hp : EdgeOk p) (t : List Nat) (ht : Cut (pEdge p) t) :
    readEdge d t = none := by
  obtain ⟨h1, h2, h3⟩ := hp
  unfold pEdge at ht
  rw [List.append_assoc, List.append_assoc] at ht
  rcases cut_append _ _ _ ht with hc | ⟨t0, rfl, ht0⟩
  · exact readEdge_none0 d t (readArrayHead_cut d 3 (by omega) t hc)
  · have e1 := readArrayHead_pHead d 3 hd (by omega) t0
    rcases cut_append _ _ _ ht0 with hc | ⟨t1, rfl, ht1⟩
    · exact readEdge_none1 d _ _ _ _ e1 (hasNext_succ 2 _) (readInt_cut_head _ 0x00 _ (Or.inl rfl) h1 t0 hc)
    · rcases cut_append _ _ _ ht1 with hc | ⟨t2, rfl, ht2⟩
      · exact readEdge_none2 d _ _ _ _ _ _ _ e1 (hasNext_succ 2 _) (readInt_pNat _ _ h1 _) (inU64_nat _ h1)
          (hasNext_succ 1 _) (readInt_cut_head _ 0x00 _ (Or.inl rfl) h2 t1 hc)
      · exact readEdge_none3 d _ _ _ _ _ _ _ _ _ _ e1 (hasNext_succ 2 _) (readInt_pNat _ _ h1 _) (inU64_nat _ h1)
          (hasNext_succ 1 _) (readInt_pNat _ _ h2 _) (inU64_nat _ h2) (hasNext_succ 0 _)
          (readInt_cut_head _ 0x00 _ (Or.inl rfl) (by omega) t2 ht2)

theorem readNode_ok (d : Nat) (bs : List Nat) (p : Nat × Int) (r : List Nat) (h : readNode d bs = some (p, r)) :
    NodeOk p := by
  unfold readNode at h
  split at h
  · cases h
  · split at h
    · split at h
      · cases h
      · split at h
        · rename_i hk _
          split at h
          · cases h
          · split at h
            · cases h
            · rename_i hv
              simp only [Option.map_eq_some_iff, Prod.mk.injEq] at h
              obtain ⟨r', _, rfl, _⟩ := h
              exact ⟨inU64_some _ _ hk, inI64_some _ _ hv⟩
        · cases h
    · cases h

theorem readEdge_ok (d : Nat) (bs : List Nat) (p : Nat × Nat × Nat) (r : List Nat) (h : readEdge d bs = some (p, r)) :
    EdgeOk p := by
  unfold readEdge at h
  split at h
  · cases h
  · split at h
    · split at h
      · cases h
      · split at h
        · rename_i hu _
          split at h
          · cases h
          · split at h
            · rename_i hv _
              split at h
              · cases h
              · split at h
                · cases h
                · rename_i he
                  simp only [Option.map_eq_some_iff, Prod.mk.injEq] at h
                  obtain ⟨r', _, rfl, _⟩ := h
                  exact ⟨inU64_some _ _ hu, inU64_some _ _ hv, inU32_some _ _ he⟩
            · cases h
        · cases h
    · cases h

/-! ## lists -/

theorem pHead_ne_nil (m n : Nat) : pHead m n ≠ [] := by
  unfold pHead
  repeat' split
  all_goals exact List.cons_ne_nil _ _

theorem pNode_ne_nil (p : Nat × Int) : pNode p ≠ [] := by
  unfold pNode
  intro h
  simp only [List.append_eq_nil_iff] at h
  exact pHead_ne_nil _ _ h.1.1

theorem pEdge_ne_nil (p : Nat × Nat × Nat) : pEdge p ≠ [] := by
  unfold pEdge
  intro h
  simp only [List.append_eq_nil_iff] at h
  exact pHead_ne_nil _ _ h.1.1.1

theorem flatten_length_ge {α : Type} (px : α → List Nat) (l : List α) (h : ∀ x, px x ≠ []) :
    l.length ≤ (l.map px).flatten.length := by
  induction l with
  | nil => exact Nat.le_refl _
  | cons x l ih =>
    simp only [List.map_cons, List.flatten_cons, List.length_append, List.length_cons]
    have : 0 < (px x).length := List.length_pos_iff.mpr (h x)
    omega

theorem readItems_succ {α : Type} (item : List Nat → Option (α × List Nat)) (fuel : Nat) (left : Option Nat)
    (bs : List Nat) :
    readItems item (fuel + 1) left bs =
      match hasNext left bs with
      | none => none
      | some false => (closeArray left bs).map fun r => ([], r)
      | some true =>
        match item bs with
        | none => none
        | some (x, r) => (readItems item fuel (decLeft left) r).map fun (xs, r') => (x :: xs, r') := by
  rw [readItems]
  rfl

theorem readItems_p {α : Type} (item : List Nat → Option (α × List Nat)) (px : α → List Nat) (l : List α)
    (hitem : ∀ x ∈ l, ∀ rest, item (px x ++ rest) = some (x, rest)) (fuel : Nat) (hf : l.length + 1 ≤ fuel)
    (rest : List Nat) :
    readItems item fuel (some l.length) ((l.map px).flatten ++ rest) = some (l, rest) := by
  induction l generalizing fuel with
  | nil =>
    obtain ⟨f, rfl⟩ : ∃ f, fuel = f + 1 := ⟨fuel - 1, by omega⟩
    rw [readItems_succ, List.length_nil, hasNext_zero]
    rfl
  | cons x l ih =>
    obtain ⟨f, rfl⟩ : ∃ f, fuel = f + 1 := ⟨fuel - 1, by omega⟩
    simp only [List.length_cons] at hf
    rw [readItems_succ, List.length_cons, hasNext_succ, List.map_cons, List.flatten_cons, List.append_assoc]
    dsimp only
    rw [hitem x List.mem_cons_self]
    dsimp only [decLeft]
    rw [Nat.add_sub_cancel, ih (fun y hy => hitem y (List.mem_cons_of_mem _ hy)) f (by omega)]
    rfl

theorem readItems_cut {α : Type} (item : List Nat → Option (α × List Nat)) (px : α → List Nat) (l : List α)
    (hitem : ∀ x ∈ l, ∀ rest, item (px x ++ rest) = some (x, rest))
    (hcut : ∀ x ∈ l, ∀ t, Cut (px x) t → item t = none) (fuel : Nat) (t : List Nat)
    (ht : Cut (l.map px).flatten t) :
    readItems item fuel (some l.length) t = none := by
  induction l generalizing fuel t with
  | nil => exact absurd ht (cut_nil t)
  | cons x l ih =>
    cases fuel with
    | zero => rw [readItems]
    | succ f =>
      rw [readItems_succ, List.length_cons, hasNext_succ]
      dsimp only
      rw [List.map_cons, List.flatten_cons] at ht
      rcases cut_append _ _ _ ht with hc | ⟨t', rfl, ht'⟩
      · rw [hcut x List.mem_cons_self t hc]
      · rw [hitem x List.mem_cons_self]
        dsimp only [decLeft]
        rw [Nat.add_sub_cancel, ih (fun y hy => hitem y (List.mem_cons_of_mem _ hy))
          (fun y hy => hcut y (List.mem_cons_of_mem _ hy)) f t' ht']
        rfl

theorem readItems_ok {α : Type} (item : List Nat → Option (α × List Nat)) (P : α → Prop)
    (hitem : ∀ bs x r, item bs = some (x, r) → P x) (fuel : Nat) (left : Option Nat) (bs : List Nat) (l : List α)
    (r : List Nat) (h : readItems item fuel left bs = some (l, r)) : ∀ x ∈ l, P x := by
  induction fuel generalizing left bs l r with
  | zero => rw [readItems] at h; cases h
  | succ f ih =>
    rw [readItems_succ] at h
    split at h
    · cases h
    · simp only [Option.map_eq_some_iff, Prod.mk.injEq] at h
      obtain ⟨_, _, rfl, _⟩ := h
      intro x hx; cases hx
    · split at h
      · cases h
      · rename_i hx
        simp only [Option.map_eq_some_iff, Prod.mk.injEq, Prod.exists] at h
        obtain ⟨xs, r', hrec, rfl, _⟩ := h
        intro y hy
        rcases List.mem_cons.mp hy with rfl | hy
        · exact hitem _ _ _ hx
        · exact ih _ _ _ _ hrec y hy

theorem readVec_eq {α : Type} (item : Nat → List Nat → Option (α × List Nat)) (d : Nat) (bs : List Nat)
    (left : Option Nat) (d' : Nat) (r0 : List Nat) (h : readArrayHead d bs = some (left, d', r0)) :
    readVec item d bs = readItems (item d') (r0.length + 1) left r0 := by
  simp only [readVec, h]

theorem readVec_none0 {α : Type} (item : Nat → List Nat → Option (α × List Nat)) (d : Nat) (bs : List Nat)
    (h : readArrayHead d bs = none) : readVec item d bs = none := by
  simp only [readVec, h]

theorem readVec_p {α : Type} (item : Nat → List Nat → Option (α × List Nat)) (px : α → List Nat) (d : Nat) (l : List α)
    (hd : 2 ≤ d) (hl : l.length < 2 ^ 64) (hne : ∀ x, px x ≠ [])
    (hitem : ∀ x ∈ l, ∀ rest, item (d - 1) (px x ++ rest) = some (x, rest)) (rest : List Nat) :
    readVec item d (pHead 0x80 l.length ++ (l.map px).flatten ++ rest) = some (l, rest) := by
  rw [List.append_assoc, readVec_eq item d _ _ _ _ (readArrayHead_pHead d _ hd hl _)]
  apply readItems_p _ px l hitem
  have := flatten_length_ge px l hne
  simp only [List.length_append]
  omega

theorem readVec_cut {α : Type} (item : Nat → List Nat → Option (α × List Nat)) (px : α → List Nat) (d : Nat) (l : List α)
    (hd : 2 ≤ d) (hl : l.length < 2 ^ 64)
    (hitem : ∀ x ∈ l, ∀ rest, item (d - 1) (px x ++ rest) = some (x, rest))
    (hcut : ∀ x ∈ l, ∀ t, Cut (px x) t → item (d - 1) t = none) (t : List Nat)
    (ht : Cut (pHead 0x80 l.length ++ (l.map px).flatten) t) :
    readVec item d t = none := by
  rcases cut_append _ _ _ ht with hc | ⟨t', rfl, ht'⟩
  · exact readVec_none0 item d t (readArrayHead_cut d _ hl t hc)
  · rw [readVec_eq item d _ _ _ _ (readArrayHead_pHead d _ hd hl _)]
    exact readItems_cut _ px l hitem hcut _ t' ht'

theorem readVec_ok {α : Type} (item : Nat → List Nat → Option (α × List Nat)) (P : α → Prop)
    (hitem : ∀ d bs x r, item d bs = some (x, r) → P x) (d : Nat) (bs : List Nat) (l : List α)
    (r : List Nat) (h : readVec item d bs = some (l, r)) : ∀ x ∈ l, P x := by
  unfold readVec at h
  split at h
  · cases h
  · exact readItems_ok _ P (hitem _) _ _ _ _ _ h

/-! ## documents -/

theorem parse_eq (bs : List Nat) (left : Option Nat) (d : Nat) (r0 : List Nat) (ns : List (Nat × Int)) (r1 : List Nat)
    (es : List (Nat × Nat × Nat)) (r2 : List Nat)
    (h1 : readArrayHead 128 bs = some (left, d, r0)) (h2 : hasNext left r0 = some true)
    (h3 : readVec readNode d r0 = some (ns, r1)) (h4 : hasNext (decLeft left) r1 = some true)
    (h5 : readVec readEdge d r1 = some (es, r2)) :
    parse bs = match closeArray (decLeft (decLeft left)) r2 with
      | some [] => some (ns, es)
      | _ => none := by
  simp only [parse, h1, h2, h3, h4, h5]
  rfl

theorem parse_none0 (bs : List Nat) (h1 : readArrayHead 128 bs = none) : parse bs = none := by
  simp only [parse, h1]

theorem parse_none1 (bs : List Nat) (left : Option Nat) (d : Nat) (r0 : List Nat)
    (h1 : readArrayHead 128 bs = some (left, d, r0)) (h2 : hasNext left r0 = some true)
    (h3 : readVec readNode d r0 = none) : parse bs = none := by
  simp only [parse, h1, h2, h3]

theorem parse_none2 (bs : List Nat) (left : Option Nat) (d : Nat) (r0 : List Nat) (ns : List (Nat × Int)) (r1 : List Nat)
    (h1 : readArrayHead 128 bs = some (left, d, r0)) (h2 : hasNext left r0 = some true)
    (h3 : readVec readNode d r0 = some (ns, r1)) (h4 : hasNext (decLeft left) r1 = some true)
    (h5 : readVec readEdge d r1 = none) : parse bs = none := by
  simp only [parse, h1, h2, h3, h4, h5]

theorem readNodes_p (ns : List (Nat × Int)) (hn : ∀ p ∈ ns, NodeOk p) (hl : ns.length < 2 ^ 64) (rest : List Nat) :
    readVec readNode 127 (pHead 0x80 ns.length ++ (ns.map pNode).flatten ++ rest) = some (ns, rest) :=
  readVec_p readNode pNode 127 ns (by omega) hl pNode_ne_nil
    (fun x hx rest => readNode_pNode _ x (by omega) (hn x hx) rest) rest

theorem readEdges_p (es : List (Nat × Nat × Nat)) (he : ∀ p ∈ es, EdgeOk p) (hl : es.length < 2 ^ 64) (rest : List Nat) :
    readVec readEdge 127 (pHead 0x80 es.length ++ (es.map pEdge).flatten ++ rest) = some (es, rest) :=
  readVec_p readEdge pEdge 127 es (by omega) hl pEdge_ne_nil
    (fun x hx rest => readEdge_pEdge _ x (by omega) (he x hx) rest) rest

/-- the reader consumes exactly what the writer wrote; anything after it is an error -/
theorem parse_print_append (d : Doc) (h : Json.InRange d) (hl : d.1.length < 2 ^ 64 ∧ d.2.length < 2 ^ 64)
    (rest : List Nat) :
    parse (print d ++ rest) = match rest with
      | [] => some d
      | _ => none := by
  obtain ⟨hn, he⟩ := (inRange_iff d).mp h
  unfold print
  rw [List.append_assoc, List.append_assoc]
  rw [parse_eq _ _ _ _ _ _ _ _ (readArrayHead_pHead 128 2 (by omega) (by omega) _) (hasNext_succ 1 _)
    (readNodes_p d.1 hn hl.1 _) (hasNext_succ 0 _) (readEdges_p d.2 he hl.2 rest)]
  cases rest <;> rfl

theorem parse_cut (d : Doc) (h : Json.InRange d) (hl : d.1.length < 2 ^ 64 ∧ d.2.length < 2 ^ 64) (t : List Nat)
    (ht : Cut (print d) t) : parse t = none := by
  obtain ⟨hn, he⟩ := (inRange_iff d).mp h
  unfold print at ht
  rw [List.append_assoc] at ht
  rcases cut_append _ _ _ ht with hc | ⟨t0, rfl, ht0⟩
  · exact parse_none0 t (readArrayHead_cut 128 2 (by omega) t hc)
  · have e1 := readArrayHead_pHead 128 2 (by omega) (by omega) t0
    rcases cut_append _ _ _ ht0 with hc | ⟨t1, rfl, ht1⟩
    · exact parse_none1 _ _ _ _ e1 (hasNext_succ 1 _)
        (readVec_cut readNode pNode 127 d.1 (by omega) hl.1
          (fun x hx rest => readNode_pNode _ x (by omega) (hn x hx) rest)
          (fun x hx t ht => readNode_cut _ x (by omega) (hn x hx) t ht) t0 hc)
    · exact parse_none2 _ _ _ _ _ _ e1 (hasNext_succ 1 _) (readNodes_p d.1 hn hl.1 _) (hasNext_succ 0 _)
        (readVec_cut readEdge pEdge 127 d.2 (by omega) hl.2
          (fun x hx rest => readEdge_pEdge _ x (by omega) (he x hx) rest)
          (fun x hx t ht => readEdge_cut _ x (by omega) (he x hx) t ht) t1 ht1)

theorem parse_ok (bs : List Nat) (d : Doc) (h : parse bs = some d) : Json.InRange d := by
  rw [inRange_iff]
  have hN := readVec_ok readNode NodeOk readNode_ok
  have hE := readVec_ok readEdge EdgeOk readEdge_ok
  unfold parse at h
  split at h
  · cases h
  · split at h
    · cases h
    · split at h
      · simp only [Option.some.injEq] at h
        subst h
        exact ⟨fun _ hp => (nomatch hp), fun _ hp => (nomatch hp)⟩
      · cases h
    · split at h
      · cases h
      · rename_i hns
        split at h
        · cases h
        · split at h
          · simp only [Option.some.injEq] at h
            subst h
            exact ⟨hN _ _ _ _ hns, fun _ hp => (nomatch hp)⟩
          · cases h
        · split at h
          · cases h
          · rename_i hes
            split at h
            · simp only [Option.some.injEq] at h
              subst h
              exact ⟨hN _ _ _ _ hns, hE _ _ _ _ hes⟩
            · cases h

end Cbor

/-! ## the statements used by `Props/C12.lean` and `Props/C13.lean` -/

theorem Cbor.parse_print' (d : Cbor.Doc) (h : Json.InRange d) (hl : d.1.length < 2 ^ 64 ∧ d.2.length < 2 ^ 64) :
    Cbor.parse (Cbor.print d) = some d := by
  have := Cbor.parse_print_append d h hl []
  rw [List.append_nil] at this
  exact this

theorem Cbor.roundtrip_bytes' (s : Store Nat Nat) (nval : Nat → Int) (π : List Nat) (hnd : π.Nodup)
    (hclosed : ∀ k ∈ π, ∀ p ∈ (s.get k).out, p.1 ∈ π) (hr : Json.InRange (decompose s nval π))
    (hl : (decompose s nval π).1.length < 2 ^ 64 ∧ (decompose s nval π).2.length < 2 ^ 64) :
    ∃ s', Cbor.deCbor (Cbor.serCbor s nval π) = some (π.map (fun k => (k, nval k)), s') ∧
      (∀ k ∈ π, (s'.get k).out = (s.get k).out) ∧ Mirror s' := by
  obtain ⟨s', h1, h2, h3⟩ := Serde.roundtrip' s nval π hnd hclosed
  refine ⟨s', ?_, h2, h3⟩
  unfold Cbor.deCbor Cbor.serCbor
  rw [Cbor.parse_print' _ hr hl]
  exact h1

theorem Cbor.parse_inrange' (bs : List Nat) (d : Cbor.Doc) (h : Cbor.parse bs = some d) : Json.InRange d :=
  Cbor.parse_ok bs d h

theorem Cbor.de_ok_wellformed' (bs : List Nat) (ns : List (Nat × Int)) (s : Store Nat Nat)
    (h : Cbor.deCbor bs = some (ns, s)) :
    ∃ d, Cbor.parse bs = some d ∧ Mirror s ∧ (∀ p ∈ ns, p ∈ d.1) ∧
      (∀ k, (s.get k).out = (d.2.filter (fun x => x.1 = k)).map (fun x => (x.2.1, x.2.2))) ∧
      (∀ k, (s.get k).inn = (d.2.filter (fun x => x.2.1 = k)).map (fun x => (x.1, x.2.2))) := by
  unfold Cbor.deCbor at h
  cases hp : Cbor.parse bs with
  | none => rw [hp] at h; cases h
  | some d =>
    rw [hp] at h
    exact ⟨d, rfl, Serde.ok_is_wellformed' d.1 d.2 ns s h⟩

theorem Cbor.de_error_iff' (bs : List Nat) :
    Cbor.deCbor bs = none ↔
      Cbor.parse bs = none ∨ ∃ d, Cbor.parse bs = some d ∧ ∃ x ∈ d.2, (x.1 ∉ d.1.map (·.1)) ∨ (x.2.1 ∉ d.1.map (·.1)) := by
  unfold Cbor.deCbor
  cases hp : Cbor.parse bs with
  | none => simp
  | some d =>
    simp only [Option.bind_some, Serde.undeclared_is_error', reduceCtorEq, false_or, Option.some.injEq,
      exists_eq_left']

theorem Cbor.truncated_is_error' (d : Cbor.Doc) (h : Json.InRange d) (hl : d.1.length < 2 ^ 64 ∧ d.2.length < 2 ^ 64)
    (n : Nat) (hn : n < (Cbor.print d).length) : Cbor.parse ((Cbor.print d).take n) = none :=
  Cbor.parse_cut d h hl _ (Cbor.cut_take _ n hn)

theorem Cbor.trailing_is_error' (d : Cbor.Doc) (h : Json.InRange d) (hl : d.1.length < 2 ^ 64 ∧ d.2.length < 2 ^ 64)
    (b : Nat) (rest : List Nat) : Cbor.parse (Cbor.print d ++ b :: rest) = none :=
  Cbor.parse_print_append d h hl (b :: rest)

end G

import GdslModel.Model.Spec
import GdslModel.Lemmas.Store
import GdslModel.Lemmas.Di
/-!
# Lemmas for the undirected flavours
-/
namespace G
variable {K E : Type} [DecidableEq K]

namespace Un

theorem isConnected_iff (s : Store K E) (u v : K) :
    isConnected s u v = true ↔ vals (unAdj s u) v ≠ [] := by
  simp only [isConnected, unAdj, vals_append, Bool.or_eq_true, hasKey_iff_vals]
  simp only [ne_eq, List.append_eq_nil_iff]
  constructor
  · rintro (h | h) ⟨h1, h2⟩
    · exact h h1
    · exact h h2
  · intro h
    by_cases h1 : vals (s.get u).out v = []
    · exact Or.inr (fun h2 => h ⟨h1, h2⟩)
    · exact Or.inl h1

theorem isConnected_false_iff (s : Store K E) (u v : K) :
    isConnected s u v = false ↔ vals (unAdj s u) v = [] := by
  rw [← Bool.not_eq_true, isConnected_iff]; simp

/-! ### tryConnect / disconnect -/

theorem tryConnect_spec' (s : Store K E) (u v : K) (e : E) :
    Un.tryConnect s u v e =
      if vals (unAdj s u) v ≠ [] then (s, .exists_) else (connect s u v e, .unit) := by
  unfold tryConnect
  by_cases hc : vals (unAdj s u) v = []
  · have := (isConnected_false_iff s u v).mpr hc
    simp [hc, this]
  · have := (isConnected_iff s u v).mpr hc
    simp [hc, this]

theorem disconnect_absent' (s : Store K E) (u v : K) (he : vals (unAdj s u) v = []) :
    Un.disconnect s u v = (s, .notFound) := by
  have := (isConnected_false_iff s u v).mpr he
  simp [disconnect, this]

theorem disconnect_found_inbound' (s : Store K E) (h : Mirror s) (u v : K) (e : E) (t : List E)
    (he : vals (s.get u).inn v = e :: t) :
    (Un.disconnect s u v).2 = .val e ∧
    ∀ w, ((Un.disconnect s u v).1.get w).inn = (if w = u then eraseKey (s.get w).inn v else (s.get w).inn) ∧
         ((Un.disconnect s u v).1.get w).out = (if w = v then eraseKey (s.get w).out u else (s.get w).out) := by
  have hc : isConnected s u v = true :=
    (isConnected_iff s u v).mpr (by simp [unAdj, he])
  have h1 := removeFirst_of_vals _ _ _ _ he
  have hout1 : ((s.set u { s.get u with inn := eraseKey (s.get u).inn v }).get v).out = (s.get v).out := by
    simp only [get_set]; split <;> simp_all
  have h2 : removeFirst ((s.set u { s.get u with inn := eraseKey (s.get u).inn v }).get v).out u
      = some (e, eraseKey (s.get v).out u) := by
    rw [hout1]; exact removeFirst_of_vals _ _ _ t (by rw [h v u]; exact he)
  have hres : Un.disconnect s u v =
      ((s.set u { s.get u with inn := eraseKey (s.get u).inn v }).set v
        { (s.set u { s.get u with inn := eraseKey (s.get u).inn v }).get v with
          out := eraseKey (s.get v).out u }, .val e) := by
    simp only [disconnect, hc, if_true, h1, h2]
  rw [hres]
  refine ⟨rfl, fun w => ?_⟩
  simp only [get_set]
  by_cases hwu : w = u <;> by_cases hwv : w = v <;> by_cases hvu : v = u <;> simp_all

theorem disconnect_found_outbound' (s : Store K E) (h : Mirror s) (u v : K) (e : E) (t : List E)
    (hi : vals (s.get u).inn v = []) (he : vals (s.get u).out v = e :: t) :
    (Un.disconnect s u v).2 = .val e ∧
    ∀ w, ((Un.disconnect s u v).1.get w).out = (if w = u then eraseKey (s.get w).out v else (s.get w).out) ∧
         ((Un.disconnect s u v).1.get w).inn = (if w = v then eraseKey (s.get w).inn u else (s.get w).inn) := by
  have hc : isConnected s u v = true :=
    (isConnected_iff s u v).mpr (by simp [unAdj, he])
  have h0 := removeFirst_eq_none _ _ hi
  have h1 := removeFirst_of_vals _ _ _ _ he
  have hinn1 : ((s.set u { s.get u with out := eraseKey (s.get u).out v }).get v).inn = (s.get v).inn := by
    simp only [get_set]; split <;> simp_all
  have h2 : removeFirst ((s.set u { s.get u with out := eraseKey (s.get u).out v }).get v).inn u
      = some (e, eraseKey (s.get v).inn u) := by
    rw [hinn1]; exact removeFirst_of_vals _ _ _ t (by rw [← h u v]; exact he)
  have hres : Un.disconnect s u v =
      ((s.set u { s.get u with out := eraseKey (s.get u).out v }).set v
        { (s.set u { s.get u with out := eraseKey (s.get u).out v }).get v with
          inn := eraseKey (s.get v).inn u }, .val e) := by
    simp only [disconnect, hc, if_true, h0, h1, h2]
  rw [hres]
  refine ⟨rfl, fun w => ?_⟩
  simp only [get_set]
  by_cases hwu : w = u <;> by_cases hwv : w = v <;> by_cases hvu : v = u <;> simp_all

theorem disconnect_mirror (s : Store K E) (u v : K) (h : Mirror s) : Mirror (disconnect s u v).1 := by
  rcases hvi : vals (s.get u).inn v with _ | ⟨e, t⟩
  · rcases hvo : vals (s.get u).out v with _ | ⟨e, t⟩
    · rw [disconnect_absent' s u v (by simp [unAdj, hvi, hvo])]; exact h
    · have := (disconnect_found_outbound' s h u v e t hvi hvo).2
      exact mirror_of_erase s _ h u v (fun w => (this w).1) (fun w => (this w).2)
  · have := (disconnect_found_inbound' s h u v e t hvi).2
    exact mirror_of_erase s _ h v u (fun w => (this w).2) (fun w => (this w).1)

theorem disconnect_ne_panic (s : Store K E) (u v : K) : (disconnect s u v).2 ≠ .panic := by
  unfold disconnect
  split
  · split
    · simp only []
      split <;> simp
    · split
      · simp
      · simp only []
        split <;> simp
  · simp

/-! ### isolate: one positional loop over `out ++ inn` of the live store -/

/-- phase 1 (positions inside `out`): the loop coincides with the directed first loop -/
theorem isoLoop_phase1 (s0 : Store K E) (u : K) (fuel pos : Nat) (s : Store K E) (extra : Nat)
    (hinv : Di.OutInv s0 u pos s) (hfuel : pos + fuel = (s0.get u).out.length) :
    ∃ s1, isoLoop u (fuel + extra) pos s = isoLoop u extra (s0.get u).out.length s1 ∧
      Di.OutInv s0 u (s0.get u).out.length s1 ∧ (s1.get u).inn.length ≤ (s.get u).inn.length := by
  induction fuel generalizing pos s with
  | zero => exact ⟨s, by simp at hfuel; simp [hfuel], by simpa [← hfuel] using hinv, Nat.le_refl _⟩
  | succ fuel ih =>
    have hlt : pos < (s0.get u).out.length := by omega
    rw [show fuel + 1 + extra = (fuel + extra) + 1 by omega]
    simp only [isoLoop]
    have hget : ((s.get u).out ++ (s.get u).inn)[pos]? = some ((s0.get u).out[pos]) := by
      rw [hinv.out_eq u, List.getElem?_append_left hlt, List.getElem?_eq_getElem hlt]
    rcases hv : (s0.get u).out[pos] with ⟨v, e⟩
    rw [hv] at hget
    simp only [hget]
    have hget0 : (s0.get u).out[pos]? = some (v, e) := by rw [List.getElem?_eq_getElem hlt, hv]
    obtain ⟨⟨e', inn'⟩, hr⟩ := Option.isSome_iff_exists.mp (removeFirst_isSome _ _ (hinv.removable hget0))
    simp only [hr]
    have hlen := removeFirst_length _ _ _ _ hr
    obtain ⟨s1, a, b, c⟩ := ih (pos + 1) (s.set v { s.get v with inn := inn' }) (hinv.step hget0 hr) (by omega)
    refine ⟨s1, a, b, Nat.le_trans c ?_⟩
    simp only [get_set]; split
    · rename_i huv; subst huv; simp; omega
    · exact Nat.le_refl _

/-- phase 2 (positions inside `inn`): the inbound removal finds nothing, the outbound one succeeds -/
theorem isoLoop_phase2 (s1 : Store K E) (u : K) (hnoU : ∀ b, vals (s1.get b).inn u = [])
    (fuel q : Nat) (s : Store K E)
    (hinv : Di.InInv s1 u q s) (hout : (s.get u).out = (s1.get u).out)
    (hq : q ≤ (s1.get u).inn.length) (hfuel : (s1.get u).inn.length ≤ q + fuel) :
    ∃ s', isoLoop u fuel ((s1.get u).out.length + q) s = (s', false) ∧ Di.InInv s1 u (s1.get u).inn.length s' := by
  induction fuel generalizing q s with
  | zero =>
    have hqe : q = (s1.get u).inn.length := by omega
    exact ⟨s, rfl, hqe ▸ hinv⟩
  | succ fuel ih =>
    by_cases hend : q = (s1.get u).inn.length
    · refine ⟨s, ?_, hend ▸ hinv⟩
      simp only [isoLoop]
      have : ((s.get u).out ++ (s.get u).inn)[(s1.get u).out.length + q]? = none := by
        rw [hout, hinv.inn_eq u]; apply List.getElem?_eq_none; simp; omega
      simp [this]
    have hlt : q < (s1.get u).inn.length := by omega
    simp only [isoLoop]
    have hget : ((s.get u).out ++ (s.get u).inn)[(s1.get u).out.length + q]? = some ((s1.get u).inn[q]) := by
      rw [hout, hinv.inn_eq u, List.getElem?_append_right (by omega)]
      simp [List.getElem?_eq_getElem hlt]
    rcases hv : (s1.get u).inn[q] with ⟨v, e⟩
    rw [hv] at hget
    simp only [hget]
    have hget0 : (s1.get u).inn[q]? = some (v, e) := by rw [List.getElem?_eq_getElem hlt, hv]
    have hvu : v ≠ u := Di.key_ne_of_getElem? _ u (hnoU u) q v e hget0
    have hnone : removeFirst (s.get v).inn u = none := by
      apply removeFirst_eq_none; rw [hinv.inn_eq v]; exact hnoU v
    simp only [hnone]
    obtain ⟨⟨e', out'⟩, hr⟩ :=
      Option.isSome_iff_exists.mp (removeFirst_isSome _ _ (hinv.removable hvu hget0))
    simp only [hr]
    have := ih (q + 1) (s.set v { s.get v with out := out' }) (hinv.step hget0 hr) ?_ (by omega) (by omega)
    · simpa [Nat.add_assoc] using this
    · rw [get_set_other _ _ _ _ (Ne.symm hvu)]; exact hout

theorem isolate_spec' (s : Store K E) (h : Mirror s) (u : K) :
    (Un.isolate s u).2 = .unit ∧
    ∀ w, ((Un.isolate s u).1.get w).out = (if w = u then [] else dropKey (s.get w).out u) ∧
         ((Un.isolate s u).1.get w).inn = (if w = u then [] else dropKey (s.get w).inn u) := by
  obtain ⟨s1, e1, i1, hlen1⟩ := isoLoop_phase1 s u (s.get u).out.length 0 s (s.get u).inn.length
    (Di.OutInv.init s h u) (by omega)
  have hnoU : ∀ b, vals (s1.get b).inn u = [] := fun b => by simpa using i1.inn_u b
  have hout1 : (s1.get u).out = (s.get u).out := i1.out_eq u
  obtain ⟨s2, e2, i2⟩ := isoLoop_phase2 s1 u hnoU (s.get u).inn.length 0 s1
    (Di.InInv.init s s1 h u i1) rfl (by omega) (by omega)
  have hres : isolate s u = (s2.set u {}, .unit) := by
    simp only [isolate]
    rw [e1, ← hout1]
    simp only [Nat.add_zero] at e2
    rw [e2]
  rw [hres]
  refine ⟨rfl, fun w => ?_⟩
  simp only [get_set]
  by_cases hwu : w = u
  · simp [hwu]
  · simp only [hwu, if_false]
    exact ⟨by rw [i2.final w hwu, i1.out_eq w], by rw [i2.inn_eq w, i1.final w]⟩

theorem isolate_mirror (s : Store K E) (u : K) (h : Mirror s) : Mirror (isolate s u).1 :=
  have := (isolate_spec' s h u).2
  mirror_of_drop s _ h u (fun w => (this w).1) (fun w => (this w).2)

/-! ### steps and histories -/

theorem step_mirror (s : Store K E) (op : Op K E) (h : Mirror s) : Mirror (Un.step s op).1 := by
  cases op with
  | connect u v e => exact connect_mirror s u v e h
  | tryConnect u v e =>
    simp only [step, tryConnect]
    split
    · exact h
    · exact connect_mirror s u v e h
  | disconnect u v => exact disconnect_mirror s u v h
  | isolate u => exact isolate_mirror s u h

theorem foldl_mirror (ops : List (Op K E)) (s : Store K E) (h : Mirror s) :
    Mirror (ops.foldl (fun s op => (Un.step s op).1) s) := by
  induction ops generalizing s with
  | nil => exact h
  | cons op t ih => exact ih _ (step_mirror s op h)

theorem run_mirror (ops : List (Op K E)) : Mirror (Un.run ops) :=
  foldl_mirror ops _ mirror_empty'

theorem step_no_panic (s : Store K E) (op : Op K E) (h : Mirror s) : (Un.step s op).2 ≠ .panic := by
  cases op with
  | connect u v e => simp [step]
  | tryConnect u v e => simp only [step, tryConnect]; split <;> simp
  | disconnect u v => exact disconnect_ne_panic s u v
  | isolate u => simp only [step]; rw [(isolate_spec' s h u).1]; simp

/-! ### consequences of `Mirror` -/

theorem filter_pair_length [DecidableEq E] (l : List (K × E)) (v : K) (e : E) :
    (l.filter (fun p => p.1 = v ∧ p.2 = e)).length = List.count e (vals l v) := by
  induction l with
  | nil => simp
  | cons p t ih =>
    obtain ⟨k', e'⟩ := p
    rw [vals_cons]
    simp only [Bool.decide_and] at ih ⊢
    by_cases hk : k' = v
    · by_cases he : e' = e
      · simp [hk, he, ih]
      · simp [hk, he, ih]
    · simp [hk, ih]

theorem count_symm' [DecidableEq E] (s : Store K E) (h : Mirror s) (u v : K) (e : E) :
    ((unAdj s u).filter (fun p => p.1 = v ∧ p.2 = e)).length =
    ((unAdj s v).filter (fun p => p.1 = u ∧ p.2 = e)).length := by
  simp only [unAdj, List.filter_append, List.length_append, filter_pair_length]
  rw [h u v, h v u, Nat.add_comm]

theorem connected_symm' (s : Store K E) (h : Mirror s) (u v : K) :
    Un.isConnected s u v = Un.isConnected s v u := by
  unfold isConnected
  rw [hasKey_congr _ _ _ _ (h u v), hasKey_congr _ _ _ _ (h v u), Bool.or_comm]

theorem selfloop_degree' (s : Store K E) (u : K) (e : E) :
    (unAdj (connect s u u e) u).length = (unAdj s u).length + 2 := by
  have := connect_spec' s u u e u
  simp only [unAdj, this.1, this.2, if_true, List.length_append, List.length_singleton]
  omega

theorem edge_degree' (s : Store K E) (u v : K) (e : E) (huv : u ≠ v) :
    (unAdj (connect s u v e) u).length = (unAdj s u).length + 1 ∧
    (unAdj (connect s u v e) v).length = (unAdj s v).length + 1 := by
  have h1 := connect_spec' s u v e u
  have h2 := connect_spec' s u v e v
  have hvu : v ≠ u := Ne.symm huv
  simp only [unAdj, h1.1, h1.2, h2.1, h2.2, if_true, if_neg huv, if_neg hvu, List.length_append,
    List.length_singleton]
  omega

end Un
end G

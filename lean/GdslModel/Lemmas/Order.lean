import GdslModel.Model.Spec
/-!
# Preorder / postorder (`Order::search_edges`, `Order::search_nodes`) — lemmas for C10

Plan:
* `Reach`/`Before` helpers;
* theory of the non-deterministic relation `Dfs` (everything node-level follows from it);
* `ordEdges`: one function that is `preEdges` for `post = false` and `postEdges` for `post = true`
  (`preEdges_eq`, `postEdges_eq`), so that every loop invariant is proved once;
* loop invariants of `ordEdges` by functional induction;
* the primed lemmas used by `Props/C10.lean` and the extra lemmas for the other property files.
-/
set_option linter.unusedSectionVars false
namespace G
variable {K E : Type} [DecidableEq K]

/-! ## Helpers -/

theorem Reach.trans' {adj : K → List (K × E)} {a b c : K} (h1 : Reach adj a b) (h2 : Reach adj b c) :
    Reach adj a c := by
  induction h2 with
  | refl => exact h1
  | step _ hc ih => exact .step ih hc

theorem Before.append_right' {l : List K} {a b : K} (h : Before l a b) (m : List K) : Before (l ++ m) a b := by
  obtain ⟨l1, l2, rfl, hb⟩ := h
  exact ⟨l1, l2 ++ m, by simp, List.mem_append_left _ hb⟩

theorem Before.append_left' {l : List K} {a b : K} (h : Before l a b) (m : List K) : Before (m ++ l) a b := by
  obtain ⟨l1, l2, rfl, hb⟩ := h
  exact ⟨m ++ l1, l2, by simp, hb⟩

theorem Before.of_mem_append' {l m : List K} {a b : K} (ha : a ∈ l) (hb : b ∈ m) : Before (l ++ m) a b := by
  obtain ⟨l1, l2, rfl⟩ := List.append_of_mem ha
  exact ⟨l1, l2 ++ m, by simp, List.mem_append_right _ hb⟩

/-! ## The relation `Dfs` -/

namespace Dfs
variable {A : K → List (K × E)}

/-- the visited list grows exactly by the discovered nodes (most recent first) -/
theorem vis_eq {vis vis' disc fin : List K} {u : K} (h : Dfs A vis u disc fin vis') :
    vis' = disc.reverse ++ vis := by
  induction h with
  | finish _ => simp
  | descend _ _ _ _ ih1 ih2 => rw [ih2, ih1]; simp

theorem mono {vis vis' disc fin : List K} {u : K} (h : Dfs A vis u disc fin vis') : ∀ x ∈ vis, x ∈ vis' := by
  intro x hx; rw [h.vis_eq]; exact List.mem_append_right _ hx

theorem nodup {vis vis' disc fin : List K} {u : K} (h : Dfs A vis u disc fin vis') (hn : vis.Nodup) :
    vis'.Nodup := by
  induction h with
  | finish _ => exact hn
  | descend _ hv _ _ ih1 ih2 => exact ih2 (ih1 (List.nodup_cons.mpr ⟨hv, hn⟩))

/-- the finished nodes are the discovered nodes and `u` -/
theorem fin_perm {vis vis' disc fin : List K} {u : K} (h : Dfs A vis u disc fin vis') :
    fin.Perm (u :: disc) := by
  induction h with
  | finish _ => exact .refl _
  | @descend vis vis1 vis2 u v e d1 f1 d2 f2 _ _ _ _ ih1 ih2 =>
    have h1 : (f1 ++ f2).Perm ((v :: d1) ++ (u :: d2)) := ih1.append ih2
    refine h1.trans ?_
    have : ((v :: d1) ++ (u :: d2)).Perm (u :: ((v :: d1) ++ d2)) := List.perm_middle
    simpa using this

/-- `u` is finished last -/
theorem fin_last {vis vis' disc fin : List K} {u : K} (h : Dfs A vis u disc fin vis') :
    ∃ f, fin = f ++ [u] := by
  induction h with
  | finish _ => exact ⟨[], rfl⟩
  | @descend vis vis1 vis2 u v e d1 f1 d2 f2 _ _ _ _ _ ih2 =>
    obtain ⟨f, rfl⟩ := ih2; exact ⟨f1 ++ f, by simp⟩

theorem disc_reach {vis vis' disc fin : List K} {u : K} (h : Dfs A vis u disc fin vis') :
    ∀ x ∈ disc, Reach A u x := by
  induction h with
  | finish _ => simp
  | descend he _ _ _ ih1 ih2 =>
    intro x hx
    simp only [List.cons_append, List.mem_cons, List.mem_append] at hx
    rcases hx with rfl | hx | hx
    · exact .step (.refl _) he
    · exact Reach.trans' (.step (.refl _) he) (ih1 x hx)
    · exact ih2 x hx

/-- on return every accepted neighbour of `u` is visited -/
theorem targets {vis vis' disc fin : List K} {u : K} (h : Dfs A vis u disc fin vis') :
    ∀ p ∈ A u, p.1 ∈ vis' := by
  induction h with
  | finish hall => exact hall
  | descend _ _ _ _ _ ih2 => exact ih2

/-- every node visited on return was visited before or has all its accepted neighbours visited -/
theorem new_closed {vis vis' disc fin : List K} {u : K} (h : Dfs A vis u disc fin vis') :
    ∀ x ∈ vis', x ∈ vis ∨ ∀ p ∈ A x, p.1 ∈ vis' := by
  induction h with
  | finish _ => exact fun x hx => Or.inl hx
  | @descend vis vis1 vis2 u v e d1 f1 d2 f2 _ _ D1 D2 ih1 ih2 =>
    intro x hx
    rcases ih2 x hx with hx1 | hcl
    · rcases ih1 x hx1 with hx0 | hcl
      · rcases List.mem_cons.mp hx0 with rfl | hx0
        · exact Or.inr fun p hp => D2.mono _ (D1.targets p hp)
        · exact Or.inl hx0
      · exact Or.inr fun p hp => D2.mono _ (hcl p hp)
    · exact Or.inr hcl

/-- the per-edge property of the finishing order. `F` = the nodes finished before this call;
    every other visited node is on the recursion stack and therefore reaches `u`. -/
theorem fin_edge {vis vis' disc fin : List K} {u : K} (h : Dfs A vis u disc fin vis') (F : K → Prop)
    (hs : ∀ s ∈ vis, F s ∨ Reach A s u) :
    ∀ x ∈ fin, ∀ p ∈ A x, F p.1 ∨ Before fin p.1 x ∨ Reach A p.1 x := by
  induction h generalizing F with
  | finish hall =>
    intro x hx p hp
    simp only [List.mem_singleton] at hx; subst hx
    rcases hs _ (hall p hp) with h | h
    · exact Or.inl h
    · exact Or.inr (Or.inr h)
  | @descend vis vis1 vis2 u v e d1 f1 d2 f2 he hv D1 D2 ih1 ih2 =>
    have h1 := ih1 F (by
      intro s hs'
      rcases List.mem_cons.mp hs' with rfl | hs'
      · exact Or.inr (.refl _)
      · exact (hs s hs').imp id (fun r => .step r he))
    have h2 := ih2 (fun s => F s ∨ s ∈ f1) (by
      intro s hs'
      rw [D1.vis_eq] at hs'
      have hf1 : ∀ y, y ∈ v :: d1 → y ∈ f1 := fun y hy => D1.fin_perm.mem_iff.mpr hy
      rcases List.mem_append.mp hs' with hd | hvv
      · exact Or.inl (Or.inr (hf1 s (List.mem_cons_of_mem _ (List.mem_reverse.mp hd))))
      · rcases List.mem_cons.mp hvv with rfl | hvv
        · exact Or.inl (Or.inr (hf1 _ List.mem_cons_self))
        · exact (hs s hvv).imp Or.inl id)
    intro x hx p hp
    rcases List.mem_append.mp hx with hx | hx
    · rcases h1 x hx p hp with h | h | h
      · exact Or.inl h
      · exact Or.inr (Or.inl (h.append_right' _))
      · exact Or.inr (Or.inr h)
    · rcases h2 x hx p hp with (h | h) | h | h
      · exact Or.inl h
      · exact Or.inr (Or.inl (Before.of_mem_append' h hx))
      · exact Or.inr (Or.inl (h.append_left' _))
      · exact Or.inr (Or.inr h)

/-- a complete run from the root: summary of the node-level facts -/
theorem root_spec {r : K} {disc fin vis' : List K} (h : Dfs A [r] r disc fin vis') :
    (r :: disc).Nodup ∧ (∀ x, x ∈ r :: disc ↔ Reach A r x) ∧ fin.Perm (r :: disc) ∧
    (∃ f, fin = f ++ [r]) ∧ vis' = disc.reverse ++ [r] ∧
    (∀ x ∈ fin, ∀ p ∈ A x, Before fin p.1 x ∨ Reach A p.1 x) := by
  have hv := h.vis_eq
  have hn : vis'.Nodup := h.nodup (by simp)
  have hmem : ∀ x, x ∈ r :: disc ↔ x ∈ vis' := by
    intro x; rw [hv]; simp [or_comm]
  have hclosed : ∀ x ∈ vis', ∀ p ∈ A x, p.1 ∈ vis' := by
    intro x hx
    rcases h.new_closed x hx with h0 | hcl
    · simp only [List.mem_singleton] at h0; subst h0; exact h.targets
    · exact hcl
  refine ⟨?_, ?_, h.fin_perm, h.fin_last, hv, ?_⟩
  · have : (r :: disc).Perm vis' := by
      rw [hv]
      exact (List.perm_append_comm (l₁ := [r]) (l₂ := disc)).trans
        ((List.reverse_perm disc).symm.append_right [r])
    exact this.nodup_iff.mpr hn
  · intro x; constructor
    · intro hx
      rcases List.mem_cons.mp hx with rfl | hx
      · exact .refl _
      · exact h.disc_reach x hx
    · intro hr
      rw [hmem]
      induction hr with
      | refl => exact (hmem r).mp List.mem_cons_self
      | step _ hc ih => exact hclosed _ ih _ hc
  · intro x hx p hp
    rcases h.fin_edge (fun _ => False) (by
      intro s hs; simp only [List.mem_singleton] at hs; subst hs; exact Or.inr (.refl _)) x hx p hp with h | h
    · exact h.elim
    · exact h

end Dfs

/- everything below lives in `G.Order` (the helper names are short) -/
namespace Order

theorem accAdj_true (adj : K → List (K × E)) : accAdj adj (fun _ _ _ => true) = adj := by
  funext u; simp [accAdj]

theorem mem_accAdj {adj : K → List (K × E)} {acc : K → K → E → Bool} {u : K} {p : K × E} :
    p ∈ accAdj adj acc u ↔ p ∈ adj u ∧ acc u p.1 p.2 = true := by
  simp [accAdj]

/-! ## One function for both orderings -/

/-- the tree when the recursive call starts -/
def tIn (post : Bool) (t : List (Edge K E)) (x : Edge K E) : List (Edge K E) := if post then t else t ++ [x]
/-- the tree when the recursive call has returned -/
def tOut (post : Bool) (t : List (Edge K E)) (x : Edge K E) : List (Edge K E) := if post then t ++ [x] else t

@[simp] theorem tIn_true (t : List (Edge K E)) (x : Edge K E) : tIn true t x = t := rfl
@[simp] theorem tIn_false (t : List (Edge K E)) (x : Edge K E) : tIn false t x = t ++ [x] := rfl
@[simp] theorem tOut_true (t : List (Edge K E)) (x : Edge K E) : tOut true t x = t ++ [x] := rfl
@[simp] theorem tOut_false (t : List (Edge K E)) (x : Edge K E) : tOut false t x = t := rfl

/-- `preEdges` (`post = false`) and `postEdges` (`post = true`) in one definition: the entering edge is
    appended to the tree before the recursive call or after it returns -/
def ordEdges (c : Cfg K E) (post : Bool) : Nat → K → List (K × E) → TSt K E → Option (TSt K E)
  | _, _, [], st => some st
  | 0, _, _ :: _, _ => none
  | fuel + 1, u, (v, e) :: rest, st =>
    if c.acc u v e then
      if v ∈ st.vis then ordEdges c post (fuel + 1) u rest { st with trace := st.trace ++ [(u, v, e)] }
      else
        match ordEdges c post fuel v (c.adj v)
            { vis := v :: st.vis, tree := tIn post st.tree (u, v, e),
              trace := st.trace ++ [(u, v, e)] } with
        | none => none
        | some st' =>
          ordEdges c post (fuel + 1) u rest { st' with tree := tOut post st'.tree (u, v, e) }
    else ordEdges c post (fuel + 1) u rest { st with trace := st.trace ++ [(u, v, e)] }
termination_by fuel _ l => (fuel, l.length)

theorem preEdges_eq (c : Cfg K E) (fuel : Nat) (u : K) (l : List (K × E)) (st : TSt K E) :
    preEdges c fuel u l st = ordEdges c false fuel u l st := by
  fun_induction preEdges c fuel u l st with
  | case1 => simp [ordEdges]
  | case2 => simp [ordEdges]
  | case3 fuel u v e rest st0 st hacc hv ih =>
    rw [ordEdges]; simp only [hacc, if_true]
    rw [if_pos (show v ∈ st0.vis from hv)]; exact ih
  | case4 fuel u v e rest st0 st hacc hv st1 hr ih =>
    rw [ordEdges]; simp only [hacc, if_true]
    rw [if_neg (show ¬ v ∈ st0.vis from hv)]
    have : ordEdges c false fuel v (c.adj v) st1 = none := ih ▸ hr
    show none = match ordEdges c false fuel v (c.adj v) st1 with
      | none => none
      | some st' => _
    rw [this]
  | case5 fuel u v e rest st0 st hacc hv st1 st' hr ih1 ih2 =>
    rw [ordEdges]; simp only [hacc, if_true]
    rw [if_neg (show ¬ v ∈ st0.vis from hv)]
    have : ordEdges c false fuel v (c.adj v) st1 = some st' := ih1 ▸ hr
    show _ = match ordEdges c false fuel v (c.adj v) st1 with
      | none => none
      | some st' => _
    rw [this]; exact ih2
  | case6 fuel u v e rest st0 st hacc ih =>
    rw [ordEdges]; simp only [hacc, Bool.false_eq_true, if_false]; exact ih

theorem postEdges_eq (c : Cfg K E) (fuel : Nat) (u : K) (l : List (K × E)) (st : TSt K E) :
    postEdges c fuel u l st = ordEdges c true fuel u l st := by
  fun_induction postEdges c fuel u l st with
  | case1 => simp [ordEdges]
  | case2 => simp [ordEdges]
  | case3 fuel u v e rest st0 st hacc hv ih =>
    rw [ordEdges]; simp only [hacc, if_true]
    rw [if_pos (show v ∈ st0.vis from hv)]; exact ih
  | case4 fuel u v e rest st0 st hacc hv st1 hr ih =>
    rw [ordEdges]; simp only [hacc, if_true]
    rw [if_neg (show ¬ v ∈ st0.vis from hv)]
    have : ordEdges c true fuel v (c.adj v) st1 = none := ih ▸ hr
    show none = match ordEdges c true fuel v (c.adj v) st1 with
      | none => none
      | some st' => _
    rw [this]
  | case5 fuel u v e rest st0 st hacc hv st1 st' hr ih1 ih2 =>
    rw [ordEdges]; simp only [hacc, if_true]
    rw [if_neg (show ¬ v ∈ st0.vis from hv)]
    have : ordEdges c true fuel v (c.adj v) st1 = some st' := ih1 ▸ hr
    show _ = match ordEdges c true fuel v (c.adj v) st1 with
      | none => none
      | some st' => _
    rw [this]; exact ih2
  | case6 fuel u v e rest st0 st hacc ih =>
    rw [ordEdges]; simp only [hacc, Bool.false_eq_true, if_false]; exact ih

/-! ### unfolding equations -/

theorem ordEdges_vis (c : Cfg K E) (post : Bool) (fuel : Nat) (u v : K) (e : E) (rest : List (K × E)) (st : TSt K E)
    (hacc : c.acc u v e = true) (hv : v ∈ st.vis) :
    ordEdges c post (fuel + 1) u ((v, e) :: rest) st =
      ordEdges c post (fuel + 1) u rest { st with trace := st.trace ++ [(u, v, e)] } := by
  rw [ordEdges]; simp only [hacc, if_true]; rw [if_pos hv]

theorem ordEdges_rej (c : Cfg K E) (post : Bool) (fuel : Nat) (u v : K) (e : E) (rest : List (K × E)) (st : TSt K E)
    (hacc : ¬ c.acc u v e = true) :
    ordEdges c post (fuel + 1) u ((v, e) :: rest) st =
      ordEdges c post (fuel + 1) u rest { st with trace := st.trace ++ [(u, v, e)] } := by
  rw [ordEdges]; rw [if_neg hacc]

theorem ordEdges_desc (c : Cfg K E) (post : Bool) (fuel : Nat) (u v : K) (e : E) (rest : List (K × E)) (st : TSt K E)
    (hacc : c.acc u v e = true) (hv : ¬ v ∈ st.vis) :
    ordEdges c post (fuel + 1) u ((v, e) :: rest) st =
      (ordEdges c post fuel v (c.adj v)
        { vis := v :: st.vis, tree := tIn post st.tree (u, v, e), trace := st.trace ++ [(u, v, e)] }).bind
      (fun st' => ordEdges c post (fuel + 1) u rest { st' with tree := tOut post st'.tree (u, v, e) }) := by
  rw [ordEdges]; simp only [hacc, if_true]; rw [if_neg hv]
  cases ordEdges c post fuel v (c.adj v)
        { vis := v :: st.vis, tree := tIn post st.tree (u, v, e), trace := st.trace ++ [(u, v, e)] } <;> rfl

/-! ### soundness of tree and trace -/

theorem ordEdges_sound (c : Cfg K E) (post : Bool) (fuel : Nat) (u : K) (l : List (K × E)) (st st' : TSt K E)
    (h : ordEdges c post fuel u l st = some st') (hl : ∀ p ∈ l, p ∈ c.adj u)
    (h1 : ∀ x ∈ st.tree, (x.2.1, x.2.2) ∈ accAdj c.adj c.acc x.1)
    (h2 : ∀ x ∈ st.trace, (x.2.1, x.2.2) ∈ c.adj x.1) :
    (∀ x ∈ st'.tree, (x.2.1, x.2.2) ∈ accAdj c.adj c.acc x.1) ∧ (∀ x ∈ st'.trace, (x.2.1, x.2.2) ∈ c.adj x.1) := by
  fun_induction ordEdges c post fuel u l st generalizing st' with
  | case1 => simp only [Option.some.injEq] at h; subst h; exact ⟨h1, h2⟩
  | case2 => cases h
  | case3 fuel u v e rest st hacc hv ih =>
    refine ih st' h (fun p hp => hl p (List.mem_cons_of_mem _ hp)) h1 ?_
    intro x hx; rcases List.mem_append.mp hx with hx | hx
    · exact h2 x hx
    · simp only [List.mem_singleton] at hx; subst hx; exact hl _ List.mem_cons_self
  | case4 fuel u v e rest st hacc hv hr ih => cases h
  | case5 fuel u v e rest st hacc hv st1 hr ih1 ih2 =>
    have hve : (v, e) ∈ c.adj u := hl _ List.mem_cons_self
    have hx0 : ((u, v, e) : Edge K E).2.1 = v ∧ True := ⟨rfl, trivial⟩
    have hA : (v, e) ∈ accAdj c.adj c.acc u := mem_accAdj.mpr ⟨hve, hacc⟩
    obtain ⟨a1, a2⟩ := ih1 st1 hr (fun _ hp => hp)
      (by
        intro x hx; cases post
        · simp only [tIn_false, List.mem_append, List.mem_singleton] at hx
          rcases hx with hx | rfl
          · exact h1 x hx
          · exact hA
        · exact h1 x hx)
      (by
        intro x hx; rcases List.mem_append.mp hx with hx | hx
        · exact h2 x hx
        · simp only [List.mem_singleton] at hx; subst hx; exact hve)
    refine ih2 st' h (fun p hp => hl p (List.mem_cons_of_mem _ hp)) ?_ a2
    intro x hx; cases post
    · exact a1 x hx
    · simp only [tOut_true, List.mem_append, List.mem_singleton] at hx
      rcases hx with hx | rfl
      · exact a1 x hx
      · exact hA
  | case6 fuel u v e rest st hacc ih =>
    refine ih st' h (fun p hp => hl p (List.mem_cons_of_mem _ hp)) h1 ?_
    intro x hx; rcases List.mem_append.mp hx with hx | hx
    · exact h2 x hx
    · simp only [List.mem_singleton] at hx; subst hx; exact hl _ List.mem_cons_self

/-! ### the loop is an instance of `Dfs` -/

/-- target of a tree edge -/
abbrev tgt (x : Edge K E) : K := x.2.1

/-- Running the loop of `u` over the remaining edges `l`, when every accepted neighbour of `u` that is
    not in `l` any more is visited, is a `Dfs` continuation at `u`. The tree grows by `new`; its targets
    are the discovery list (preorder) resp. the finishing list without the final `u` (postorder). -/
theorem ordEdges_dfs (c : Cfg K E) (post : Bool) (fuel : Nat) (u : K) (l : List (K × E)) (st st' : TSt K E)
    (h : ordEdges c post fuel u l st = some st') (hl : ∀ p ∈ l, p ∈ c.adj u)
    (hdone : ∀ p ∈ accAdj c.adj c.acc u, p.1 ∈ st.vis ∨ p ∈ l) :
    ∃ new disc fin, st'.tree = st.tree ++ new ∧ Dfs (accAdj c.adj c.acc) st.vis u disc fin st'.vis ∧
      (post = false → disc = new.map tgt) ∧ (post = true → fin = new.map tgt ++ [u]) := by
  fun_induction ordEdges c post fuel u l st generalizing st' with
  | case1 fuel u st =>
    simp only [Option.some.injEq] at h; subst h
    refine ⟨[], [], [u], by simp, .finish ?_, by simp, by simp⟩
    intro p hp; rcases hdone p hp with h | h
    · exact h
    · cases h
  | case2 => cases h
  | case3 fuel u v e rest st hacc hv ih =>
    refine ih st' h (fun p hp => hl p (List.mem_cons_of_mem _ hp)) ?_
    intro p hp; rcases hdone p hp with h | h
    · exact Or.inl h
    · rcases List.mem_cons.mp h with rfl | h
      · exact Or.inl hv
      · exact Or.inr h
  | case4 fuel u v e rest st hacc hv hr ih => cases h
  | case5 fuel u v e rest st hacc hv st1 hr ih1 ih2 =>
    have hA : (v, e) ∈ accAdj c.adj c.acc u := mem_accAdj.mpr ⟨hl _ List.mem_cons_self, hacc⟩
    obtain ⟨new1, d1, f1, ht1, D1, hd1, hf1⟩ := ih1 st1 hr (fun _ hp => hp)
      (fun p hp => Or.inr (mem_accAdj.mp hp).1)
    obtain ⟨new2, d2, f2, ht2, D2, hd2, hf2⟩ := ih2 st' h (fun p hp => hl p (List.mem_cons_of_mem _ hp))
      (by
        intro p hp; rcases hdone p hp with h | h
        · exact Or.inl (D1.mono _ (List.mem_cons_of_mem _ h))
        · rcases List.mem_cons.mp h with rfl | h
          · exact Or.inl (D1.mono _ List.mem_cons_self)
          · exact Or.inr h)
    simp only at ht1 ht2 D1 D2
    refine ⟨tIn post [] (u, v, e) ++ new1 ++ tOut post [] (u, v, e) ++ new2, v :: d1 ++ d2, f1 ++ f2, ?_,
      .descend hA hv D1 D2, ?_, ?_⟩
    · rw [ht2]; cases post
      · simp only [tOut_false, tIn_false] at ht1 ⊢; rw [ht1]; simp
      · simp only [tOut_true, tIn_true] at ht1 ⊢; rw [ht1]; simp
    · intro hp; subst hp; rw [hd1 rfl, hd2 rfl]; simp [tgt]
    · intro hp; subst hp; rw [hf1 rfl, hf2 rfl]; simp [tgt]
  | case6 fuel u v e rest st hacc ih =>
    refine ih st' h (fun p hp => hl p (List.mem_cons_of_mem _ hp)) ?_
    intro p hp; rcases hdone p hp with h | h
    · exact Or.inl h
    · rcases List.mem_cons.mp h with rfl | h
      · exact absurd (mem_accAdj.mp hp).2 hacc
      · exact Or.inr h

/-! ### filtering the lists first gives the same nodes and tree -/

/-- the configuration that walks the pre-filtered lists and accepts everything -/
def filtCfg (c : Cfg K E) : Cfg K E :=
  { adj := accAdj c.adj c.acc, acc := fun _ _ _ => true, target := none }

theorem ordEdges_filter (c : Cfg K E) (post : Bool) (fuel : Nat) (u : K) (l : List (K × E)) (st st' : TSt K E)
    (h : ordEdges c post fuel u l st = some st') (st2 : TSt K E) (hvis : st2.vis = st.vis) (htree : st2.tree = st.tree) :
    ∃ st2', ordEdges (filtCfg c) post fuel u (l.filter (fun p => c.acc u p.1 p.2)) st2 = some st2' ∧
      st2'.vis = st'.vis ∧ st2'.tree = st'.tree := by
  fun_induction ordEdges c post fuel u l st generalizing st' st2 with
  | case1 fuel u st =>
    simp only [Option.some.injEq] at h; subst h
    exact ⟨st2, by simp [ordEdges], hvis, htree⟩
  | case2 => cases h
  | case3 fuel u v e rest st hacc hv ih =>
    rw [List.filter_cons_of_pos (by simpa using hacc)]
    rw [ordEdges_vis (filtCfg c) post fuel u v e _ st2 rfl (hvis ▸ hv)]
    exact ih st' h _ hvis htree
  | case4 fuel u v e rest st hacc hv hr ih => cases h
  | case5 fuel u v e rest st hacc hv st1 hr ih1 ih2 =>
    rw [List.filter_cons_of_pos (by simpa using hacc)]
    rw [ordEdges_desc (filtCfg c) post fuel u v e _ st2 rfl (hvis ▸ hv)]
    obtain ⟨s1, hs1, hv1, ht1⟩ := ih1 st1 hr
      { vis := v :: st2.vis, tree := tIn post st2.tree (u, v, e), trace := st2.trace ++ [(u, v, e)] }
      (by simp only [hvis]) (by simp only [htree])
    have hs1' : ordEdges (filtCfg c) post fuel v ((filtCfg c).adj v)
        { vis := v :: st2.vis, tree := tIn post st2.tree (u, v, e), trace := st2.trace ++ [(u, v, e)] } = some s1 := hs1
    rw [hs1', Option.bind_some]
    exact ih2 st' h _ hv1 (by simp only [ht1])
  | case6 fuel u v e rest st hacc ih =>
    rw [List.filter_cons_of_neg (by simpa using hacc)]
    exact ih st' h st2 hvis htree

/-! ### the callback trace when nothing is rejected -/

theorem ordEdges_trace (c : Cfg K E) (post : Bool) (fuel : Nat) (u : K) (l : List (K × E)) (st st' : TSt K E)
    (hall : ∀ a b e, c.acc a b e = true)
    (h : ordEdges c post fuel u l st = some st') :
    ∃ D, st'.vis = D ++ st.vis ∧
      st'.trace.Perm (st.trace ++ l.map (fun p => (u, p.1, p.2)) ++ D.flatMap (edgesOf c.adj)) := by
  fun_induction ordEdges c post fuel u l st generalizing st' with
  | case1 fuel u st =>
    simp only [Option.some.injEq] at h; subst h
    exact ⟨[], by simp, by simp⟩
  | case2 => cases h
  | case3 fuel u v e rest st hacc hv ih =>
    obtain ⟨D, hD, hp⟩ := ih st' h
    exact ⟨D, hD, by simpa using hp⟩
  | case4 fuel u v e rest st hacc hv hr ih => cases h
  | case5 fuel u v e rest st hacc hv st1 hr ih1 ih2 =>
    obtain ⟨D1, hD1, hp1⟩ := ih1 st1 hr
    obtain ⟨D2, hD2, hp2⟩ := ih2 st' h
    simp only at hD1 hD2 hp1 hp2
    refine ⟨D2 ++ D1 ++ [v], by rw [hD2, hD1]; simp, ?_⟩
    refine hp2.trans ?_
    refine ((hp1.append_right _).append_right _).trans ?_
    simp only [List.flatMap_append, List.flatMap_cons, List.flatMap_nil, List.append_nil,
      List.map_cons, List.append_assoc, List.cons_append, List.nil_append]
    refine List.Perm.append_left _ (List.Perm.cons _ ?_)
    -- X ++ (D1' ++ (R ++ D2')) ~ R ++ (D2' ++ (D1' ++ X))
    have hX : (c.adj v).map (fun p => (v, p.1, p.2)) = edgesOf c.adj v := rfl
    rw [hX]
    generalize edgesOf c.adj v = X
    generalize List.flatMap (edgesOf c.adj) D1 = Y
    generalize List.flatMap (edgesOf c.adj) D2 = Z
    generalize rest.map (fun p => (u, p.1, p.2)) = R
    have e1 : (X ++ (Y ++ (R ++ Z))).Perm ((R ++ Z) ++ (Y ++ X)) := by
      rw [← List.append_assoc]
      exact List.perm_append_comm.trans (List.Perm.append_left _ List.perm_append_comm)
    simpa using e1
  | case6 fuel u v e rest st hacc ih => exact absurd (hall u v e) hacc

/-! ### fuel -/

/-- number of entries of `nodes` that are not visited -/
def unv (nodes vis : List K) : Nat := nodes.countP (fun x => decide (x ∉ vis))

theorem unv_mono (nodes : List K) {vis vis' : List K} (h : ∀ x ∈ vis, x ∈ vis') : unv nodes vis' ≤ unv nodes vis := by
  unfold unv
  apply List.countP_mono_left
  intro x _ hx
  simp only [decide_eq_true_eq] at hx ⊢
  exact fun hv => hx (h x hv)

theorem unv_lt (nodes : List K) {vis : List K} {v : K} (hn : v ∈ nodes) (hv : v ∉ vis) :
    unv nodes (v :: vis) < unv nodes vis := by
  induction nodes with
  | nil => cases hn
  | cons a t ih =>
    have hle : unv t (v :: vis) ≤ unv t vis := unv_mono t (fun x hx => List.mem_cons_of_mem _ hx)
    unfold unv at ih hle ⊢
    simp only [List.countP_cons]
    by_cases hav : a = v
    · subst hav
      have e1 : decide (a ∉ a :: vis) = false := by simp
      have e2 : decide (a ∉ vis) = true := by simp [hv]
      rw [e1, e2]; simp only [Bool.false_eq_true, if_false, if_true]
      omega
    · have ht : v ∈ t := by
        rcases List.mem_cons.mp hn with h | h
        · exact absurd h.symm hav
        · exact h
      have := ih ht
      have e1 : decide (a ∉ v :: vis) = decide (a ∉ vis) := by simp [hav]
      rw [e1]
      omega

theorem ordEdges_fuel (c : Cfg K E) (post : Bool) (nodes : List K) (hc : Closed (accAdj c.adj c.acc) nodes)
    (fuel : Nat) (u : K) (l : List (K × E)) (st : TSt K E)
    (hu : u ∈ nodes) (hl : ∀ p ∈ l, p ∈ c.adj u) (hf : unv nodes st.vis < fuel) :
    ∃ st', ordEdges c post fuel u l st = some st' ∧ ∀ x ∈ st.vis, x ∈ st'.vis := by
  fun_induction ordEdges c post fuel u l st with
  | case1 fuel u st => exact ⟨st, rfl, fun _ h => h⟩
  | case2 => omega
  | case3 fuel u v e rest st hacc hv ih =>
    exact ih hu (fun p hp => hl p (List.mem_cons_of_mem _ hp)) hf
  | case4 fuel u v e rest st hacc hv hr ih =>
    have hvn : v ∈ nodes := hc u hu (v, e) (mem_accAdj.mpr ⟨hl _ List.mem_cons_self, hacc⟩)
    have hlt := unv_lt nodes hvn hv
    obtain ⟨s1, hs1, _⟩ := ih hvn (fun _ hp => hp) (by simp only; omega)
    rw [hr] at hs1; cases hs1
  | case5 fuel u v e rest st hacc hv st1 hr ih1 ih2 =>
    have hvn : v ∈ nodes := hc u hu (v, e) (mem_accAdj.mpr ⟨hl _ List.mem_cons_self, hacc⟩)
    have hlt := unv_lt nodes hvn hv
    obtain ⟨s1, hs1, hm1⟩ := ih1 hvn (fun _ hp => hp) (by simp only; omega)
    rw [hr] at hs1; cases hs1
    simp only at hm1
    have hle : unv nodes st1.vis ≤ unv nodes st.vis :=
      unv_mono nodes (fun x hx => hm1 x (List.mem_cons_of_mem _ hx))
    obtain ⟨s2, hs2, hm2⟩ := ih2 hu (fun p hp => hl p (List.mem_cons_of_mem _ hp)) (by simp only; omega)
    exact ⟨s2, hs2, fun x hx => hm2 x (hm1 x (List.mem_cons_of_mem _ hx))⟩
  | case6 fuel u v e rest st hacc ih =>
    exact ih hu (fun p hp => hl p (List.mem_cons_of_mem _ hp)) hf

/-! ## The entry points -/

theorem orderEdges_eq (adj : K → List (K × E)) (acc : K → K → E → Bool) (post : Bool) (root : K) (fuel : Nat) :
    orderEdges adj acc post root fuel =
      ordEdges { adj := adj, acc := acc, target := none } post fuel root (adj root) { vis := [root] } := by
  cases post
  · simp only [orderEdges, Bool.false_eq_true, if_false, preEdges_eq]
  · simp only [orderEdges, if_true, postEdges_eq]

theorem orderNodes_some {adj : K → List (K × E)} {acc : K → K → E → Bool} {post : Bool} {root : K} {fuel : Nat}
    {ns : List K} {st : TSt K E} (h : orderNodes adj acc post root fuel = some (ns, st)) :
    orderEdges adj acc post root fuel = some st ∧
      ns = (if post then st.tree.map tgt ++ [root] else root :: st.tree.map tgt) := by
  unfold orderNodes at h
  rcases hh : orderEdges adj acc post root fuel with _ | st0
  · rw [hh] at h; cases h
  · rw [hh] at h
    simp only [Option.map_some, Option.some.injEq, Prod.mk.injEq] at h
    obtain ⟨h1, h2⟩ := h
    subst h2
    exact ⟨rfl, h1.symm⟩

/-- the run is a complete `Dfs` from the root; the tree targets are its discovery resp. finishing list -/
theorem orderEdges_dfs {adj : K → List (K × E)} {acc : K → K → E → Bool} {post : Bool} {root : K} {fuel : Nat}
    {st : TSt K E} (h : orderEdges adj acc post root fuel = some st) :
    ∃ disc fin, Dfs (accAdj adj acc) [root] root disc fin st.vis ∧
      (post = false → disc = st.tree.map tgt) ∧ (post = true → fin = st.tree.map tgt ++ [root]) := by
  rw [orderEdges_eq] at h
  obtain ⟨new, disc, fin, ht, D, hd, hf⟩ :=
    ordEdges_dfs { adj := adj, acc := acc, target := none } post fuel root (adj root) { vis := [root] } st h
      (fun _ hp => hp) (fun p hp => Or.inr (mem_accAdj.mp hp).1)
  simp only [List.nil_append] at ht
  exact ⟨disc, fin, D, by rw [ht]; exact hd, by rw [ht]; exact hf⟩

theorem nodes_exactly_reach' (adj : K → List (K × E)) (acc : K → K → E → Bool) (post : Bool) (root : K)
    (fuel : Nat) (ns : List K) (st : TSt K E) (h : orderNodes adj acc post root fuel = some (ns, st)) :
    ns.Nodup ∧ (∀ x, x ∈ ns ↔ Reach (accAdj adj acc) root x) ∧
    (if post then ns.getLast? = some root else ns.head? = some root) := by
  obtain ⟨he, hns⟩ := orderNodes_some h
  obtain ⟨disc, fin, D, hd, hf⟩ := orderEdges_dfs he
  obtain ⟨hn, hm, hp, _, _, _⟩ := D.root_spec
  cases post
  · simp only [Bool.false_eq_true, if_false] at hns ⊢
    rw [hns, ← hd rfl]
    exact ⟨hn, hm, rfl⟩
  · simp only [if_true] at hns ⊢
    rw [hns, ← hf rfl]
    refine ⟨hp.nodup_iff.mpr hn, fun x => hp.mem_iff.trans (hm x), ?_⟩
    rw [hf rfl]; simp

theorem pre_is_dfs_discovery' (adj : K → List (K × E)) (acc : K → K → E → Bool) (root : K)
    (fuel : Nat) (ns : List K) (st : TSt K E) (h : orderNodes adj acc false root fuel = some (ns, st)) :
    ∃ disc fin vis', ns = root :: disc ∧ Dfs (accAdj adj acc) [root] root disc fin vis' := by
  obtain ⟨he, hns⟩ := orderNodes_some h
  obtain ⟨disc, fin, D, hd, _⟩ := orderEdges_dfs he
  refine ⟨disc, fin, st.vis, ?_, D⟩
  rw [hns, hd rfl]; rfl

theorem post_is_dfs_finishing' (adj : K → List (K × E)) (acc : K → K → E → Bool) (root : K)
    (fuel : Nat) (ns : List K) (st : TSt K E) (h : orderNodes adj acc true root fuel = some (ns, st)) :
    ∃ disc vis', Dfs (accAdj adj acc) [root] root disc ns vis' := by
  obtain ⟨he, hns⟩ := orderNodes_some h
  obtain ⟨disc, fin, D, _, hf⟩ := orderEdges_dfs he
  refine ⟨disc, st.vis, ?_⟩
  have : ns = fin := by rw [hns, hf rfl]; rfl
  rw [this]; exact D

theorem post_edge_property' (adj : K → List (K × E)) (acc : K → K → E → Bool) (root : K)
    (fuel : Nat) (ns : List K) (st : TSt K E) (h : orderNodes adj acc true root fuel = some (ns, st))
    (u v : K) (e : E) (hu : u ∈ ns) (he : (v, e) ∈ accAdj adj acc u) (_hne : u ≠ v) :
    Before ns v u ∨ Reach (accAdj adj acc) v u := by
  obtain ⟨disc, vis', D⟩ := Order.post_is_dfs_finishing' adj acc root fuel ns st h
  exact D.root_spec.2.2.2.2.2 u hu (v, e) he

theorem trace_sound (adj : K → List (K × E)) (acc : K → K → E → Bool) (post : Bool) (root : K) (fuel : Nat)
    (st : TSt K E) (h : orderEdges adj acc post root fuel = some st) :
    ∀ x ∈ st.trace, (x.2.1, x.2.2) ∈ adj x.1 := by
  rw [orderEdges_eq] at h
  exact (ordEdges_sound { adj := adj, acc := acc, target := none } post fuel root (adj root) { vis := [root] } st h
    (fun _ hp => hp) (by simp) (by simp)).2

theorem tree_accepted (adj : K → List (K × E)) (acc : K → K → E → Bool) (post : Bool) (root : K) (fuel : Nat)
    (st : TSt K E) (h : orderEdges adj acc post root fuel = some st) :
    ∀ x ∈ st.tree, (x.2.1, x.2.2) ∈ accAdj adj acc x.1 := by
  rw [orderEdges_eq] at h
  exact (ordEdges_sound { adj := adj, acc := acc, target := none } post fuel root (adj root) { vis := [root] } st h
    (fun _ hp => hp) (by simp) (by simp)).1

theorem edges_one_per_node' (adj : K → List (K × E)) (acc : K → K → E → Bool) (post : Bool) (root : K)
    (fuel : Nat) (st : TSt K E) (h : orderEdges adj acc post root fuel = some st) :
    orderNodes adj acc post root fuel =
      some (if post then st.tree.map (fun x => x.2.1) ++ [root] else root :: st.tree.map (fun x => x.2.1), st) ∧
    (∀ x ∈ st.tree, (x.2.1, x.2.2) ∈ accAdj adj acc x.1) ∧ (∀ x ∈ st.tree, x.2.1 ≠ root) := by
  refine ⟨by unfold orderNodes; rw [h]; rfl, Order.tree_accepted adj acc post root fuel st h, ?_⟩
  obtain ⟨disc, fin, D, hd, hf⟩ := orderEdges_dfs h
  obtain ⟨hn, _, hp, _, _, _⟩ := D.root_spec
  intro x hx hxr
  have hmem : tgt x ∈ st.tree.map tgt := List.mem_map_of_mem hx
  cases post
  · rw [hd rfl] at hn
    exact (List.nodup_cons.mp hn).1 (hxr ▸ hmem)
  · have hn' : (st.tree.map tgt ++ [root]).Nodup := by rw [← hf rfl]; exact hp.nodup_iff.mpr hn
    rw [List.nodup_append] at hn'
    exact hn'.2.2 _ hmem root (by simp) hxr

theorem fuel_enough' (adj : K → List (K × E)) (acc : K → K → E → Bool) (post : Bool) (root : K)
    (fuel : Nat) (nodes : List K)
    (hc : Closed (accAdj adj acc) nodes) (hr : root ∈ nodes) (hf : nodes.length < fuel) :
    (orderEdges adj acc post root fuel).isSome = true := by
  rw [orderEdges_eq]
  obtain ⟨st', hs, _⟩ := ordEdges_fuel { adj := adj, acc := acc, target := none } post nodes hc fuel root (adj root)
    { vis := [root] } hr (fun _ hp => hp)
    (Nat.lt_of_le_of_lt (List.countP_le_length) hf)
  rw [hs]; rfl

/-- with nothing rejected the callback sees every edge of every reachable node exactly once -/
theorem trace_perm (adj : K → List (K × E)) (post : Bool) (root : K) (fuel : Nat) (st : TSt K E)
    (h : orderEdges adj (fun _ _ _ => true) post root fuel = some st) :
    ∃ L : List K, L.Nodup ∧ (∀ u, u ∈ L ↔ Reach adj root u) ∧ st.trace.Perm (L.flatMap (edgesOf adj)) := by
  obtain ⟨disc, fin, D, _, _⟩ := orderEdges_dfs h
  rw [accAdj_true] at D
  obtain ⟨hn, hm, _, _, hv, _⟩ := D.root_spec
  rw [orderEdges_eq] at h
  obtain ⟨D', hD', hp⟩ := ordEdges_trace { adj := adj, acc := fun _ _ _ => true, target := none } post fuel root
    (adj root) { vis := [root] } st (fun _ _ _ => rfl) h
  simp only [List.nil_append] at hp hD'
  have hperm : (root :: disc).Perm st.vis := by
    rw [hv]
    exact (List.perm_append_comm (l₁ := [root]) (l₂ := disc)).trans
      ((List.reverse_perm disc).symm.append_right [root])
  refine ⟨st.vis, hperm.nodup_iff.mp hn, fun u => hperm.mem_iff.symm.trans (hm u), ?_⟩
  refine hp.trans ?_
  rw [hD', List.flatMap_append]
  simp only [List.flatMap_cons, List.flatMap_nil, List.append_nil]
  exact List.perm_append_comm

/-- **Changed statement** (the unconditional equation is false, see the counterexample below): the
    run over the pre-filtered lists can succeed with fuel that is too small for the unfiltered run,
    because a node whose edges are all rejected still costs the unfiltered loop one unit of fuel. -/
theorem filter_subgraph (adj : K → List (K × E)) (acc : K → K → E → Bool) (post : Bool) (root : K) (fuel : Nat)
    (hsome : (orderEdges adj acc post root fuel).isSome = true) :
    (orderEdges adj acc post root fuel).map (fun st => (st.vis, st.tree)) =
      (orderEdges (accAdj adj acc) (fun _ _ _ => true) post root fuel).map (fun st => (st.vis, st.tree)) := by
  obtain ⟨st, h⟩ := Option.isSome_iff_exists.mp hsome
  rw [h]
  rw [orderEdges_eq] at h
  obtain ⟨st2, h2, hv, ht⟩ := ordEdges_filter { adj := adj, acc := acc, target := none } post fuel root (adj root)
    { vis := [root] } st h { vis := [root] } rfl rfl
  have h2' : orderEdges (accAdj adj acc) (fun _ _ _ => true) post root fuel = some st2 := by
    rw [orderEdges_eq]; exact h2
  rw [h2']; simp only [Option.map_some, hv, ht]

/-- the same in the form used with a successful run at hand -/
theorem filter_subgraph_some (adj : K → List (K × E)) (acc : K → K → E → Bool) (post : Bool) (root : K)
    (fuel : Nat) (st : TSt K E) (h : orderEdges adj acc post root fuel = some st) :
    ∃ st2, orderEdges (accAdj adj acc) (fun _ _ _ => true) post root fuel = some st2 ∧
      st2.vis = st.vis ∧ st2.tree = st.tree := by
  have := Order.filter_subgraph adj acc post root fuel (by rw [h]; rfl)
  rw [h] at this
  rcases h2 : orderEdges (accAdj adj acc) (fun _ _ _ => true) post root fuel with _ | st2
  · rw [h2] at this; cases this
  · rw [h2] at this
    simp only [Option.map_some, Option.some.injEq, Prod.mk.injEq] at this
    exact ⟨st2, rfl, this.1.symm, this.2.symm⟩

/-- with the fuel of `Order.fuel_enough'` the equation holds as originally stated -/
theorem filter_subgraph_of_fuel (adj : K → List (K × E)) (acc : K → K → E → Bool) (post : Bool) (root : K)
    (fuel : Nat) (nodes : List K)
    (hc : Closed (accAdj adj acc) nodes) (hr : root ∈ nodes) (hf : nodes.length < fuel) :
    (orderEdges adj acc post root fuel).map (fun st => (st.vis, st.tree)) =
      (orderEdges (accAdj adj acc) (fun _ _ _ => true) post root fuel).map (fun st => (st.vis, st.tree)) :=
  Order.filter_subgraph adj acc post root fuel (Order.fuel_enough' adj acc post root fuel nodes hc hr hf)

/-- counterexample to the unconditional `filter_subgraph`: `0 → 1` accepted, `1 → 0` rejected, fuel 1.
    The unfiltered run needs a unit of fuel to look at (and reject) the edge of node 1. -/
example : orderEdges (K := Nat) (E := Nat) (fun u => if u = 0 then [(1, 0)] else [(0, 0)])
    (fun u _ _ => u == 0) true 0 1 = none := by simp [orderEdges, postEdges]
example : ((orderEdges (K := Nat) (E := Nat) (accAdj (fun u => if u = 0 then [(1, 0)] else [(0, 0)])
    (fun u _ _ => u == 0)) (fun _ _ _ => true) true 0 1).map (fun st => (st.vis, st.tree))) =
    some ([1, 0], [(0, 1, 0)]) := by simp [orderEdges, postEdges, accAdj]

end Order

end G

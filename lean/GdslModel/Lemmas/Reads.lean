import GdslModel.Lemmas.Conc
/-!
# Write-free lock programs leave the store alone (C17, core Lean only)
-/
namespace G
set_option linter.unusedSectionVars false
variable {K E : Type} [DecidableEq K]

/-- a lock program that contains no `write`, whatever it reads -/
inductive NoWrite {R : Type} : Prog K E R → Prop where
  | done {r : R} : NoWrite (.done r)
  | acq {l : Lk K} {m : Mode} {p : Prog K E R} : NoWrite p → NoWrite (.acq l m p)
  | rel {l : Lk K} {p : Prog K E R} : NoWrite p → NoWrite (.rel l p)
  | read {c : Store K E → Prog K E R} : (∀ s, NoWrite (c s)) → NoWrite (.read c)

theorem NoWrite.bind {R S : Type} {p : Prog K E R} {f : R → Prog K E S} (hp : NoWrite p) (hf : ∀ r, NoWrite (f r)) :
    NoWrite (p.bind f) := by
  induction hp with
  | done => exact hf _
  | acq _ ih => exact .acq ih
  | rel _ ih => exact .rel ih
  | read _ ih => exact .read ih

namespace Conc

theorem noWrite_query {R : Type} (u : K) (f : Adj K E → R) : NoWrite (Sync.query u f) :=
  .acq (.read fun _ => .rel .done)

theorem noWrite_iterNext (u : K) (sel : Adj K E → List (K × E)) (pos : Nat) : NoWrite (Sync.iterNext u sel pos) :=
  noWrite_query u _

theorem noWrite_di_isOrphan (u : K) : NoWrite (Sync.Di.isOrphan (E := E) u) := by
  unfold Sync.Di.isOrphan
  apply NoWrite.bind (noWrite_query u _)
  intro r
  cases r
  · exact .done
  · simpa using noWrite_query u _

theorem noWrite_seqProg {R : Type} (ps : List (Prog K E R)) (h : ∀ p ∈ ps, NoWrite p) : NoWrite (seqProg ps) := by
  induction ps with
  | nil => exact .done
  | cons p ps ih =>
    unfold seqProg
    apply NoWrite.bind (h p (by simp))
    intro r
    apply NoWrite.bind (ih (fun q hq => h q (List.mem_cons_of_mem _ hq)))
    intro rs
    exact .done

/-- one event of a thread running a write-free program: the store stays, the rest is write-free -/
theorem noWrite_tstep {R : Type} {s s' : Store K E} {o : Held K} {t t' : Th K E R} (h : NoWrite t.prog)
    (hs : TStep s o t s' t') : s' = s ∧ NoWrite t'.prog := by
  cases hs with
  | acq hc => cases h with | acq hp => exact ⟨rfl, hp⟩
  | rel => cases h with | rel hp => exact ⟨rfl, hp⟩
  | read => cases h with | read hk => exact ⟨rfl, hk _⟩
  | write => cases h

theorem reads_inert' {R : Type} (c c' : Conf K E R) (i : Nat) (t : Th K E R) (ht : c.threads[i]? = some t)
    (hn : NoWrite t.prog) (hs : c.step i = some c') :
    c'.store = c.store ∧ ∃ t', c'.threads = c.threads.set i t' ∧ NoWrite t'.prog := by
  obtain ⟨t0, t', ht0, hstep, hth⟩ := step_inv hs
  rw [ht] at ht0
  cases ht0
  obtain ⟨h1, h2⟩ := noWrite_tstep hn hstep
  exact ⟨h1, t', hth, h2⟩

/-- all threads run write-free programs -/
def AllReaders {R : Type} (c : Conf K E R) : Prop := ∀ t ∈ c.threads, NoWrite t.prog

theorem AllReaders.step {R : Type} {c c' : Conf K E R} {i : Nat} (h : AllReaders c) (hs : c.step i = some c') :
    c'.store = c.store ∧ AllReaders c' := by
  obtain ⟨t, _, ht, _, _⟩ := step_inv hs
  obtain ⟨h1, t', hth, h2⟩ := reads_inert' c c' i t ht (h t (List.mem_of_getElem? ht)) hs
  refine ⟨h1, ?_⟩
  intro x hx
  rw [hth] at hx
  rcases List.mem_or_eq_of_mem_set hx with hx | hx
  · exact h x hx
  · exact hx ▸ h2

theorem AllReaders.runSched {R : Type} {c : Conf K E R} (h : AllReaders c) (sched : List Nat) :
    (c.runSched sched).store = c.store ∧ AllReaders (c.runSched sched) := by
  induction sched generalizing c with
  | nil => exact ⟨rfl, h⟩
  | cons i rest ih =>
    unfold Conf.runSched
    cases hs : c.step i with
    | none => exact ih h
    | some c' =>
      obtain ⟨h1, h2⟩ := h.step hs
      obtain ⟨h3, h4⟩ := ih h2
      exact ⟨by simpa [h1] using h3, h4⟩

end Conc
end G

import GdslModel.Lemmas.Store
import GdslModel.Lemmas.Di
import GdslModel.Lemmas.Un
/-!
# Additional lemmas: the keys of a history, sub-stores, reachability against the edge direction,
degree sums (core Lean only)
-/
namespace G
set_option linter.unusedSectionVars false
variable {K E : Type} [DecidableEq K]

/-! ### the keys a history mentions -/

/-- the operands of one edge operation -/
def Op.keys : Op K E → List K
  | .connect u v _ => [u, v]
  | .tryConnect u v _ => [u, v]
  | .disconnect u v => [u, v]
  | .isolate u => [u]

/-- the operands of the operations of a history, in order (with repetitions) -/
def opKeys (ops : List (Op K E)) : List K := ops.flatMap Op.keys

omit [DecidableEq K] in
@[simp] theorem opKeys_nil : opKeys ([] : List (Op K E)) = [] := rfl
omit [DecidableEq K] in
@[simp] theorem opKeys_cons (op : Op K E) (ops : List (Op K E)) : opKeys (op :: ops) = op.keys ++ opKeys ops := by
  simp [opKeys]
omit [DecidableEq K] in
@[simp] theorem opKeys_append (l₁ l₂ : List (Op K E)) : opKeys (l₁ ++ l₂) = opKeys l₁ ++ opKeys l₂ := by
  simp [opKeys]

/-! ### sub-stores: operations that only remove entries -/

/-- every entry of `s'` is an entry (same node, same list) of `s` -/
def Sub (s' s : Store K E) : Prop :=
  ∀ k, (∀ p ∈ (s'.get k).out, p ∈ (s.get k).out) ∧ (∀ p ∈ (s'.get k).inn, p ∈ (s.get k).inn)

theorem Sub.refl (s : Store K E) : Sub s s := fun _ => ⟨fun _ h => h, fun _ h => h⟩

theorem Sub.trans {s₁ s₂ s₃ : Store K E} (h₁ : Sub s₁ s₂) (h₂ : Sub s₂ s₃) : Sub s₁ s₃ :=
  fun k => ⟨fun p hp => (h₂ k).1 p ((h₁ k).1 p hp), fun p hp => (h₂ k).2 p ((h₁ k).2 p hp)⟩

theorem removeFirst_mem (l : List (K × E)) (k : K) (e : E) (l' : List (K × E))
    (h : removeFirst l k = some (e, l')) : ∀ p ∈ l', p ∈ l := by
  rw [removeFirst_eraseKey l k e l' h]
  intro p hp
  exact List.mem_of_mem_eraseP hp

theorem Sub.set_out (s : Store K E) (v : K) (l : List (K × E)) (h : ∀ p ∈ l, p ∈ (s.get v).out) :
    Sub (s.set v { s.get v with out := l }) s := by
  intro k
  rw [get_set]
  by_cases hk : k = v
  · subst hk; simpa using h
  · simp [hk]

theorem Sub.set_inn (s : Store K E) (v : K) (l : List (K × E)) (h : ∀ p ∈ l, p ∈ (s.get v).inn) :
    Sub (s.set v { s.get v with inn := l }) s := by
  intro k
  rw [get_set]
  by_cases hk : k = v
  · subst hk; simpa using h
  · simp [hk]

theorem Sub.set_empty (s : Store K E) (v : K) : Sub (s.set v {}) s := by
  intro k
  rw [get_set]
  by_cases hk : k = v
  · subst hk; simp
  · simp [hk]

theorem Di.disconnect_sub (s : Store K E) (u v : K) : Sub (Di.disconnect s u v).1 s := by
  unfold Di.disconnect
  split
  · split
    · exact Sub.refl s
    · rename_i e out' h1
      have hs1 := Sub.set_out s u out' (removeFirst_mem _ _ _ _ h1)
      dsimp only
      split
      · exact hs1
      · rename_i e' inn' h2
        exact (Sub.set_inn _ v inn' (removeFirst_mem _ _ _ _ h2)).trans hs1
  · exact Sub.refl s

theorem Di.isoOutLoop_sub (u : K) (fuel pos : Nat) (s : Store K E) : Sub (Di.isoOutLoop u fuel pos s).1 s := by
  fun_induction Di.isoOutLoop u fuel pos s with
  | case1 => exact Sub.refl _
  | case2 => exact Sub.refl _
  | case3 => exact Sub.refl _
  | case4 fuel pos s v _ _ _ inn' h2 ih => exact ih.trans (Sub.set_inn _ v inn' (removeFirst_mem _ _ _ _ h2))

theorem Di.isoInLoop_sub (u : K) (fuel pos : Nat) (s : Store K E) : Sub (Di.isoInLoop u fuel pos s).1 s := by
  fun_induction Di.isoInLoop u fuel pos s with
  | case1 => exact Sub.refl _
  | case2 => exact Sub.refl _
  | case3 => exact Sub.refl _
  | case4 fuel pos s v _ _ _ out' h2 ih => exact ih.trans (Sub.set_out _ v out' (removeFirst_mem _ _ _ _ h2))

theorem Di.isolate_sub (s : Store K E) (u : K) : Sub (Di.isolate s u).1 s := by
  unfold Di.isolate
  have h1 := Di.isoOutLoop_sub u (s.get u).out.length 0 s
  rcases ho : Di.isoOutLoop u (s.get u).out.length 0 s with ⟨s1, b1⟩
  rw [ho] at h1
  cases b1 with
  | true => exact h1
  | false =>
    dsimp only
    have h2 := Di.isoInLoop_sub u (s1.get u).inn.length 0 s1
    rcases hi : Di.isoInLoop u (s1.get u).inn.length 0 s1 with ⟨s2, b2⟩
    rw [hi] at h2
    cases b2 with
    | true => exact h2.trans h1
    | false => exact ((Sub.set_empty s2 u).trans h2).trans h1

theorem Un.disconnect_sub (s : Store K E) (u v : K) : Sub (Un.disconnect s u v).1 s := by
  unfold Un.disconnect
  split
  · split
    · rename_i e inn' h1
      have hs1 := Sub.set_inn s u inn' (removeFirst_mem _ _ _ _ h1)
      dsimp only
      split
      · exact hs1
      · rename_i e' out' h2
        exact (Sub.set_out _ v out' (removeFirst_mem _ _ _ _ h2)).trans hs1
    · split
      · exact Sub.refl s
      · rename_i e out' h1
        have hs1 := Sub.set_out s u out' (removeFirst_mem _ _ _ _ h1)
        dsimp only
        split
        · exact hs1
        · rename_i e' inn' h2
          exact (Sub.set_inn _ v inn' (removeFirst_mem _ _ _ _ h2)).trans hs1
  · exact Sub.refl s

theorem Un.isoLoop_sub (u : K) (fuel pos : Nat) (s : Store K E) : Sub (Un.isoLoop u fuel pos s).1 s := by
  fun_induction Un.isoLoop u fuel pos s with
  | case1 => exact Sub.refl _
  | case2 => exact Sub.refl _
  | case3 fuel pos s a v _ _ _ inn' h2 ih => exact ih.trans (Sub.set_inn _ v inn' (removeFirst_mem _ _ _ _ h2))
  | case4 => exact Sub.refl _
  | case5 fuel pos s a v _ _ _ _ out' h2 ih => exact ih.trans (Sub.set_out _ v out' (removeFirst_mem _ _ _ _ h2))

theorem Un.isolate_sub (s : Store K E) (u : K) : Sub (Un.isolate s u).1 s := by
  unfold Un.isolate
  dsimp only
  have h1 := Un.isoLoop_sub u ((s.get u).out.length + (s.get u).inn.length) 0 s
  rcases ho : Un.isoLoop u ((s.get u).out.length + (s.get u).inn.length) 0 s with ⟨s1, b1⟩
  rw [ho] at h1
  cases b1 with
  | true => exact h1
  | false => exact (Sub.set_empty s1 u).trans h1

/-! ### every stored entry names an operand of the history -/

/-- every adjacency entry of `s` names a key in `ks` -/
def KeysIn (s : Store K E) (ks : List K) : Prop :=
  ∀ k p, p ∈ (s.get k).out ++ (s.get k).inn → p.1 ∈ ks

theorem KeysIn.empty (ks : List K) : KeysIn ({} : Store K E) ks := by
  intro k p hp; simp at hp

theorem KeysIn.of_sub {s' s : Store K E} {ks : List K} (h : KeysIn s ks) (hs : Sub s' s) : KeysIn s' ks := by
  intro k p hp
  rw [List.mem_append] at hp
  apply h k p
  rw [List.mem_append]
  rcases hp with hp | hp
  · exact Or.inl ((hs k).1 p hp)
  · exact Or.inr ((hs k).2 p hp)

theorem KeysIn.connect {s : Store K E} {ks : List K} (h : KeysIn s ks) (u v : K) (e : E)
    (hu : u ∈ ks) (hv : v ∈ ks) : KeysIn (connect s u v e) ks := by
  intro k p hp
  rw [(connect_spec' s u v e k).1, (connect_spec' s u v e k).2] at hp
  have hk := h k p
  simp only [List.mem_append] at hp hk
  rcases hp with hp | hp
  · split at hp
    · rw [List.mem_append] at hp
      rcases hp with hp | hp
      · exact hk (Or.inl hp)
      · simp at hp; subst hp; exact hv
    · exact hk (Or.inl hp)
  · split at hp
    · rw [List.mem_append] at hp
      rcases hp with hp | hp
      · exact hk (Or.inr hp)
      · simp at hp; subst hp; exact hu
    · exact hk (Or.inr hp)

theorem Di.step_keysIn {s : Store K E} {ks : List K} (h : KeysIn s ks) (op : Op K E)
    (hop : ∀ k ∈ op.keys, k ∈ ks) : KeysIn (Di.step s op).1 ks := by
  cases op with
  | connect u v e => exact h.connect u v e (hop u (by simp [Op.keys])) (hop v (by simp [Op.keys]))
  | tryConnect u v e =>
    simp only [Di.step, Di.tryConnect]
    split
    · exact h
    · exact h.connect u v e (hop u (by simp [Op.keys])) (hop v (by simp [Op.keys]))
  | disconnect u v => exact h.of_sub (Di.disconnect_sub s u v)
  | isolate u => exact h.of_sub (Di.isolate_sub s u)

theorem Un.step_keysIn {s : Store K E} {ks : List K} (h : KeysIn s ks) (op : Op K E)
    (hop : ∀ k ∈ op.keys, k ∈ ks) : KeysIn (Un.step s op).1 ks := by
  cases op with
  | connect u v e => exact h.connect u v e (hop u (by simp [Op.keys])) (hop v (by simp [Op.keys]))
  | tryConnect u v e =>
    simp only [Un.step, Un.tryConnect]
    split
    · exact h
    · exact h.connect u v e (hop u (by simp [Op.keys])) (hop v (by simp [Op.keys]))
  | disconnect u v => exact h.of_sub (Un.disconnect_sub s u v)
  | isolate u => exact h.of_sub (Un.isolate_sub s u)

theorem Di.foldl_keysIn (ops : List (Op K E)) (s : Store K E) (ks : List K) (h : KeysIn s ks)
    (hops : ∀ k ∈ opKeys ops, k ∈ ks) : KeysIn (ops.foldl (fun s op => (Di.step s op).1) s) ks := by
  induction ops generalizing s with
  | nil => exact h
  | cons op ops ih =>
    rw [List.foldl_cons]
    apply ih
    · exact Di.step_keysIn h op (fun k hk => hops k (by simp [hk]))
    · exact fun k hk => hops k (by simp [hk])

theorem Un.foldl_keysIn (ops : List (Op K E)) (s : Store K E) (ks : List K) (h : KeysIn s ks)
    (hops : ∀ k ∈ opKeys ops, k ∈ ks) : KeysIn (ops.foldl (fun s op => (Un.step s op).1) s) ks := by
  induction ops generalizing s with
  | nil => exact h
  | cons op ops ih =>
    rw [List.foldl_cons]
    apply ih
    · exact Un.step_keysIn h op (fun k hk => hops k (by simp [hk]))
    · exact fun k hk => hops k (by simp [hk])

theorem Di.run_keysIn (ops : List (Op K E)) : KeysIn (Di.run ops) (opKeys ops) :=
  Di.foldl_keysIn ops {} (opKeys ops) (KeysIn.empty _) (fun _ h => h)

theorem Un.run_keysIn (ops : List (Op K E)) : KeysIn (Un.run ops) (opKeys ops) :=
  Un.foldl_keysIn ops {} (opKeys ops) (KeysIn.empty _) (fun _ h => h)

/-- a store whose entries all name keys of `ks` is closed on every list that contains `ks`,
    whatever the filter, in all three iteration modes -/
theorem KeysIn.closed {s : Store K E} {ks : List K} (h : KeysIn s ks) (acc : K → K → E → Bool) (nodes : List K)
    (hsub : ∀ k ∈ ks, k ∈ nodes) :
    Closed (accAdj (outAdj s) acc) nodes ∧ Closed (accAdj (inAdj s) acc) nodes ∧ Closed (accAdj (unAdj s) acc) nodes := by
  refine ⟨?_, ?_, ?_⟩ <;> intro u _ p hp <;> apply hsub <;> apply h u p
  · simp only [accAdj, outAdj, List.mem_filter] at hp; simp [hp.1]
  · simp only [accAdj, inAdj, List.mem_filter] at hp; simp [hp.1]
  · simp only [accAdj, unAdj, List.mem_filter] at hp; exact hp.1

theorem mem_eraseDups_opKeys (ops : List (Op K E)) (k : K) : k ∈ (opKeys ops).eraseDups ↔ k ∈ opKeys ops :=
  List.mem_eraseDups

/-- the three adjacencies of a graph built by a history are closed on every list containing the history's keys -/
theorem history_closed (ops : List (Op K E)) (acc : K → K → E → Bool) (nodes : List K)
    (hk : ∀ k ∈ opKeys ops, k ∈ nodes) :
    Closed (accAdj (outAdj (Di.run ops)) acc) nodes ∧ Closed (accAdj (inAdj (Di.run ops)) acc) nodes ∧
    Closed (accAdj (unAdj (Un.run ops)) acc) nodes :=
  ⟨((Di.run_keysIn ops).closed acc nodes hk).1, ((Di.run_keysIn ops).closed acc nodes hk).2.1,
   ((Un.run_keysIn ops).closed acc nodes hk).2.2⟩

theorem history_closed_eraseDups (ops : List (Op K E)) (acc : K → K → E → Bool) :
    Closed (accAdj (outAdj (Di.run ops)) acc) (opKeys ops).eraseDups ∧
    Closed (accAdj (inAdj (Di.run ops)) acc) (opKeys ops).eraseDups ∧
    Closed (accAdj (unAdj (Un.run ops)) acc) (opKeys ops).eraseDups :=
  history_closed ops acc _ (fun k hk => (mem_eraseDups_opKeys ops k).mpr hk)

/-! ### reachability against the edge direction (C08) -/

theorem reach_append {adj : K → List (K × E)} {a b c : K} (h₁ : Reach adj a b) (h₂ : Reach adj b c) : Reach adj a c := by
  induction h₂ with
  | refl => exact h₁
  | step _ he ih => exact .step ih he

theorem reach_cons {adj : K → List (K × E)} {a b c : K} {e : E} (he : (b, e) ∈ adj a) (h : Reach adj b c) :
    Reach adj a c :=
  reach_append (.step (.refl a) he) h

/-- if every edge of `A`, reversed, is an edge of `B`, reachability in `A` is backwards reachability in `B` -/
theorem reach_reverse_of {A B : K → List (K × E)} (hrev : ∀ u v e, (v, e) ∈ A u → (u, e) ∈ B v) {a b : K}
    (h : Reach A a b) : Reach B b a := by
  induction h with
  | refl => exact .refl _
  | step _ he ih => exact reach_cons (hrev _ _ _ he) ih

/-- mirror invariant, entry-wise: `v` lists `u` as a source (value `e`) iff `u` lists `v` as a target (value `e`) -/
theorem mem_inn_iff_mem_out (s : Store K E) (h : Mirror s) (u v : K) (e : E) :
    (u, e) ∈ (s.get v).inn ↔ (v, e) ∈ (s.get u).out := by
  have h1 : (u, e) ∈ (s.get v).inn ↔ e ∈ vals (s.get v).inn u := by
    simp [vals, List.mem_map, List.mem_filter]
  have h2 : (v, e) ∈ (s.get u).out ↔ e ∈ vals (s.get u).out v := by
    simp [vals, List.mem_map, List.mem_filter]
  rw [h1, h2, h u v]

theorem mem_accAdj_inn_iff (s : Store K E) (h : Mirror s) (acc : K → K → E → Bool) (u v : K) (e : E) :
    (u, e) ∈ accAdj (inAdj s) acc v ↔ (v, e) ∈ accAdj (outAdj s) (fun a b x => acc b a x) u := by
  simp only [accAdj, inAdj, outAdj, List.mem_filter]
  rw [mem_inn_iff_mem_out s h u v e]

theorem reach_inn_iff (s : Store K E) (h : Mirror s) (acc : K → K → E → Bool) (a b : K) :
    Reach (accAdj (inAdj s) acc) a b ↔ Reach (accAdj (outAdj s) (fun u v e => acc v u e)) b a := by
  constructor
  · exact reach_reverse_of (fun u v e he => (mem_accAdj_inn_iff s h acc v u e).mp he)
  · exact reach_reverse_of (fun u v e he => (mem_accAdj_inn_iff s h acc u v e).mpr he)

theorem accAdj_true (adj : K → List (K × E)) : accAdj adj (fun _ _ _ => true) = adj := by
  funext u; simp [accAdj]

/-! ### closed walks in a symmetric adjacency (C09) -/

theorem walk_nil_eq {adj : K → List (K × E)} {a b : K} {p : List (Edge K E)} (h : Walk adj a b p) (hp : p = []) : a = b := by
  cases h with
  | nil => rfl
  | snoc _ _ => simp at hp

/-- a non-empty walk leaves its first node through one of that node's entries -/
theorem walk_first {adj : K → List (K × E)} {a b : K} {p : List (Edge K E)} (h : Walk adj a b p) (hp : p ≠ []) :
    adj a ≠ [] := by
  induction h with
  | nil => exact absurd rfl hp
  | @snoc b c e p hw he ih =>
    by_cases hq : p = []
    · have := walk_nil_eq hw hq
      subst this
      exact List.ne_nil_of_mem he
    · exact ih hq

/-- with mirrored lists every half-edge has its opposite half at the peer -/
theorem unAdj_symm (s : Store K E) (h : Mirror s) (u v : K) (e : E) (he : (v, e) ∈ unAdj s u) : (u, e) ∈ unAdj s v := by
  simp only [unAdj, List.mem_append] at he ⊢
  rcases he with he | he
  · exact Or.inr ((mem_inn_iff_mem_out s h u v e).mpr he)
  · exact Or.inl ((mem_inn_iff_mem_out s h v u e).mp he)

theorem cycle_undirected_iff (s : Store K E) (h : Mirror s) (r : K) :
    (∃ q, IsPath (unAdj s) r r q) ↔ unAdj s r ≠ [] := by
  constructor
  · rintro ⟨q, hq, hw⟩
    exact walk_first hw hq
  · intro hne
    obtain ⟨⟨v, e⟩, hv⟩ := List.exists_mem_of_ne_nil _ hne
    have hback := unAdj_symm s h r v e hv
    exact ⟨([] ++ [(r, v, e)]) ++ [(v, r, e)], by simp, .snoc (.snoc (.nil r) hv) hback⟩

/-! ### degree sums (C01) -/

theorem sum_map_add {α : Type} (l : List α) (f g : α → Nat) :
    (l.map (fun x => f x + g x)).sum = (l.map f).sum + (l.map g).sum := by
  induction l with
  | nil => rfl
  | cons a t ih => simp only [List.map_cons, List.sum_cons, ih]; omega

theorem sum_map_zero {α : Type} (l : List α) : (l.map (fun _ => 0)).sum = 0 := by
  induction l with
  | nil => rfl
  | cons a t ih => simp only [List.map_cons, List.sum_cons, ih]

theorem sum_map_swap {α β : Type} (l₁ : List α) (l₂ : List β) (f : α → β → Nat) :
    (l₁.map (fun a => (l₂.map (fun b => f a b)).sum)).sum = (l₂.map (fun b => (l₁.map (fun a => f a b)).sum)).sum := by
  induction l₁ with
  | nil => simp only [List.map_nil, List.sum_nil]; exact (sum_map_zero l₂).symm
  | cons a t ih =>
    simp only [List.map_cons, List.sum_cons, ih]
    exact (sum_map_add l₂ (fun b => f a b) (fun b => (t.map (fun a => f a b)).sum)).symm

theorem sum_indicator (ks : List K) (k : K) (hnd : ks.Nodup) (hk : k ∈ ks) :
    (ks.map (fun v => if k = v then 1 else 0)).sum = 1 := by
  induction ks with
  | nil => simp at hk
  | cons a t ih =>
    rw [List.nodup_cons] at hnd
    simp only [List.map_cons, List.sum_cons]
    by_cases hka : k = a
    · subst hka
      have e0 : t.map (fun v => if k = v then 1 else 0) = t.map (fun _ => 0) := by
        apply List.map_congr_left
        intro v hv
        have : k ≠ v := fun h => hnd.1 (h ▸ hv)
        simp [this]
      have : (t.map (fun v => if k = v then 1 else 0)).sum = 0 := by rw [e0, sum_map_zero]
      simp [this]
    · have hk' : k ∈ t := by
        rcases List.mem_cons.mp hk with h | h
        · exact absurd h hka
        · exact h
      simp [hka, ih hnd.2 hk']

/-- a list whose keys all lie in the duplicate-free `ks` is as long as its per-key value lists together -/
theorem length_eq_sum_vals (l : List (K × E)) (ks : List K) (hnd : ks.Nodup) (hl : ∀ p ∈ l, p.1 ∈ ks) :
    l.length = (ks.map (fun v => (vals l v).length)).sum := by
  induction l with
  | nil => simp [sum_map_zero]
  | cons p t ih =>
    obtain ⟨k, e⟩ := p
    have hk : k ∈ ks := hl (k, e) (by simp)
    have ht := ih (fun p hp => hl p (List.mem_cons_of_mem _ hp))
    have : (fun v => (vals ((k, e) :: t) v).length) = (fun v => (if k = v then 1 else 0) + (vals t v).length) := by
      funext v
      rw [vals_cons]
      by_cases hkv : k = v <;> simp [hkv]; omega
    rw [this, sum_map_add, sum_indicator ks k hnd hk, ← ht]
    simp; omega

theorem degree_balance' (s : Store K E) (h : Mirror s) (ks : List K) (hnd : ks.Nodup)
    (hc : ∀ k ∈ ks, ∀ p ∈ (s.get k).out ++ (s.get k).inn, p.1 ∈ ks) :
    (ks.map (fun k => (s.get k).out.length)).sum = (ks.map (fun k => (s.get k).inn.length)).sum := by
  have h1 : ks.map (fun k => (s.get k).out.length) =
      ks.map (fun k => (ks.map (fun v => (vals (s.get k).out v).length)).sum) := by
    apply List.map_congr_left
    intro k hk
    exact length_eq_sum_vals _ ks hnd (fun p hp => hc k hk p (List.mem_append_left _ hp))
  have h2 : ks.map (fun v => (s.get v).inn.length) =
      ks.map (fun v => (ks.map (fun k => (vals (s.get v).inn k).length)).sum) := by
    apply List.map_congr_left
    intro v hv
    exact length_eq_sum_vals _ ks hnd (fun p hp => hc v hv p (List.mem_append_right _ hp))
  rw [h1, h2, sum_map_swap]
  congr 1
  apply List.map_congr_left
  intro v _
  congr 1
  apply List.map_congr_left
  intro k _
  rw [h k v]

/-! ### lists with the same per-key values are permutations of each other (C12) -/

theorem removeFirst_perm (l : List (K × E)) (k : K) (e : E) (l' : List (K × E))
    (h : removeFirst l k = some (e, l')) : l.Perm ((k, e) :: l') := by
  induction l generalizing e l' with
  | nil => simp [removeFirst] at h
  | cons p t ih =>
    obtain ⟨k', e0⟩ := p
    simp only [removeFirst] at h
    split at h
    · rename_i hk
      simp only [Option.some.injEq, Prod.mk.injEq] at h
      obtain ⟨rfl, rfl⟩ := h
      subst hk
      exact List.Perm.refl _
    · cases hr : removeFirst t k with
      | none => simp [hr] at h
      | some x =>
        obtain ⟨e1, t1⟩ := x
        simp only [hr, Option.some.injEq, Prod.mk.injEq] at h
        obtain ⟨rfl, rfl⟩ := h
        exact ((ih _ _ hr).cons _).trans (List.Perm.swap _ _ _)

theorem perm_of_vals_eq (l₁ l₂ : List (K × E)) (h : ∀ u, vals l₁ u = vals l₂ u) : l₁.Perm l₂ := by
  induction l₁ generalizing l₂ with
  | nil =>
    have : l₂ = [] := eq_nil_of_vals_nil l₂ (fun k => by rw [← h k]; rfl)
    rw [this]
  | cons p t ih =>
    obtain ⟨k, e⟩ := p
    have hk : vals l₂ k = e :: vals t k := by rw [← h k, vals_cons]; simp
    have hr := removeFirst_of_vals l₂ k e _ hk
    have hp := removeFirst_perm l₂ k e _ hr
    refine List.Perm.trans (List.Perm.cons _ (ih (eraseKey l₂ k) ?_)) hp.symm
    intro u
    rw [vals_eraseKey]
    by_cases hu : u = k
    · subst hu; simp [hk]
    · have := h u
      rw [vals_cons] at this
      have hku : ¬ k = u := fun h => hu h.symm
      simp only [hku, if_false] at this
      simp [hu, this]

/-! ### handshake for the undirected flavours -/

/-- undirected handshake: over a closed duplicate-free node set the degrees add up to twice the number of
    edges (every edge is stored once as an outbound half, at the endpoint that made it) -/
theorem Un.handshake' (s : Store K E) (h : Mirror s) (ks : List K) (hnd : ks.Nodup)
    (hc : ∀ k ∈ ks, ∀ p ∈ unAdj s k, p.1 ∈ ks) :
    (ks.map fun k => (unAdj s k).length).sum = 2 * (ks.map fun k => (s.get k).out.length).sum := by
  have hb := degree_balance' s h ks hnd hc
  have : (ks.map fun k => (unAdj s k).length) =
      ks.map fun k => (s.get k).out.length + (s.get k).inn.length := by
    apply List.map_congr_left; intro k _; simp [unAdj]
  rw [this, sum_map_add, ← hb]; omega

/-! ### connect followed by disconnect -/

theorem eraseKey_append_absent (l : List (K × E)) (k : K) (e : E) (h : vals l k = []) :
    eraseKey (l ++ [(k, e)]) k = l := by
  have h' := (vals_eq_nil_iff l k).1 h
  unfold eraseKey
  rw [List.eraseP_append_right _ (by intro b hb; simpa using h' b hb)]
  simp [List.eraseP]

/-- adding an edge `u→v` where there was none and disconnecting it again gives back the value and leaves
    every list of every node exactly as it was -/
theorem Di.connect_disconnect' (s : Store K E) (h : Mirror s) (u v : K) (e : E)
    (hn : vals (s.get u).out v = []) :
    (Di.disconnect (connect s u v e) u v).2 = .val e ∧
    ∀ w, ((Di.disconnect (connect s u v e) u v).1.get w).out = (s.get w).out ∧
         ((Di.disconnect (connect s u v e) u v).1.get w).inn = (s.get w).inn := by
  have hm := connect_mirror s u v e h
  have hc := connect_spec' s u v e
  have hv : vals ((connect s u v e).get u).out v = e :: [] := by
    rw [(hc u).1]; simp only [if_true, vals_append, hn]; simp [vals]
  have hd := Di.disconnect_found' (connect s u v e) hm u v e [] hv
  refine ⟨hd.1, fun w => ?_⟩
  have hni : vals (s.get v).inn u = [] := by rw [← h u v]; exact hn
  rw [(hd.2 w).1, (hd.2 w).2, (hc w).1, (hc w).2]
  constructor
  · by_cases hw : w = u
    · subst hw; simp only [if_true]; exact eraseKey_append_absent _ _ _ hn
    · simp [hw]
  · by_cases hw : w = v
    · subst hw; simp only [if_true]; exact eraseKey_append_absent _ _ _ hni
    · simp [hw]

/-- undirected: connecting `u`-`v` where `u` lists no edge to `v` in either orientation and disconnecting again
    (from the same endpoint) gives back the value and leaves every list as it was, self-loop included -/
theorem Un.connect_disconnect' (s : Store K E) (h : Mirror s) (u v : K) (e : E)
    (hn : vals (unAdj s u) v = []) :
    (Un.disconnect (connect s u v e) u v).2 = .val e ∧
    ∀ w, ((Un.disconnect (connect s u v e) u v).1.get w).out = (s.get w).out ∧
         ((Un.disconnect (connect s u v e) u v).1.get w).inn = (s.get w).inn := by
  have hm := connect_mirror s u v e h
  have hc := connect_spec' s u v e
  simp only [unAdj, vals_append, List.append_eq_nil_iff] at hn
  obtain ⟨hno, hni⟩ := hn
  have hvo : vals (s.get v).inn u = [] := by rw [← h u v]; exact hno
  by_cases huv : u = v
  · subst huv
    have hv : vals ((connect s u u e).get u).inn u = e :: [] := by
      rw [(hc u).2]; simp only [if_true, vals_append, hni]; simp [vals]
    have hd := Un.disconnect_found_inbound' (connect s u u e) hm u u e [] hv
    refine ⟨hd.1, fun w => ?_⟩
    rw [(hd.2 w).1, (hd.2 w).2, (hc w).1, (hc w).2]
    by_cases hw : w = u
    · subst hw; simp only [if_true]
      exact ⟨eraseKey_append_absent _ _ _ hno, eraseKey_append_absent _ _ _ hni⟩
    · simp [hw]
  · have hi : vals ((connect s u v e).get u).inn v = [] := by
      rw [(hc u).2]; simp only [huv, if_false]; exact hni
    have hv : vals ((connect s u v e).get u).out v = e :: [] := by
      rw [(hc u).1]; simp only [if_true, vals_append, hno]; simp [vals]
    have hd := Un.disconnect_found_outbound' (connect s u v e) hm u v e [] hi hv
    refine ⟨hd.1, fun w => ?_⟩
    rw [(hd.2 w).1, (hd.2 w).2, (hc w).1, (hc w).2]
    constructor
    · by_cases hw : w = u
      · subst hw; simp only [if_true]; exact eraseKey_append_absent _ _ _ hno
      · simp [hw]
    · by_cases hw : w = v
      · subst hw; simp only [if_true]; exact eraseKey_append_absent _ _ _ hvo
      · simp [hw]

theorem dropKey_idem (l : List (K × E)) (k : K) : dropKey (dropKey l k) k = dropKey l k := by
  unfold dropKey; rw [List.filter_filter]; congr 1; funext p; simp

/-- `isolate` is idempotent: a second call finds nothing to remove and changes no list -/
theorem Di.isolate_idem' (s : Store K E) (h : Mirror s) (u : K) :
    ∀ w, ((Di.isolate (Di.isolate s u).1 u).1.get w).out = ((Di.isolate s u).1.get w).out ∧
         ((Di.isolate (Di.isolate s u).1 u).1.get w).inn = ((Di.isolate s u).1.get w).inn := by
  have h1 := Di.isolate_spec' s h u
  have hm : Mirror (Di.isolate s u).1 := Di.step_mirror s (.isolate u) h
  have h2 := Di.isolate_spec' (Di.isolate s u).1 hm u
  intro w
  rw [(h2.2 w).1, (h2.2 w).2, (h1.2 w).1, (h1.2 w).2]
  by_cases hw : w = u
  · simp [hw]
  · simp [hw, dropKey_idem]

/-- undirected `isolate` is idempotent -/
theorem Un.isolate_idem' (s : Store K E) (h : Mirror s) (u : K) :
    ∀ w, ((Un.isolate (Un.isolate s u).1 u).1.get w).out = ((Un.isolate s u).1.get w).out ∧
         ((Un.isolate (Un.isolate s u).1 u).1.get w).inn = ((Un.isolate s u).1.get w).inn := by
  have h1 := Un.isolate_spec' s h u
  have hm : Mirror (Un.isolate s u).1 := Un.step_mirror s (.isolate u) h
  have h2 := Un.isolate_spec' (Un.isolate s u).1 hm u
  intro w
  rw [(h2.2 w).1, (h2.2 w).2, (h1.2 w).1, (h1.2 w).2]
  by_cases hw : w = u
  · simp [hw]
  · simp [hw, dropKey_idem]

/-- after `isolate` the node is an orphan and no node lists it any more (directed) -/
theorem Di.isolate_orphan' (s : Store K E) (h : Mirror s) (u : K) :
    ((Di.isolate s u).1.get u).out = [] ∧ ((Di.isolate s u).1.get u).inn = [] ∧
    ∀ w, vals ((Di.isolate s u).1.get w).out u = [] ∧ vals ((Di.isolate s u).1.get w).inn u = [] := by
  have h1 := Di.isolate_spec' s h u
  refine ⟨by rw [(h1.2 u).1]; simp, by rw [(h1.2 u).2]; simp, fun w => ?_⟩
  rw [(h1.2 w).1, (h1.2 w).2]
  by_cases hw : w = u
  · simp [hw, vals]
  · simp [hw, vals, dropKey, List.filter_filter]

/-- after an undirected `isolate` the node has degree 0 and no node lists it in either orientation -/
theorem Un.isolate_orphan' (s : Store K E) (h : Mirror s) (u : K) :
    unAdj (Un.isolate s u).1 u = [] ∧ ∀ w, vals (unAdj (Un.isolate s u).1 w) u = [] := by
  have h1 := Un.isolate_spec' s h u
  refine ⟨by simp [unAdj, (h1.2 u).1, (h1.2 u).2], fun w => ?_⟩
  simp only [unAdj, vals_append, (h1.2 w).1, (h1.2 w).2]
  by_cases hw : w = u
  · simp [hw, vals]
  · simp [hw, vals, dropKey, List.filter_filter]
/-! ### degree sums after a history -/

theorem Di.degree_balance_run' (ops : List (Op K E)) (ks : List K) (hnd : ks.Nodup)
    (hk : ∀ k ∈ opKeys ops, k ∈ ks) :
    (ks.map fun k => ((Di.run ops).get k).out.length).sum = (ks.map fun k => ((Di.run ops).get k).inn.length).sum :=
  degree_balance' _ (Di.run_mirror ops) ks hnd (fun k _ p hp => hk _ (Di.run_keysIn ops k p hp))

theorem Un.handshake_history' (ops : List (Op K E)) (ks : List K) (hnd : ks.Nodup)
    (hk : ∀ k ∈ opKeys ops, k ∈ ks) :
    (ks.map fun k => (unAdj (Un.run ops) k).length).sum = 2 * (ks.map fun k => ((Un.run ops).get k).out.length).sum :=
  Un.handshake' _ (Un.run_mirror ops) ks hnd (fun k _ p hp => hk _ (Un.run_keysIn ops k p hp))

/-- whatever the first `try_connect` did, a second one for the same pair is refused and changes nothing -/
theorem Di.tryConnect_twice' (s : Store K E) (u v : K) (e e' : E) :
    Di.tryConnect (Di.tryConnect s u v e).1 u v e' = ((Di.tryConnect s u v e).1, .exists_) := by
  rw [Di.tryConnect_spec' s u v e]
  by_cases h : vals (s.get u).out v ≠ []
  · rw [if_pos h, Di.tryConnect_spec', if_pos h]
  · rw [if_neg h, Di.tryConnect_spec']
    have hc := (connect_spec' s u v e u).1
    have : vals ((connect s u v e).get u).out v ≠ [] := by
      rw [hc]; simp [vals]
    rw [if_pos this]

/-- undirected: a second `try_connect` for the same pair is refused and changes nothing -/
theorem Un.tryConnect_twice' (s : Store K E) (u v : K) (e e' : E) :
    Un.tryConnect (Un.tryConnect s u v e).1 u v e' = ((Un.tryConnect s u v e).1, .exists_) := by
  rw [Un.tryConnect_spec' s u v e]
  by_cases h : vals (unAdj s u) v ≠ []
  · rw [if_pos h, Un.tryConnect_spec', if_pos h]
  · rw [if_neg h, Un.tryConnect_spec']
    have hc := (connect_spec' s u v e u).1
    have : vals (unAdj (connect s u v e) u) v ≠ [] := by
      simp only [unAdj, vals_append]; rw [hc]; simp [vals]
    rw [if_pos this]
end G

import GdslModel.Model.Spec
import GdslModel.Lemmas.Store
/-!
# Lemmas for the directed flavours (and the parts shared with the undirected ones)
-/
namespace G
variable {K E : Type} [DecidableEq K]

/-! ### connect (all flavours) -/

theorem connect_spec' (s : Store K E) (u v : K) (e : E) (w : K) :
    ((connect s u v e).get w).out = (if w = u then (s.get w).out ++ [(v, e)] else (s.get w).out) ∧
    ((connect s u v e).get w).inn = (if w = v then (s.get w).inn ++ [(u, e)] else (s.get w).inn) := by
  simp only [connect, get_set]
  by_cases hwu : w = u <;> by_cases hwv : w = v <;> by_cases hvu : v = u <;> simp_all

theorem mirror_empty' : Mirror ({} : Store K E) := by intro a b; simp

theorem connect_mirror (s : Store K E) (u v : K) (e : E) (h : Mirror s) : Mirror (connect s u v e) := by
  intro a b
  have hab := h a b
  rw [(connect_spec' s u v e a).1, (connect_spec' s u v e b).2]
  by_cases hau : a = u <;> by_cases hbv : b = v
  · subst hau; subst hbv; simp [hab]
  · subst hau; simp [hbv, hab, vals_single_other v b e (Ne.symm hbv)]
  · subst hbv; simp [hau, hab, vals_single_other u a e (Ne.symm hau)]
  · simp [hau, hbv, hab]

/-! ### transfer of `Mirror` along the list-level contracts -/

/-- removing the first `u→v` entry at both ends keeps the store mirrored -/
theorem mirror_of_erase (s s' : Store K E) (h : Mirror s) (u v : K)
    (hout : ∀ w, (s'.get w).out = if w = u then eraseKey (s.get w).out v else (s.get w).out)
    (hinn : ∀ w, (s'.get w).inn = if w = v then eraseKey (s.get w).inn u else (s.get w).inn) :
    Mirror s' := by
  intro a b
  have hab := h a b
  rw [hout a, hinn b]
  by_cases hau : a = u <;> by_cases hbv : b = v
  · subst hau; subst hbv; simp [vals_eraseKey, hab]
  · subst hau; simp [hbv, vals_eraseKey, hab]
  · subst hbv; simp [hau, vals_eraseKey, hab]
  · simp [hau, hbv, hab]

/-- dropping every entry that mentions `u` keeps the store mirrored -/
theorem mirror_of_drop (s s' : Store K E) (h : Mirror s) (u : K)
    (hout : ∀ w, (s'.get w).out = if w = u then [] else dropKey (s.get w).out u)
    (hinn : ∀ w, (s'.get w).inn = if w = u then [] else dropKey (s.get w).inn u) :
    Mirror s' := by
  intro a b
  have hab := h a b
  rw [hout a, hinn b]
  by_cases hau : a = u <;> by_cases hbu : b = u
  · simp [hau, hbu]
  · subst hau; simp [hbu, vals_dropKey]
  · subst hbu; simp [hau, vals_dropKey]
  · simp [hau, hbu, vals_dropKey, hab]

namespace Di

theorem mirror_empty : Mirror ({} : Store K E) := mirror_empty'

theorem isConnected_iff (s : Store K E) (u v : K) : isConnected s u v = true ↔ vals (s.get u).out v ≠ [] :=
  hasKey_iff_vals _ _

theorem isConnected_false_iff (s : Store K E) (u v : K) : isConnected s u v = false ↔ vals (s.get u).out v = [] :=
  hasKey_false_iff_vals _ _

/-! ### tryConnect / disconnect -/

theorem tryConnect_spec' (s : Store K E) (u v : K) (e : E) :
    Di.tryConnect s u v e =
      if vals (s.get u).out v ≠ [] then (s, .exists_) else (connect s u v e, .unit) := by
  unfold tryConnect
  by_cases hc : vals (s.get u).out v = []
  · have := (isConnected_false_iff s u v).mpr hc
    simp [hc, this]
  · have := (isConnected_iff s u v).mpr hc
    simp [hc, this]

theorem disconnect_absent' (s : Store K E) (u v : K) (he : vals (s.get u).out v = []) :
    Di.disconnect s u v = (s, .notFound) := by
  have := (isConnected_false_iff s u v).mpr he
  simp [disconnect, this]

theorem disconnect_found' (s : Store K E) (h : Mirror s) (u v : K) (e : E) (t : List E)
    (he : vals (s.get u).out v = e :: t) :
    (Di.disconnect s u v).2 = .val e ∧
    ∀ w, ((Di.disconnect s u v).1.get w).out = (if w = u then eraseKey (s.get w).out v else (s.get w).out) ∧
         ((Di.disconnect s u v).1.get w).inn = (if w = v then eraseKey (s.get w).inn u else (s.get w).inn) := by
  have hc : isConnected s u v = true := (isConnected_iff s u v).mpr (by rw [he]; simp)
  have h1 := removeFirst_of_vals _ _ _ _ he
  have hinn1 : ((s.set u { s.get u with out := eraseKey (s.get u).out v }).get v).inn = (s.get v).inn := by
    simp only [get_set]; split <;> simp_all
  have h2 : removeFirst ((s.set u { s.get u with out := eraseKey (s.get u).out v }).get v).inn u
      = some (e, eraseKey (s.get v).inn u) := by
    rw [hinn1]; exact removeFirst_of_vals _ _ _ t (by rw [← h u v]; exact he)
  have hres : Di.disconnect s u v =
      ((s.set u { s.get u with out := eraseKey (s.get u).out v }).set v
        { (s.set u { s.get u with out := eraseKey (s.get u).out v }).get v with
          inn := eraseKey (s.get v).inn u }, .val e) := by
    simp only [disconnect, hc, if_true, h1, h2]
  rw [hres]
  refine ⟨rfl, fun w => ?_⟩
  simp only [get_set]
  by_cases hwu : w = u <;> by_cases hwv : w = v <;> by_cases hvu : v = u <;> simp_all

theorem disconnect_mirror (s : Store K E) (u v : K) (h : Mirror s) : Mirror (disconnect s u v).1 := by
  rcases hv : vals (s.get u).out v with _ | ⟨e, t⟩
  · rw [disconnect_absent' s u v hv]; exact h
  · have := (disconnect_found' s h u v e t hv).2
    exact mirror_of_erase s _ h u v (fun w => (this w).1) (fun w => (this w).2)

theorem disconnect_ne_panic (s : Store K E) (u v : K) : (disconnect s u v).2 ≠ .panic := by
  unfold disconnect
  split
  · split
    · simp
    · simp only []
      split <;> simp
  · simp

/-! ### isolate: the two positional loops -/

/-- state of the first loop at position `pos`, relative to the start state `s0` -/
structure OutInv (s0 : Store K E) (u : K) (pos : Nat) (s : Store K E) : Prop where
  out_eq : ∀ b, (s.get b).out = (s0.get b).out
  inn_u : ∀ b, vals (s.get b).inn u = vals ((s0.get u).out.drop pos) b
  inn_drop : ∀ b, dropKey (s.get b).inn u = dropKey (s0.get b).inn u

theorem OutInv.init (s : Store K E) (h : Mirror s) (u : K) : OutInv s u 0 s :=
  ⟨fun _ => rfl, fun b => by simpa using (h u b).symm, fun _ => rfl⟩

theorem OutInv.removable {s0 s : Store K E} {u : K} {pos : Nat} (hinv : OutInv s0 u pos s)
    {v : K} {e : E} (hget : (s0.get u).out[pos]? = some (v, e)) : vals (s.get v).inn u ≠ [] := by
  rw [hinv.inn_u v, vals_drop_getElem _ pos v e hget v]; simp

theorem OutInv.step {s0 s : Store K E} {u : K} {pos : Nat} (hinv : OutInv s0 u pos s)
    {v : K} {e e' : E} {inn' : List (K × E)} (hget : (s0.get u).out[pos]? = some (v, e))
    (hr : removeFirst (s.get v).inn u = some (e', inn')) :
    OutInv s0 u (pos + 1) (s.set v { s.get v with inn := inn' }) := by
  have hd := vals_drop_getElem _ pos v e hget
  obtain ⟨r1, _⟩ := removeFirst_some _ _ _ _ hr
  constructor
  · intro b; simp only [get_set]; split <;> simp_all [hinv.out_eq]
  · intro b
    simp only [get_set]
    by_cases hb : b = v
    · subst hb; simp only [if_true]
      have := hinv.inn_u b; rw [r1, hd b] at this; simp at this; exact this.2
    · simp only [hb, if_false]; rw [hinv.inn_u b, hd b]; simp [Ne.symm hb]
  · intro b
    simp only [get_set]
    by_cases hb : b = v
    · subst hb; simp only [if_true]; rw [removeFirst_dropKey _ _ _ _ hr]; exact hinv.inn_drop b
    · simp only [hb, if_false]; exact hinv.inn_drop b

/-- at the end of the first loop every inbound list has lost exactly its `u` entries -/
theorem OutInv.final {s0 s : Store K E} {u : K} (hinv : OutInv s0 u (s0.get u).out.length s) (b : K) :
    (s.get b).inn = dropKey (s0.get b).inn u := by
  have h0 : vals (s.get b).inn u = [] := by simpa using hinv.inn_u b
  rw [← hinv.inn_drop b, dropKey_eq_self _ _ h0]

theorem isoOutLoop_spec (s0 : Store K E) (u : K) (fuel pos : Nat) (s : Store K E)
    (hinv : OutInv s0 u pos s) (hfuel : pos + fuel = (s0.get u).out.length) :
    ∃ s', isoOutLoop u fuel pos s = (s', false) ∧ OutInv s0 u (s0.get u).out.length s' := by
  induction fuel generalizing pos s with
  | zero => exact ⟨s, rfl, by simpa [← hfuel] using hinv⟩
  | succ fuel ih =>
    simp only [isoOutLoop]
    rw [hinv.out_eq u]
    have hlt : pos < (s0.get u).out.length := by omega
    have hget : (s0.get u).out[pos]? = some ((s0.get u).out[pos]) := List.getElem?_eq_getElem hlt
    rcases hv : (s0.get u).out[pos] with ⟨v, e⟩
    rw [hv] at hget
    simp only [hget]
    obtain ⟨⟨e', inn'⟩, hr⟩ := Option.isSome_iff_exists.mp (removeFirst_isSome _ _ (hinv.removable hget))
    simp only [hr]
    exact ih (pos + 1) _ (hinv.step hget hr) (by omega)

/-- state of the second loop, relative to its start state `s1` (which has no inbound `u` entry left) -/
structure InInv (s1 : Store K E) (u : K) (pos : Nat) (s : Store K E) : Prop where
  inn_eq : ∀ b, (s.get b).inn = (s1.get b).inn
  out_u : ∀ b, b ≠ u → vals (s.get b).out u = vals ((s1.get u).inn.drop pos) b
  out_drop : ∀ b, dropKey (s.get b).out u = dropKey (s1.get b).out u

/-- an entry at a position of a list without `u` entries has a key different from `u` -/
theorem key_ne_of_getElem? (l : List (K × E)) (u : K) (hself : vals l u = []) (pos : Nat) (v : K) (e : E)
    (hget : l[pos]? = some (v, e)) : v ≠ u := by
  intro hvu; subst hvu
  exact vals_ne_nil_of_mem l v e (List.mem_of_getElem? hget) hself

theorem InInv.removable {s1 s : Store K E} {u : K} {pos : Nat} (hinv : InInv s1 u pos s)
    {v : K} {e : E} (hvu : v ≠ u) (hget : (s1.get u).inn[pos]? = some (v, e)) : vals (s.get v).out u ≠ [] := by
  rw [hinv.out_u v hvu, vals_drop_getElem _ pos v e hget v]; simp

theorem InInv.step {s1 s : Store K E} {u : K} {pos : Nat} (hinv : InInv s1 u pos s)
    {v : K} {e e' : E} {out' : List (K × E)} (hget : (s1.get u).inn[pos]? = some (v, e))
    (hr : removeFirst (s.get v).out u = some (e', out')) :
    InInv s1 u (pos + 1) (s.set v { s.get v with out := out' }) := by
  have hd := vals_drop_getElem _ pos v e hget
  obtain ⟨r1, _⟩ := removeFirst_some _ _ _ _ hr
  constructor
  · intro b; simp only [get_set]; split <;> simp_all [hinv.inn_eq]
  · intro b hbu
    simp only [get_set]
    by_cases hb : b = v
    · subst hb; simp only [if_true]
      have := hinv.out_u b hbu; rw [r1, hd b] at this; simp at this; exact this.2
    · simp only [hb, if_false]; rw [hinv.out_u b hbu, hd b]; simp [Ne.symm hb]
  · intro b
    simp only [get_set]
    by_cases hb : b = v
    · subst hb; simp only [if_true]; rw [removeFirst_dropKey _ _ _ _ hr]; exact hinv.out_drop b
    · simp only [hb, if_false]; exact hinv.out_drop b

theorem InInv.final {s1 s : Store K E} {u : K} (hinv : InInv s1 u (s1.get u).inn.length s) (b : K)
    (hbu : b ≠ u) : (s.get b).out = dropKey (s1.get b).out u := by
  have h0 : vals (s.get b).out u = [] := by simpa using hinv.out_u b hbu
  rw [← hinv.out_drop b, dropKey_eq_self _ _ h0]

theorem isoInLoop_spec (s1 : Store K E) (u : K) (hself : vals (s1.get u).inn u = [])
    (fuel pos : Nat) (s : Store K E)
    (hinv : InInv s1 u pos s) (hfuel : pos + fuel = (s1.get u).inn.length) :
    ∃ s', isoInLoop u fuel pos s = (s', false) ∧ InInv s1 u (s1.get u).inn.length s' := by
  induction fuel generalizing pos s with
  | zero => exact ⟨s, rfl, by simpa [← hfuel] using hinv⟩
  | succ fuel ih =>
    simp only [isoInLoop]
    rw [hinv.inn_eq u]
    have hlt : pos < (s1.get u).inn.length := by omega
    have hget : (s1.get u).inn[pos]? = some ((s1.get u).inn[pos]) := List.getElem?_eq_getElem hlt
    rcases hv : (s1.get u).inn[pos] with ⟨v, e⟩
    rw [hv] at hget
    simp only [hget]
    have hvu : v ≠ u := key_ne_of_getElem? _ u hself pos v e hget
    obtain ⟨⟨e', out'⟩, hr⟩ :=
      Option.isSome_iff_exists.mp (removeFirst_isSome _ _ (hinv.removable hvu hget))
    simp only [hr]
    exact ih (pos + 1) _ (hinv.step hget hr) (by omega)

/-- start of the second loop from the end state of the first -/
theorem InInv.init (s s1 : Store K E) (h : Mirror s) (u : K) (i1 : OutInv s u (s.get u).out.length s1) :
    InInv s1 u 0 s1 := by
  refine ⟨fun _ => rfl, fun b hb => ?_, fun _ => rfl⟩
  simp only [List.drop_zero]
  rw [i1.out_eq b, i1.final u, vals_dropKey, if_neg hb]
  exact h b u

theorem isolate_spec' (s : Store K E) (h : Mirror s) (u : K) :
    (Di.isolate s u).2 = .unit ∧
    ∀ w, ((Di.isolate s u).1.get w).out = (if w = u then [] else dropKey (s.get w).out u) ∧
         ((Di.isolate s u).1.get w).inn = (if w = u then [] else dropKey (s.get w).inn u) := by
  obtain ⟨s1, e1, i1⟩ := isoOutLoop_spec s u (s.get u).out.length 0 s (OutInv.init s h u) (by omega)
  have hself : vals (s1.get u).inn u = [] := by simpa using i1.inn_u u
  obtain ⟨s2, e2, i2⟩ := isoInLoop_spec s1 u hself (s1.get u).inn.length 0 s1
    (InInv.init s s1 h u i1) (by omega)
  have hres : isolate s u = (s2.set u {}, .unit) := by simp only [isolate, e1, e2]
  rw [hres]
  refine ⟨rfl, fun w => ?_⟩
  simp only [get_set]
  by_cases hwu : w = u
  · simp [hwu]
  · simp only [hwu, if_false]
    exact ⟨by rw [i2.final w hwu, i1.out_eq w], by rw [i2.inn_eq w, i1.final w]⟩

theorem isolate_mirror (s : Store K E) (u : K) (h : Mirror s) : Mirror (isolate s u).1 :=
  have := (isolate_spec' s h u).2
  mirror_of_drop s _ h u (fun w => (this w).1) (fun w => (this w).2)

/-! ### steps and histories -/

theorem step_mirror (s : Store K E) (op : Op K E) (h : Mirror s) : Mirror (Di.step s op).1 := by
  cases op with
  | connect u v e => exact connect_mirror s u v e h
  | tryConnect u v e =>
    simp only [step, tryConnect]
    split
    · exact h
    · exact connect_mirror s u v e h
  | disconnect u v => exact disconnect_mirror s u v h
  | isolate u => exact isolate_mirror s u h

theorem foldl_mirror (ops : List (Op K E)) (s : Store K E) (h : Mirror s) :
    Mirror (ops.foldl (fun s op => (Di.step s op).1) s) := by
  induction ops generalizing s with
  | nil => exact h
  | cons op t ih => exact ih _ (step_mirror s op h)

theorem run_mirror (ops : List (Op K E)) : Mirror (Di.run ops) :=
  foldl_mirror ops _ mirror_empty

theorem step_no_panic (s : Store K E) (op : Op K E) (h : Mirror s) : (Di.step s op).2 ≠ .panic := by
  cases op with
  | connect u v e => simp [step]
  | tryConnect u v e => simp only [step, tryConnect]; split <;> simp
  | disconnect u v => exact disconnect_ne_panic s u v
  | isolate u => simp only [step]; rw [(isolate_spec' s h u).1]; simp

/-! ### consequences of `Mirror` -/

theorem connected_iff_inbound' (s : Store K E) (h : Mirror s) (u v : K) :
    Di.isConnected s u v = hasKey (s.get v).inn u :=
  hasKey_congr _ _ _ _ (h u v)

theorem pair_multiplicity' (s : Store K E) (h : Mirror s) (u v : K) :
    ((s.get u).out.filter (fun p => p.1 = v)).length = ((s.get v).inn.filter (fun p => p.1 = u)).length := by
  rw [← vals_length, ← vals_length, h u v]

theorem root_iff' (s : Store K E) (h : Mirror s) (v : K) :
    (s.get v).inn = [] ↔ ∀ u, vals (s.get u).out v = [] := by
  constructor
  · intro hi u; rw [h u v, hi]; rfl
  · intro hall; exact eq_nil_of_vals_nil _ (fun k => by rw [← h k v]; exact hall k)

theorem leaf_iff' (s : Store K E) (h : Mirror s) (u : K) :
    (s.get u).out = [] ↔ ∀ v, vals (s.get v).inn u = [] := by
  constructor
  · intro ho v; rw [← h u v, ho]; rfl
  · intro hall; exact eq_nil_of_vals_nil _ (fun k => by rw [h u k]; exact hall k)

end Di
end G

namespace G
variable {K E : Type} [DecidableEq K]

theorem swapStore_get (s : Store K E) (k : K) :
    (swapStore s).get k = { out := (s.get k).inn, inn := (s.get k).out } := by
  unfold swapStore Store.get
  simp only [List.find?_map]
  cases h : List.find? ((fun p => decide (p.1 = k)) ∘ fun p : K × Adj K E => (p.1, ({ out := p.2.inn, inn := p.2.out } : Adj K E))) s.cells with
  | none =>
    have h' : List.find? (fun p => decide (p.1 = k)) s.cells = none := by
      simpa [Function.comp_def] using h
    simp [h']
  | some p =>
    have h' : List.find? (fun p => decide (p.1 = k)) s.cells = some p := by
      simpa [Function.comp_def] using h
    simp [h']

theorem Transpose.eq_swap' (s : Store K E) : inAdj s = outAdj (swapStore s) ∧ outAdj s = inAdj (swapStore s) := by
  constructor <;> funext k <;> simp [inAdj, outAdj, swapStore_get]

theorem Transpose.swap_reverses' (s : Store K E) (h : Mirror s) (u v : K) (e : E) :
    (u, e) ∈ outAdj (swapStore s) v ↔ (v, e) ∈ outAdj s u := by
  simp only [outAdj, swapStore_get]
  have hm := h u v
  have h1 : (u, e) ∈ (s.get v).inn ↔ e ∈ vals (s.get v).inn u := by
    simp [vals, List.mem_map, List.mem_filter]
  have h2 : (v, e) ∈ (s.get u).out ↔ e ∈ vals (s.get u).out v := by
    simp [vals, List.mem_map, List.mem_filter]
  rw [h1, h2, hm]

end G

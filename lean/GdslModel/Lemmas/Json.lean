import GdslModel.Model.Json
import GdslModel.Lemmas.Serde
/-!
# Lemmas about the byte-level JSON model (C12, C13)
-/
namespace G
namespace Json

/-! ## digits -/

theorem digitsVal_snoc (ds : List Nat) (d : Nat) : digitsVal (ds ++ [d]) = digitsVal ds * 10 + d := by
  unfold digitsVal
  rw [List.foldl_append]
  rfl

theorem digitsVal_digits (n : Nat) : digitsVal (digits n) = n := by
  fun_induction digits n with
  | case1 n h => simp [digitsVal]
  | case2 n h ih => rw [digitsVal_snoc, ih]; omega

theorem digits_lt (n : Nat) : ∀ d ∈ digits n, d < 10 := by
  fun_induction digits n with
  | case1 n h => intro d hd; simp at hd; omega
  | case2 n h ih =>
    intro d hd
    rw [List.mem_append] at hd
    rcases hd with hd | hd
    · exact ih d hd
    · simp at hd; omega

theorem digits_shape (n : Nat) : ∃ h t, digits n = h :: t ∧ (h = 0 → n = 0) ∧ (n < 10 → t = []) := by
  fun_induction digits n with
  | case1 n h => exact ⟨n, [], rfl, fun h => h, fun _ => rfl⟩
  | case2 n h ih =>
    obtain ⟨a, t, he, h0, _⟩ := ih
    refine ⟨a, t ++ [n % 10], by rw [he]; rfl, fun ha => ?_, fun hn => absurd hn h⟩
    have := h0 ha
    omega

theorem closeNum_digits (neg : Bool) (n : Nat) :
    closeNum (some (neg, digits n)) = some [.num neg (digits n)] := by
  obtain ⟨a, t, he, h0, ht⟩ := digits_shape n
  rw [he]
  cases t with
  | nil => cases a <;> rfl
  | cons b t =>
    cases a with
    | zero => have := h0 rfl; subst this; simp at ht
    | succ a => rfl

/-! ## the lexer on printed numbers -/

theorem isDigit_add48 (d : Nat) (h : d < 10) : isDigit (d + 48) = true := by
  simp [isDigit]; omega

theorem lex_digits_acc (neg : Bool) (acc ds : List Nat) (rest : List Nat) (h : ∀ d ∈ ds, d < 10) :
    lex (some (neg, acc)) (ds.map (· + 48) ++ rest) = lex (some (neg, acc ++ ds)) rest := by
  induction ds generalizing acc with
  | nil => simp
  | cons d ds ih =>
    have hd : d < 10 := h d (by simp)
    simp only [List.map_cons, List.cons_append]
    rw [lex]
    simp only [isDigit_add48 d hd, if_true, Nat.add_sub_cancel]
    rw [ih (acc ++ [d]) (fun x hx => h x (by simp [hx]))]
    simp

theorem lex_digits_none (ds : List Nat) (rest : List Nat) (h : ∀ d ∈ ds, d < 10) (hne : ds ≠ []) :
    lex none (ds.map (· + 48) ++ rest) = lex (some (false, ds)) rest := by
  cases ds with
  | nil => exact absurd rfl hne
  | cons d ds =>
    have hd : d < 10 := h d (by simp)
    simp only [List.map_cons, List.cons_append]
    rw [lex]
    simp only [isDigit_add48 d hd, if_true, Nat.add_sub_cancel]
    rw [lex_digits_acc false [d] ds rest (fun x hx => h x (by simp [hx]))]
    rfl

theorem digits_ne_nil (n : Nat) : digits n ≠ [] := by
  obtain ⟨a, t, he, _⟩ := digits_shape n
  rw [he]; simp

/-- the delimiter bytes after a number: `,` and `]` -/
def delimTok (b : Nat) : Option Tok := if b = 44 then some .comma else if b = 93 then some .rb else none

theorem lex_close (neg : Bool) (n : Nat) (b : Nat) (t : Tok) (hb : delimTok b = some t) (rest : List Nat) :
    lex (some (neg, digits n)) (b :: rest) = (lex none rest).map (fun ts => .num neg (digits n) :: t :: ts) := by
  unfold delimTok at hb
  rw [lex]
  split at hb
  · subst b; cases hb
    simp [isDigit, isWs, closeNum_digits]
  · split at hb
    · subst b; cases hb
      simp [isDigit, isWs, closeNum_digits]
    · cases hb

theorem lex_pNat (n : Nat) (b : Nat) (t : Tok) (hb : delimTok b = some t) (rest : List Nat) :
    lex none (pNat n ++ b :: rest) = (lex none rest).map (fun ts => .num false (digits n) :: t :: ts) := by
  unfold pNat
  rw [lex_digits_none _ _ (digits_lt n) (digits_ne_nil n), lex_close false n b t hb]

/-- sign and digits of an integer literal -/
def iNeg : Int → Bool
  | .ofNat _ => false
  | .negSucc _ => true
def iDig : Int → List Nat
  | .ofNat n => digits n
  | .negSucc n => digits (n + 1)
/-- the token of an integer -/
def tInt (i : Int) : Tok := .num (iNeg i) (iDig i)

theorem lex_pInt (i : Int) (b : Nat) (t : Tok) (hb : delimTok b = some t) (rest : List Nat) :
    lex none (pInt i ++ b :: rest) = (lex none rest).map (fun ts => tInt i :: t :: ts) := by
  cases i with
  | ofNat n => exact lex_pNat n b t hb rest
  | negSucc n =>
    simp only [pInt, tInt, iNeg, iDig, List.cons_append]
    rw [lex]
    simp only [isDigit]
    simp only [show ¬ (48 ≤ 45) by omega, decide_false, Bool.false_and, if_true, Bool.false_eq_true, if_false]
    unfold pNat
    rw [lex_digits_acc true [] _ _ (digits_lt _), List.nil_append, lex_close true _ b t hb]

/-! ## the lexer on a printed document -/

def tNode (p : Nat × Int) : List Tok := [.lb, .num false (digits p.1), .comma, tInt p.2, .rb]
def tEdge (p : Nat × Nat × Nat) : List Tok :=
  [.lb, .num false (digits p.1), .comma, .num false (digits p.2.1), .comma, .num false (digits p.2.2), .rb]

def tSep : List (List Tok) → List Tok
  | [] => []
  | [x] => x
  | x :: y :: rest => x ++ .comma :: tSep (y :: rest)

theorem lex_lb (rest : List Nat) : lex none (91 :: rest) = (lex none rest).map (.lb :: ·) := by
  rw [lex]; simp [isDigit, isWs, closeNum]
theorem lex_rb (rest : List Nat) : lex none (93 :: rest) = (lex none rest).map (.rb :: ·) := by
  rw [lex]; simp [isDigit, isWs, closeNum]
theorem lex_comma (rest : List Nat) : lex none (44 :: rest) = (lex none rest).map (.comma :: ·) := by
  rw [lex]; simp [isDigit, isWs, closeNum]

theorem lex_pNode (p : Nat × Int) (rest : List Nat) :
    lex none (pNode p ++ rest) = (lex none rest).map (tNode p ++ ·) := by
  unfold pNode
  simp only [List.cons_append, List.append_assoc, List.nil_append]
  rw [lex_lb, lex_pNat _ 44 .comma rfl, lex_pInt _ 93 .rb rfl]
  cases lex none rest <;> simp [tNode]

theorem lex_pEdge (p : Nat × Nat × Nat) (rest : List Nat) :
    lex none (pEdge p ++ rest) = (lex none rest).map (tEdge p ++ ·) := by
  unfold pEdge
  simp only [List.cons_append, List.append_assoc, List.nil_append]
  rw [lex_lb, lex_pNat _ 44 .comma rfl, lex_pNat _ 44 .comma rfl, lex_pNat _ 93 .rb rfl]
  cases lex none rest <;> simp [tEdge]

theorem lex_commaSep {α : Type} (f : α → List Nat) (g : α → List Tok)
    (hfg : ∀ a rest, lex none (f a ++ rest) = (lex none rest).map (g a ++ ·)) (l : List α) (rest : List Nat) :
    lex none (commaSep (l.map f) ++ rest) = (lex none rest).map (tSep (l.map g) ++ ·) := by
  induction l with
  | nil => simp [commaSep, tSep]
  | cons a l ih =>
    cases l with
    | nil => simp [commaSep, tSep, hfg]
    | cons b l =>
      simp only [List.map_cons, commaSep, tSep, List.append_assoc, List.cons_append] at ih ⊢
      rw [hfg, lex_comma, ih]
      cases lex none rest <;> simp

/-- the tokens of a printed document -/
def docToks (d : Doc) : List Tok :=
  .lb :: .lb :: tSep (d.1.map tNode) ++ .rb :: .comma :: .lb :: tSep (d.2.map tEdge) ++ [.rb, .rb]

theorem lex_print (d : Doc) : lex none (print d) = some (docToks d) := by
  unfold print docToks
  simp only [List.cons_append, List.append_assoc, List.nil_append]
  rw [lex_lb, lex_lb, lex_commaSep pNode tNode lex_pNode, lex_rb, lex_comma, lex_lb,
    lex_commaSep pEdge tEdge lex_pEdge, lex_rb, lex_rb]
  simp [lex, closeNum]

/-! ## the parser on the tokens of a printed document -/

theorem asUInt_digits (bound k : Nat) (h : k < bound) : asUInt bound false (digits k) = some k := by
  simp [asUInt, digitsVal_digits, h]

theorem asI64_tInt (i : Int) (h1 : -(2 ^ 63 : Int) ≤ i) (h2 : i < 2 ^ 63) : asI64 (iNeg i) (iDig i) = some i := by
  cases i with
  | ofNat n =>
    simp only [asI64, iNeg, iDig, digitsVal_digits]
    have : n < 2 ^ 63 := by
      have : (Int.ofNat n) = (n : Int) := rfl
      omega
    simp [this]
  | negSucc n =>
    simp only [asI64, iNeg, iDig, digitsVal_digits]
    have : n + 1 ≤ 2 ^ 63 := by
      have : (Int.negSucc n) = -((n : Int) + 1) := rfl
      omega
    simp [this]
    rfl

def NodeOk (p : Nat × Int) : Prop := p.1 < U64 ∧ -(2 ^ 63 : Int) ≤ p.2 ∧ p.2 < 2 ^ 63
def EdgeOk (p : Nat × Nat × Nat) : Prop := p.1 < U64 ∧ p.2.1 < U64 ∧ p.2.2 < U32

theorem nodeItems_toks (p : Nat × Int) (l : List (Nat × Int)) (rest : List Tok)
    (h : ∀ q ∈ p :: l, NodeOk q) :
    nodeItems (tSep ((p :: l).map tNode) ++ .rb :: rest) = some (p :: l, rest) := by
  induction l generalizing p with
  | nil =>
    obtain ⟨hk, hv1, hv2⟩ := h p (by simp)
    simp [tSep, tNode, tInt, nodeItems, asUInt_digits _ _ hk, asI64_tInt _ hv1 hv2]
  | cons q l ih =>
    obtain ⟨hk, hv1, hv2⟩ := h p (by simp)
    have ih' := ih q (fun x hx => h x (by simp at hx ⊢; right; exact hx))
    simp only [List.map_cons] at ih'
    simp [tSep, tNode, tInt, nodeItems, asUInt_digits _ _ hk, asI64_tInt _ hv1 hv2]
    simpa [tNode, tInt] using ih'

theorem nodeList_toks (l : List (Nat × Int)) (rest : List Tok) (h : ∀ q ∈ l, NodeOk q) :
    nodeList (.lb :: tSep (l.map tNode) ++ .rb :: rest) = some (l, rest) := by
  cases l with
  | nil => simp [tSep, nodeList]
  | cons p l =>
    have := nodeItems_toks p l rest h
    cases l with
    | nil => simpa [tSep, tNode, nodeList] using this
    | cons q l => simpa [tSep, tNode, nodeList] using this

theorem edgeItems_toks (p : Nat × Nat × Nat) (l : List (Nat × Nat × Nat)) (rest : List Tok)
    (h : ∀ q ∈ p :: l, EdgeOk q) :
    edgeItems (tSep ((p :: l).map tEdge) ++ .rb :: rest) = some (p :: l, rest) := by
  induction l generalizing p with
  | nil =>
    obtain ⟨hu, hv, he⟩ := h p (by simp)
    simp [tSep, tEdge, edgeItems, asUInt_digits _ _ hu, asUInt_digits _ _ hv, asUInt_digits _ _ he]
  | cons q l ih =>
    obtain ⟨hu, hv, he⟩ := h p (by simp)
    have ih' := ih q (fun x hx => h x (by simp at hx ⊢; right; exact hx))
    simp only [List.map_cons] at ih'
    simp [tSep, tEdge, edgeItems, asUInt_digits _ _ hu, asUInt_digits _ _ hv, asUInt_digits _ _ he]
    simpa [tEdge] using ih'

theorem edgeList_toks (l : List (Nat × Nat × Nat)) (rest : List Tok) (h : ∀ q ∈ l, EdgeOk q) :
    edgeList (.lb :: tSep (l.map tEdge) ++ .rb :: rest) = some (l, rest) := by
  cases l with
  | nil => simp [tSep, edgeList]
  | cons p l =>
    have := edgeItems_toks p l rest h
    cases l with
    | nil => simpa [tSep, tEdge, edgeList] using this
    | cons q l => simpa [tSep, tEdge, edgeList] using this

theorem parseToks_docToks (d : Doc) (h : InRange d) : parseToks (docToks d) = some d := by
  obtain ⟨ns, es⟩ := d
  have h1 := nodeList_toks ns (.comma :: .lb :: tSep (es.map tEdge) ++ [.rb, .rb]) h.1
  have h2 := edgeList_toks es [.rb] h.2
  unfold docToks
  simp only [List.cons_append, List.append_assoc] at h1 h2 ⊢
  simp [parseToks, h1, h2]

/-! ## accepted documents are in range -/

theorem asUInt_some (bound : Nat) (neg : Bool) (ds : List Nat) (k : Nat) (h : asUInt bound neg ds = some k) :
    k < bound := by
  unfold asUInt at h
  split at h
  · cases h
  · split at h
    · cases h; assumption
    · cases h

theorem asI64_some (neg : Bool) (ds : List Nat) (v : Int) (h : asI64 neg ds = some v) :
    -(2 ^ 63 : Int) ≤ v ∧ v < 2 ^ 63 := by
  unfold asI64 at h
  simp only at h
  split at h
  · split at h
    · cases h
      rename_i h1
      simp only [Bool.and_eq_true, decide_eq_true_eq] at h1
      omega
    · cases h
  · split at h
    · cases h; omega
    · cases h

theorem nodeItems_ok (ts : List Tok) (l : List (Nat × Int)) (rest : List Tok)
    (h : nodeItems ts = some (l, rest)) : ∀ q ∈ l, NodeOk q := by
  fun_induction nodeItems ts generalizing l rest with
  | case1 nk dk nv dv k v hv hk rest' =>
    cases h
    intro q hq
    simp only [List.mem_singleton] at hq
    subst hq
    exact ⟨asUInt_some _ _ _ _ hk, asI64_some _ _ _ hv⟩
  | case2 nk dk nv dv k v hv hk rest' ih =>
    cases h' : nodeItems rest' with
    | none => rw [h'] at h; cases h
    | some r =>
      obtain ⟨l', r'⟩ := r
      rw [h'] at h
      cases h
      intro q hq
      rcases List.mem_cons.mp hq with rfl | hq
      · exact ⟨asUInt_some _ _ _ _ hk, asI64_some _ _ _ hv⟩
      · exact ih l' _ h' q hq
  | case3 => cases h
  | case4 => cases h
  | case5 => cases h

theorem nodeList_ok (ts : List Tok) (l : List (Nat × Int)) (rest : List Tok)
    (h : nodeList ts = some (l, rest)) : ∀ q ∈ l, NodeOk q := by
  unfold nodeList at h
  split at h
  · cases h; intro q hq; cases hq
  · exact nodeItems_ok _ _ _ h
  · cases h

theorem edgeItems_ok (ts : List Tok) (l : List (Nat × Nat × Nat)) (rest : List Tok)
    (h : edgeItems ts = some (l, rest)) : ∀ q ∈ l, EdgeOk q := by
  fun_induction edgeItems ts generalizing l rest with
  | case1 nu du nv dv ne de u v e he hv hu rest' =>
    cases h
    intro q hq
    simp only [List.mem_singleton] at hq
    subst hq
    exact ⟨asUInt_some _ _ _ _ hu, asUInt_some _ _ _ _ hv, asUInt_some _ _ _ _ he⟩
  | case2 nu du nv dv ne de u v e he hv hu rest' ih =>
    cases h' : edgeItems rest' with
    | none => rw [h'] at h; cases h
    | some r =>
      obtain ⟨l', r'⟩ := r
      rw [h'] at h
      cases h
      intro q hq
      rcases List.mem_cons.mp hq with rfl | hq
      · exact ⟨asUInt_some _ _ _ _ hu, asUInt_some _ _ _ _ hv, asUInt_some _ _ _ _ he⟩
      · exact ih l' _ h' q hq
  | case3 => cases h
  | case4 => cases h
  | case5 => cases h

theorem edgeList_ok (ts : List Tok) (l : List (Nat × Nat × Nat)) (rest : List Tok)
    (h : edgeList ts = some (l, rest)) : ∀ q ∈ l, EdgeOk q := by
  unfold edgeList at h
  split at h
  · cases h; intro q hq; cases hq
  · exact edgeItems_ok _ _ _ h
  · cases h

theorem inRange_mk (ns : List (Nat × Int)) (es : List (Nat × Nat × Nat)) (h1 : ∀ q ∈ ns, NodeOk q)
    (h2 : ∀ q ∈ es, EdgeOk q) : InRange (ns, es) := And.intro h1 h2

theorem parseToks_ok (ts : List Tok) (d : Doc) (h : parseToks ts = some d) : InRange d := by
  unfold parseToks at h
  split at h
  · cases h; exact inRange_mk _ _ (fun p hp => by simp at hp) (fun p hp => by simp at hp)
  · split at h
    · cases h
      rename_i hn
      exact inRange_mk _ _ (nodeList_ok _ _ _ hn) (fun p hp => by simp at hp)
    · rename_i hn
      split at h
      · cases h
        rename_i he
        exact inRange_mk _ _ (nodeList_ok _ _ _ hn) (edgeList_ok _ _ _ he)
      · cases h
    · cases h
  · cases h

/-! ## white space -/

theorem isWs_cases (b : Nat) (h : isWs b = true) : b = 32 ∨ b = 9 ∨ b = 10 ∨ b = 13 := by
  simp only [isWs, Bool.or_eq_true, decide_eq_true_eq] at h
  omega

theorem lex_ws_cons (cur : Option (Bool × List Nat)) (b : Nat) (rest : List Nat) (h : isWs b = true) :
    lex cur (b :: rest) =
      match closeNum cur with
      | none => none
      | some pre => (lex none rest).map (pre ++ ·) := by
  rcases cur with _ | ⟨neg, ds⟩ <;> rw [lex]
  all_goals
    have hd : isDigit b = false := by
      rcases isWs_cases b h with rfl | rfl | rfl | rfl <;> decide
    have h45 : b ≠ 45 := by
      rcases isWs_cases b h with rfl | rfl | rfl | rfl <;> decide
    simp only [hd, h45, h, if_true, if_false, Bool.false_eq_true]
    cases closeNum _ <;> rfl

theorem lex_nil (cur : Option (Bool × List Nat)) : lex cur [] = closeNum cur := by rw [lex]

theorem lex_ws_only (cur : Option (Bool × List Nat)) (post : List Nat) (h : ∀ b ∈ post, isWs b = true) :
    lex cur post = closeNum cur := by
  induction post generalizing cur with
  | nil => exact lex_nil cur
  | cons b post ih =>
    rw [lex_ws_cons cur b post (h b (by simp)), ih none (fun x hx => h x (by simp [hx]))]
    cases closeNum cur <;> simp [closeNum]

theorem lex_ws_post (cur : Option (Bool × List Nat)) (bs post : List Nat) (h : ∀ b ∈ post, isWs b = true) :
    lex cur (bs ++ post) = lex cur bs := by
  induction bs generalizing cur with
  | nil => rw [List.nil_append, lex_ws_only cur post h, lex_nil]
  | cons b bs ih =>
    rcases cur with _ | ⟨neg, ds⟩ <;> rw [List.cons_append, lex, lex] <;> simp only [ih]

theorem lex_ws_pre (pre bs : List Nat) (h : ∀ b ∈ pre, isWs b = true) :
    lex none (pre ++ bs) = lex none bs := by
  induction pre with
  | nil => rfl
  | cons b pre ih =>
    rw [List.cons_append, lex_ws_cons none b _ (h b (by simp)), ih (fun x hx => h x (by simp [hx]))]
    simp [closeNum]

/-! ## bracket depth: no proper prefix of a printed document is accepted -/

def tokDep : Tok → Int
  | .lb => 1
  | .rb => -1
  | _ => 0

def dep : List Tok → Int
  | [] => 0
  | t :: ts => tokDep t + dep ts

def byteDep (b : Nat) : Int := if b = 91 then 1 else if b = 93 then -1 else 0

def bdep : List Nat → Int
  | [] => 0
  | b :: bs => byteDep b + bdep bs

theorem dep_append (a b : List Tok) : dep (a ++ b) = dep a + dep b := by
  induction a with
  | nil => simp [dep]
  | cons t a ih => simp only [List.cons_append, dep, ih]; omega

theorem bdep_append (a b : List Nat) : bdep (a ++ b) = bdep a + bdep b := by
  induction a with
  | nil => simp [bdep]
  | cons t a ih => simp only [List.cons_append, bdep, ih]; omega

theorem closeNum_dep (cur : Option (Bool × List Nat)) (pre : List Tok) (h : closeNum cur = some pre) : dep pre = 0 := by
  unfold closeNum at h
  split at h <;> cases h <;> rfl

theorem byteDep_digit (b : Nat) (h : isDigit b = true) : byteDep b = 0 := by
  simp only [isDigit, Bool.and_eq_true, decide_eq_true_eq] at h
  unfold byteDep
  rw [if_neg (by omega), if_neg (by omega)]

theorem byteDep_ws (b : Nat) (h : isWs b = true) : byteDep b = 0 := by
  rcases isWs_cases b h with rfl | rfl | rfl | rfl <;> rfl

theorem lex_dep (cur : Option (Bool × List Nat)) (bs : List Nat) (ts : List Tok) (h : lex cur bs = some ts) :
    dep ts = bdep bs := by
  fun_induction lex cur bs generalizing ts with
  | case1 cur => exact closeNum_dep cur ts h
  | case2 b rest hb ih => rw [bdep, byteDep_digit b hb, ih ts h]; omega
  | case3 b rest hb neg ds ih => rw [bdep, byteDep_digit b hb, ih ts h]; omega
  | case4 rest _ ih => rw [bdep, ih ts h]; simp [byteDep]
  | case5 => cases h
  | case6 => cases h
  | case7 cur b rest _ _ pre hpre hws ih =>
    obtain ⟨t, ht, rfl⟩ := Option.map_eq_some_iff.mp h
    rw [dep_append, closeNum_dep cur pre hpre, ih t ht, bdep, byteDep_ws b hws]
  | case8 cur rest pre hpre _ _ _ ih =>
    obtain ⟨t, ht, rfl⟩ := Option.map_eq_some_iff.mp h
    rw [dep_append, closeNum_dep cur pre hpre, dep, ih t ht, bdep]; simp [tokDep, byteDep]
  | case9 cur rest pre hpre _ _ _ _ ih =>
    obtain ⟨t, ht, rfl⟩ := Option.map_eq_some_iff.mp h
    rw [dep_append, closeNum_dep cur pre hpre, dep, ih t ht, bdep]; simp [tokDep, byteDep]
  | case10 cur rest pre hpre _ _ _ _ _ ih =>
    obtain ⟨t, ht, rfl⟩ := Option.map_eq_some_iff.mp h
    rw [dep_append, closeNum_dep cur pre hpre, dep, ih t ht, bdep]; simp [tokDep, byteDep]
  | case11 => cases h

theorem nodeItems_dep (ts : List Tok) (l : List (Nat × Int)) (rest : List Tok)
    (h : nodeItems ts = some (l, rest)) : dep ts = dep rest - 1 := by
  fun_induction nodeItems ts generalizing l rest with
  | case1 nk dk nv dv k v hv hk rest' =>
    cases h
    simp only [dep, tokDep]; omega
  | case2 nk dk nv dv k v hv hk rest' ih =>
    cases h' : nodeItems rest' with
    | none => rw [h'] at h; cases h
    | some r =>
      obtain ⟨l', r'⟩ := r
      rw [h'] at h
      cases h
      have := ih l' _ h'
      simp only [dep, tokDep]; omega
  | case3 => cases h
  | case4 => cases h
  | case5 => cases h

theorem nodeList_dep (ts : List Tok) (l : List (Nat × Int)) (rest : List Tok)
    (h : nodeList ts = some (l, rest)) : dep ts = dep rest := by
  unfold nodeList at h
  split at h
  · cases h; simp only [dep, tokDep]; omega
  · have := nodeItems_dep _ _ _ h
    simp only [dep, tokDep]; omega
  · cases h

theorem edgeItems_dep (ts : List Tok) (l : List (Nat × Nat × Nat)) (rest : List Tok)
    (h : edgeItems ts = some (l, rest)) : dep ts = dep rest - 1 := by
  fun_induction edgeItems ts generalizing l rest with
  | case1 nu du nv dv ne de u v e he hv hu rest' =>
    cases h
    simp only [dep, tokDep]; omega
  | case2 nu du nv dv ne de u v e he hv hu rest' ih =>
    cases h' : edgeItems rest' with
    | none => rw [h'] at h; cases h
    | some r =>
      obtain ⟨l', r'⟩ := r
      rw [h'] at h
      cases h
      have := ih l' _ h'
      simp only [dep, tokDep]; omega
  | case3 => cases h
  | case4 => cases h
  | case5 => cases h

theorem edgeList_dep (ts : List Tok) (l : List (Nat × Nat × Nat)) (rest : List Tok)
    (h : edgeList ts = some (l, rest)) : dep ts = dep rest := by
  unfold edgeList at h
  split at h
  · cases h; simp only [dep, tokDep]; omega
  · have := edgeItems_dep _ _ _ h
    simp only [dep, tokDep]; omega
  · cases h

theorem parseToks_dep (ts : List Tok) (d : Doc) (h : parseToks ts = some d) : dep ts = 0 ∧ ts ≠ [] := by
  unfold parseToks at h
  split at h
  · exact ⟨rfl, by simp⟩
  · refine ⟨?_, by simp⟩
    split at h
    · rename_i hn
      have := nodeList_dep _ _ _ hn
      simp only [dep, tokDep] at this ⊢; omega
    · rename_i hn
      have h1 := nodeList_dep _ _ _ hn
      split at h
      · rename_i he
        have h2 := edgeList_dep _ _ _ he
        simp only [dep, tokDep] at h1 h2 ⊢; omega
      · cases h
    · cases h
  · cases h

/-- every prefix has non-negative depth -/
def PN (bs : List Nat) : Prop := ∀ n, 0 ≤ bdep (bs.take n)

theorem PN_append (a b : List Nat) (ha : PN a) (hb : PN b) : PN (a ++ b) := by
  intro n
  rw [List.take_append, bdep_append]
  have := ha n
  have := hb (n - a.length)
  omega

theorem bdep_flat (bs : List Nat) (h : ∀ b ∈ bs, byteDep b = 0) : bdep bs = 0 := by
  induction bs with
  | nil => rfl
  | cons b bs ih => rw [bdep, h b (by simp), ih (fun x hx => h x (by simp [hx]))]; rfl

theorem PN_flat (bs : List Nat) (h : ∀ b ∈ bs, byteDep b = 0) : PN bs := by
  intro n
  rw [bdep_flat _ (fun b hb => h b (List.mem_of_mem_take hb))]
  omega

theorem PN_wrap (x : List Nat) (h : PN x) : PN (91 :: x ++ [93]) := by
  intro n
  cases n with
  | zero => simp [bdep]
  | succ m =>
    rw [List.cons_append, List.take_succ_cons, bdep, List.take_append, bdep_append]
    have := h m
    have h2 : -1 ≤ bdep (List.take (m - x.length) [93]) := by
      cases (m - x.length) <;> simp [bdep, byteDep]
    simp only [byteDep, if_true]
    omega

theorem pNat_flat (n : Nat) : ∀ b ∈ pNat n, byteDep b = 0 := by
  intro b hb
  unfold pNat at hb
  obtain ⟨d, hd, rfl⟩ := List.mem_map.mp hb
  exact byteDep_digit _ (isDigit_add48 d (digits_lt n d hd))

theorem pInt_flat (i : Int) : ∀ b ∈ pInt i, byteDep b = 0 := by
  intro b hb
  cases i with
  | ofNat n => exact pNat_flat n b hb
  | negSucc n =>
    simp only [pInt, List.mem_cons] at hb
    rcases hb with rfl | hb
    · rfl
    · exact pNat_flat _ b hb

theorem PN_pNode (p : Nat × Int) : PN (pNode p) := by
  unfold pNode
  have : 91 :: pNat p.1 ++ 44 :: pInt p.2 ++ [93] = 91 :: (pNat p.1 ++ 44 :: pInt p.2) ++ [93] := by simp
  rw [this]
  apply PN_wrap
  apply PN_flat
  intro b hb
  simp only [List.mem_append, List.mem_cons] at hb
  rcases hb with hb | rfl | hb
  · exact pNat_flat _ b hb
  · rfl
  · exact pInt_flat _ b hb

theorem PN_pEdge (p : Nat × Nat × Nat) : PN (pEdge p) := by
  unfold pEdge
  have : 91 :: pNat p.1 ++ 44 :: pNat p.2.1 ++ 44 :: pNat p.2.2 ++ [93] =
      91 :: (pNat p.1 ++ 44 :: pNat p.2.1 ++ 44 :: pNat p.2.2) ++ [93] := by simp
  rw [this]
  apply PN_wrap
  apply PN_flat
  intro b hb
  simp only [List.mem_append, List.mem_cons] at hb
  rcases hb with (hb | rfl | hb) | rfl | hb
  · exact pNat_flat _ b hb
  · rfl
  · exact pNat_flat _ b hb
  · rfl
  · exact pNat_flat _ b hb

theorem PN_commaSep (l : List (List Nat)) (h : ∀ x ∈ l, PN x) : PN (commaSep l) := by
  induction l with
  | nil => intro n; simp [commaSep, bdep]
  | cons x l ih =>
    cases l with
    | nil => exact h x (by simp)
    | cons y l =>
      rw [commaSep]
      apply PN_append _ _ (h x (by simp))
      have : 44 :: commaSep (y :: l) = [44] ++ commaSep (y :: l) := rfl
      rw [this]
      apply PN_append
      · exact PN_flat _ (by intro b hb; simp at hb; subst hb; rfl)
      · exact ih (fun z hz => h z (by simp at hz ⊢; right; exact hz))

/-- what is between the outer brackets -/
def body (d : Doc) : List Nat :=
  (91 :: commaSep (d.1.map pNode) ++ [93]) ++ 44 :: (91 :: commaSep (d.2.map pEdge) ++ [93])

theorem print_eq (d : Doc) : print d = 91 :: body d ++ [93] := rfl

theorem PN_body (d : Doc) : PN (body d) := by
  unfold body
  apply PN_append
  · apply PN_wrap
    apply PN_commaSep
    intro x hx
    obtain ⟨p, _, rfl⟩ := List.mem_map.mp hx
    exact PN_pNode p
  · have : ∀ l : List Nat, 44 :: l = [44] ++ l := fun _ => rfl
    rw [this]
    apply PN_append
    · exact PN_flat _ (by intro b hb; simp at hb; subst hb; rfl)
    · apply PN_wrap
      apply PN_commaSep
      intro x hx
      obtain ⟨p, _, rfl⟩ := List.mem_map.mp hx
      exact PN_pEdge p

theorem print_prefix_dep (d : Doc) (n : Nat) (h0 : 0 < n) (hn : n < (print d).length) :
    1 ≤ bdep ((print d).take n) := by
  rw [print_eq] at hn ⊢
  cases n with
  | zero => omega
  | succ m =>
    simp only [List.cons_append, List.length_cons, List.length_append, List.length_nil] at hn
    rw [List.cons_append, List.take_succ_cons, bdep, List.take_append_of_le_length (by omega)]
    have := PN_body d m
    simp only [byteDep, if_true]
    omega

end Json

theorem Json.parse_print' (d : Json.Doc) (h : Json.InRange d) : Json.parse (Json.print d) = some d := by
  unfold Json.parse
  rw [Json.lex_print]
  exact Json.parseToks_docToks d h

theorem Json.roundtrip_bytes' (s : Store Nat Nat) (nval : Nat → Int) (π : List Nat) (hnd : π.Nodup)
    (hclosed : ∀ k ∈ π, ∀ p ∈ (s.get k).out, p.1 ∈ π) (hr : Json.InRange (decompose s nval π)) :
    ∃ s', Json.deJson (Json.serJson s nval π) = some (π.map (fun k => (k, nval k)), s') ∧
      (∀ k ∈ π, (s'.get k).out = (s.get k).out) ∧ Mirror s' := by
  obtain ⟨s', h1, h2, h3⟩ := Serde.roundtrip' s nval π hnd hclosed
  refine ⟨s', ?_, h2, h3⟩
  unfold Json.deJson Json.serJson
  rw [Json.parse_print' _ hr]
  exact h1

theorem Json.parse_inrange' (bs : List Nat) (d : Json.Doc) (h : Json.parse bs = some d) : Json.InRange d := by
  unfold Json.parse at h
  cases hl : Json.lex none bs with
  | none => rw [hl] at h; cases h
  | some ts => rw [hl] at h; exact Json.parseToks_ok ts d h

theorem Json.de_ok_wellformed' (bs : List Nat) (ns : List (Nat × Int)) (s : Store Nat Nat)
    (h : Json.deJson bs = some (ns, s)) :
    ∃ d, Json.parse bs = some d ∧ Mirror s ∧ (∀ p ∈ ns, p ∈ d.1) ∧
      (∀ k, (s.get k).out = (d.2.filter (fun x => x.1 = k)).map (fun x => (x.2.1, x.2.2))) ∧
      (∀ k, (s.get k).inn = (d.2.filter (fun x => x.2.1 = k)).map (fun x => (x.1, x.2.2))) := by
  unfold Json.deJson at h
  cases hp : Json.parse bs with
  | none => rw [hp] at h; cases h
  | some d =>
    rw [hp] at h
    exact ⟨d, rfl, Serde.ok_is_wellformed' d.1 d.2 ns s h⟩

theorem Json.de_error_iff' (bs : List Nat) :
    Json.deJson bs = none ↔
      Json.parse bs = none ∨ ∃ d, Json.parse bs = some d ∧ ∃ x ∈ d.2, (x.1 ∉ d.1.map (·.1)) ∨ (x.2.1 ∉ d.1.map (·.1)) := by
  unfold Json.deJson
  cases hp : Json.parse bs with
  | none => simp
  | some d =>
    simp only [Option.bind_some, Serde.undeclared_is_error', reduceCtorEq, false_or, Option.some.injEq,
      exists_eq_left']

theorem Json.parse_ws' (pre post bs : List Nat) (hpre : ∀ b ∈ pre, Json.isWs b = true)
    (hpost : ∀ b ∈ post, Json.isWs b = true) : Json.parse (pre ++ bs ++ post) = Json.parse bs := by
  unfold Json.parse
  rw [Json.lex_ws_post none _ post hpost, Json.lex_ws_pre pre bs hpre]

theorem Json.truncated_is_error' (d : Json.Doc) (_h : Json.InRange d) (n : Nat) (hn : n < (Json.print d).length) :
    Json.parse ((Json.print d).take n) = none := by
  unfold Json.parse
  cases hl : Json.lex none ((Json.print d).take n) with
  | none => rfl
  | some ts =>
    rw [Option.bind_some]
    cases hp : Json.parseToks ts with
    | none => rfl
    | some d' =>
      exfalso
      obtain ⟨h0, hne⟩ := Json.parseToks_dep ts d' hp
      have h1 := Json.lex_dep _ _ _ hl
      cases n with
      | zero =>
        rw [List.take_zero, Json.lex_nil] at hl
        cases hl
        exact hne rfl
      | succ m =>
        have := Json.print_prefix_dep d (m + 1) (by omega) hn
        omega

end G

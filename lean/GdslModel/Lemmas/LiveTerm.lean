import GdslModel.Lemmas.Live
import GdslModel.Lemmas.Heap
/-!
# Lemmas for C20 (d): the live traversals end once the closure stops adding edges

Setting (`Tame`): a finite universe `nodes` that every adjacency entry of a member names (in every
state satisfying an invariant `I` that the closure preserves), and from callback call number `n` on
the closure never lengthens the list of a member. `Ok B k st`: `k ≥ n` calls have been made, and in
`st` every member's list has at most `B` entries. Then

* depth-first and the orderings need at most `unv · (B + 2) + (B + 1 − pos) + 1` fuel, `unv` the number
  of members not yet visited (every descent marks a member, a frame reads at most `B + 1` positions);
* breadth-first and priority-first need at most `|queue| + unv + B + 2` (one unit per pop, every push
  marks a member, the scan of the popped node reads at most `B + 1` positions).
-/
namespace G
variable {K E σ : Type} [DecidableEq K]
set_option linter.unusedSectionVars false

namespace Live

/-- the closure keeps the invariant `I`; in states satisfying it the lists of members of `nodes` name
    only members; from call `n` on the closure never lengthens the list of a member -/
structure Tame (c : LCfg σ K E) (nodes : List K) (n : Nat) (I : σ → Prop) : Prop where
  closed : ∀ st, I st → ∀ u ∈ nodes, ∀ p ∈ c.adj st u, p.1 ∈ nodes
  inv : ∀ i e st, I st → I (c.cb i e st).1
  stop : ∀ i, n ≤ i → ∀ e st, I st → ∀ u ∈ nodes, (c.adj (c.cb i e st).1 u).length ≤ (c.adj st u).length

/-- what the termination proofs carry along: after `k ≥ n` callback calls, in state `st`, every
    member's list has at most `B` entries -/
structure Ok (c : LCfg σ K E) (nodes : List K) (n : Nat) (I : σ → Prop) (B k : Nat) (st : σ) : Prop where
  inv : I st
  late : n ≤ k
  len : ∀ w ∈ nodes, (c.adj st w).length ≤ B

theorem Ok.step {c : LCfg σ K E} {nodes : List K} {n : Nat} {I : σ → Prop} {B k : Nat} {st : σ}
    (ht : Tame c nodes n I) (h : Ok c nodes n I B k st) (e : Edge K E) :
    Ok c nodes n I B (k + 1) (c.cb k e st).1 :=
  ⟨ht.inv _ _ _ h.inv, Nat.le_succ_of_le h.late,
    fun w hw => Nat.le_trans (ht.stop k h.late e st h.inv w hw) (h.len w hw)⟩

theorem Ok.snoc {c : LCfg σ K E} {nodes : List K} {n : Nat} {I : σ → Prop} {B : Nat} {st : σ} {log : Log σ K E}
    (ht : Tame c nodes n I) (h : Ok c nodes n I B log.length st) (e : Edge K E) (x : Edge K E × σ) :
    Ok c nodes n I B (log ++ [x]).length (c.cb log.length e st).1 := by
  have := h.step ht e
  simpa using this

theorem unv_le (nodes vis : List K) : Order.unv nodes vis ≤ nodes.length := List.countP_le_length

theorem mul_step {a b k : Nat} (h : a < b) : a * k + k ≤ b * k := by
  have := Nat.mul_le_mul_right k (Nat.succ_le_of_lt h)
  rwa [Nat.succ_mul] at this

/-! ## depth-first -/

theorem dfsEdgesL_term {c : LCfg σ K E} {nodes : List K} {n : Nat} {I : σ → Prop} (ht : Tame c nodes n I) (B : Nat) :
    ∀ (fuel : Nat) (u : K) (pos : Nat) (ts : LSt σ K E) (st : σ), u ∈ nodes → Ok c nodes n I B ts.log.length st →
      Order.unv nodes ts.vis * (B + 2) + (B + 1 - pos) < fuel →
      ∃ b ts' st', dfsEdgesL c fuel u pos ts st = some (b, ts', st') ∧ (∀ x ∈ ts.vis, x ∈ ts'.vis) ∧
        Ok c nodes n I B ts'.log.length st' := by
  intro fuel
  induction fuel with
  | zero => intro u pos ts st _ _ hf; omega
  | succ f ih =>
    intro u pos ts st hu hok hf
    rcases hg : (c.adj st u)[pos]? with _ | ⟨v, e⟩
    · exact ⟨false, ts, st, by simp [dfsEdgesL, hg], fun _ h => h, hok⟩
    · have hlt : pos < (c.adj st u).length := (List.getElem?_eq_some_iff.1 hg).1
      have hB := hok.len u hu
      have hok' := hok.snoc ht (u, v, e) ((u, v, e), st)
      have hvn : v ∈ nodes := ht.closed st hok.inv u hu (v, e) (List.mem_of_getElem? hg)
      by_cases hacc : (c.cb ts.log.length (u, v, e) st).2 = true
      · by_cases hv : v ∈ ts.vis
        · obtain ⟨b, ts', st', h1, h2, h3⟩ := ih u (pos + 1) { ts with log := ts.log ++ [((u, v, e), st)] }
            (c.cb ts.log.length (u, v, e) st).1 hu hok' (by simp only; omega)
          exact ⟨b, ts', st', by simpa [dfsEdgesL, hg, hacc, hv] using h1, h2, h3⟩
        · have hlt' := mul_step (k := B + 2) (Order.unv_lt nodes hvn hv)
          by_cases htg : c.target = some v
          · exact ⟨true, { vis := v :: ts.vis, tree := ts.tree ++ [(u, v, e)], log := ts.log ++ [((u, v, e), st)] },
              (c.cb ts.log.length (u, v, e) st).1, by simp [dfsEdgesL, hg, hacc, hv, htg],
              fun x hx => List.mem_cons_of_mem _ hx, hok'⟩
          · obtain ⟨b1, ts1, st1, h1, h2, h3⟩ := ih v 0
              { vis := v :: ts.vis, tree := ts.tree ++ [(u, v, e)], log := ts.log ++ [((u, v, e), st)] }
              (c.cb ts.log.length (u, v, e) st).1 hvn hok' (by simp only; omega)
            have hm : ∀ x ∈ ts.vis, x ∈ ts1.vis := fun x hx => h2 x (List.mem_cons_of_mem _ hx)
            cases b1 with
            | true =>
              exact ⟨true, ts1, st1, by simp [dfsEdgesL, hg, hacc, hv, htg, h1], hm, h3⟩
            | false =>
              have hle := Nat.mul_le_mul_right (B + 2) (Order.unv_mono nodes (vis := v :: ts.vis) h2)
              obtain ⟨b2, ts2, st2, h4, h5, h6⟩ := ih u (pos + 1) ts1 st1 hu h3 (by omega)
              exact ⟨b2, ts2, st2, by simp [dfsEdgesL, hg, hacc, hv, htg, h1, h4],
                fun x hx => h5 x (hm x hx), h6⟩
      · obtain ⟨b, ts', st', h1, h2, h3⟩ := ih u (pos + 1) { ts with log := ts.log ++ [((u, v, e), st)] }
          (c.cb ts.log.length (u, v, e) st).1 hu hok' (by simp only; omega)
        exact ⟨b, ts', st', by simpa [dfsEdgesL, hg, hacc] using h1, h2, h3⟩

/-! ## orderings -/

theorem ordEdgesL_term {c : LCfg σ K E} {nodes : List K} {n : Nat} {I : σ → Prop} (ht : Tame c nodes n I) (B : Nat)
    (post : Bool) :
    ∀ (fuel : Nat) (u : K) (pos : Nat) (ts : LSt σ K E) (st : σ), u ∈ nodes → Ok c nodes n I B ts.log.length st →
      Order.unv nodes ts.vis * (B + 2) + (B + 1 - pos) < fuel →
      ∃ ts' st', ordEdgesL c post fuel u pos ts st = some (ts', st') ∧ (∀ x ∈ ts.vis, x ∈ ts'.vis) ∧
        Ok c nodes n I B ts'.log.length st' := by
  intro fuel
  induction fuel with
  | zero => intro u pos ts st _ _ hf; omega
  | succ f ih =>
    intro u pos ts st hu hok hf
    rcases hg : (c.adj st u)[pos]? with _ | ⟨v, e⟩
    · exact ⟨ts, st, by simp [ordEdgesL, hg], fun _ h => h, hok⟩
    · have hlt : pos < (c.adj st u).length := (List.getElem?_eq_some_iff.1 hg).1
      have hB := hok.len u hu
      have hok' := hok.snoc ht (u, v, e) ((u, v, e), st)
      have hvn : v ∈ nodes := ht.closed st hok.inv u hu (v, e) (List.mem_of_getElem? hg)
      by_cases hacc : (c.cb ts.log.length (u, v, e) st).2 = true
      · by_cases hv : v ∈ ts.vis
        · obtain ⟨ts', st', h1, h2, h3⟩ := ih u (pos + 1) { ts with log := ts.log ++ [((u, v, e), st)] }
            (c.cb ts.log.length (u, v, e) st).1 hu hok' (by simp only; omega)
          exact ⟨ts', st', by simpa [ordEdgesL, hg, hacc, hv] using h1, h2, h3⟩
        · have hlt' := mul_step (k := B + 2) (Order.unv_lt nodes hvn hv)
          obtain ⟨ts1, st1, h1, h2, h3⟩ := ih v 0
            { vis := v :: ts.vis, tree := if post then ts.tree else ts.tree ++ [(u, v, e)],
              log := ts.log ++ [((u, v, e), st)] }
            (c.cb ts.log.length (u, v, e) st).1 hvn hok' (by simp only; omega)
          have hm : ∀ x ∈ ts.vis, x ∈ ts1.vis := fun x hx => h2 x (List.mem_cons_of_mem _ hx)
          have hle := Nat.mul_le_mul_right (B + 2) (Order.unv_mono nodes (vis := v :: ts.vis) h2)
          obtain ⟨ts2, st2, h4, h5, h6⟩ := ih u (pos + 1)
            { ts1 with tree := if post then ts1.tree ++ [(u, v, e)] else ts1.tree } st1 hu h3 (by simp only; omega)
          exact ⟨ts2, st2, by simp [ordEdgesL, hg, hacc, hv, h1, h4], fun x hx => h5 x (hm x hx), h6⟩
      · obtain ⟨ts', st', h1, h2, h3⟩ := ih u (pos + 1) { ts with log := ts.log ++ [((u, v, e), st)] }
          (c.cb ts.log.length (u, v, e) st).1 hu hok' (by simp only; omega)
        exact ⟨ts', st', by simpa [ordEdgesL, hg, hacc] using h1, h2, h3⟩

/-! ## breadth-first -/

theorem bfsScanL_term {c : LCfg σ K E} {nodes : List K} {n : Nat} {I : σ → Prop} (ht : Tame c nodes n I) (B : Nat)
    (u : K) (hu : u ∈ nodes) :
    ∀ (fuel pos : Nat) (ts : LSt σ K E) (q : List K) (st : σ), Ok c nodes n I B ts.log.length st →
      (∀ x ∈ q, x ∈ nodes) → B + 1 - pos < fuel →
      ∃ b ts' q' st', bfsScanL c u fuel pos ts q st = some (b, ts', q', st') ∧
        Ok c nodes n I B ts'.log.length st' ∧ (∀ x ∈ q', x ∈ nodes) ∧
        q'.length + Order.unv nodes ts'.vis ≤ q.length + Order.unv nodes ts.vis := by
  intro fuel
  induction fuel with
  | zero => intro pos ts q st _ _ hf; omega
  | succ f ih =>
    intro pos ts q st hok hq hf
    rcases hg : (c.adj st u)[pos]? with _ | ⟨v, e⟩
    · exact ⟨false, ts, q, st, by simp [bfsScanL, hg], hok, hq, Nat.le_refl _⟩
    · have hlt : pos < (c.adj st u).length := (List.getElem?_eq_some_iff.1 hg).1
      have hB := hok.len u hu
      have hok' := hok.snoc ht (u, v, e) ((u, v, e), st)
      have hvn : v ∈ nodes := ht.closed st hok.inv u hu (v, e) (List.mem_of_getElem? hg)
      by_cases hacc : (c.cb ts.log.length (u, v, e) st).2 = true
      · by_cases hv : v ∈ ts.vis
        · obtain ⟨b, ts', q', st', h1, h2, h3, h4⟩ := ih (pos + 1) { ts with log := ts.log ++ [((u, v, e), st)] } q
            (c.cb ts.log.length (u, v, e) st).1 hok' hq (by omega)
          exact ⟨b, ts', q', st', by simpa [bfsScanL, hg, hacc, hv] using h1, h2, h3, h4⟩
        · have hlt' := Order.unv_lt nodes hvn hv
          by_cases htg : c.target = some v
          · exact ⟨true, { vis := v :: ts.vis, tree := ts.tree ++ [(u, v, e)], log := ts.log ++ [((u, v, e), st)] }, q,
              (c.cb ts.log.length (u, v, e) st).1, by simp [bfsScanL, hg, hacc, hv, htg], hok', hq,
              by simp only; omega⟩
          · obtain ⟨b, ts', q', st', h1, h2, h3, h4⟩ := ih (pos + 1)
              { vis := v :: ts.vis, tree := ts.tree ++ [(u, v, e)], log := ts.log ++ [((u, v, e), st)] } (q ++ [v])
              (c.cb ts.log.length (u, v, e) st).1 hok'
              (by
                intro x hx
                rcases List.mem_append.1 hx with hx | hx
                · exact hq x hx
                · simp only [List.mem_singleton] at hx; subst hx; exact hvn)
              (by omega)
            refine ⟨b, ts', q', st', by simpa [bfsScanL, hg, hacc, hv, htg] using h1, h2, h3, ?_⟩
            simp only [List.length_append, List.length_singleton] at h4
            omega
      · obtain ⟨b, ts', q', st', h1, h2, h3, h4⟩ := ih (pos + 1) { ts with log := ts.log ++ [((u, v, e), st)] } q
          (c.cb ts.log.length (u, v, e) st).1 hok' hq (by omega)
        exact ⟨b, ts', q', st', by simpa [bfsScanL, hg, hacc] using h1, h2, h3, h4⟩

theorem bfsLoopL_term {c : LCfg σ K E} {nodes : List K} {n : Nat} {I : σ → Prop} (ht : Tame c nodes n I) (B : Nat) :
    ∀ (fuel : Nat) (q : List K) (ts : LSt σ K E) (st : σ), Ok c nodes n I B ts.log.length st →
      (∀ x ∈ q, x ∈ nodes) → q.length + Order.unv nodes ts.vis + B + 1 < fuel →
      ∃ b ts' st', bfsLoopL c fuel q ts st = some (b, ts', st') ∧ Ok c nodes n I B ts'.log.length st' := by
  intro fuel
  induction fuel with
  | zero => intro q ts st _ _ hf; omega
  | succ f ih =>
    intro q ts st hok hq hf
    cases q with
    | nil => exact ⟨false, ts, st, by simp [bfsLoopL], hok⟩
    | cons u q =>
      simp only [List.length_cons] at hf
      obtain ⟨b1, ts1, q1, st1, h1, h2, h3, h4⟩ := bfsScanL_term ht B u (hq u List.mem_cons_self) f 0 ts q st hok
        (fun x hx => hq x (List.mem_cons_of_mem _ hx)) (by omega)
      cases b1 with
      | true => exact ⟨true, ts1, st1, by simp [bfsLoopL, h1], h2⟩
      | false =>
        obtain ⟨b, ts', st', h5, h6⟩ := ih q1 ts1 st1 h2 h3 (by omega)
        exact ⟨b, ts', st', by simp [bfsLoopL, h1, h5], h6⟩

/-! ## priority-first -/

theorem pfsScanL_term {c : LCfg σ K E} {nodes : List K} {n : Nat} {I : σ → Prop} (ht : Tame c nodes n I) (B : Nat)
    (prio : K → Int) (u : K) (hu : u ∈ nodes) :
    ∀ (fuel pos : Nat) (ts : LSt σ K E) (q : List (K × Int)) (st : σ), Ok c nodes n I B ts.log.length st →
      (∀ x ∈ q, x.1 ∈ nodes) → B + 1 - pos < fuel →
      ∃ b ts' q' st', pfsScanL c prio u fuel pos ts q st = some (b, ts', q', st') ∧
        Ok c nodes n I B ts'.log.length st' ∧ (∀ x ∈ q', x.1 ∈ nodes) ∧
        q'.length + Order.unv nodes ts'.vis ≤ q.length + Order.unv nodes ts.vis := by
  intro fuel
  induction fuel with
  | zero => intro pos ts q st _ _ hf; omega
  | succ f ih =>
    intro pos ts q st hok hq hf
    rcases hg : (c.adj st u)[pos]? with _ | ⟨v, e⟩
    · exact ⟨false, ts, q, st, by simp [pfsScanL, hg], hok, hq, Nat.le_refl _⟩
    · have hlt : pos < (c.adj st u).length := (List.getElem?_eq_some_iff.1 hg).1
      have hB := hok.len u hu
      have hok' := hok.snoc ht (u, v, e) ((u, v, e), st)
      have hvn : v ∈ nodes := ht.closed st hok.inv u hu (v, e) (List.mem_of_getElem? hg)
      by_cases hacc : (c.cb ts.log.length (u, v, e) st).2 = true
      · by_cases hv : v ∈ ts.vis
        · obtain ⟨b, ts', q', st', h1, h2, h3, h4⟩ := ih (pos + 1) { ts with log := ts.log ++ [((u, v, e), st)] } q
            (c.cb ts.log.length (u, v, e) st).1 hok' hq (by omega)
          exact ⟨b, ts', q', st', by simpa [pfsScanL, hg, hacc, hv] using h1, h2, h3, h4⟩
        · have hlt' := Order.unv_lt nodes hvn hv
          by_cases htg : c.target = some v
          · exact ⟨true, { vis := v :: ts.vis, tree := ts.tree ++ [(u, v, e)], log := ts.log ++ [((u, v, e), st)] }, q,
              (c.cb ts.log.length (u, v, e) st).1, by simp [pfsScanL, hg, hacc, hv, htg], hok', hq,
              by simp only; omega⟩
          · have hp := heapPush_perm (·.2) q (v, prio v)
            obtain ⟨b, ts', q', st', h1, h2, h3, h4⟩ := ih (pos + 1)
              { vis := v :: ts.vis, tree := ts.tree ++ [(u, v, e)], log := ts.log ++ [((u, v, e), st)] }
              (heapPush (·.2) q (v, prio v))
              (c.cb ts.log.length (u, v, e) st).1 hok'
              (by
                intro x hx
                rcases List.mem_cons.1 (hp.mem_iff.1 hx) with hx | hx
                · subst hx; exact hvn
                · exact hq x hx)
              (by omega)
            refine ⟨b, ts', q', st', by simpa [pfsScanL, hg, hacc, hv, htg] using h1, h2, h3, ?_⟩
            have := hp.length_eq
            simp only [List.length_cons] at this
            dsimp only at h4
            omega
      · obtain ⟨b, ts', q', st', h1, h2, h3, h4⟩ := ih (pos + 1) { ts with log := ts.log ++ [((u, v, e), st)] } q
          (c.cb ts.log.length (u, v, e) st).1 hok' hq (by omega)
        exact ⟨b, ts', q', st', by simpa [pfsScanL, hg, hacc] using h1, h2, h3, h4⟩

theorem pfsLoopL_term {c : LCfg σ K E} {nodes : List K} {n : Nat} {I : σ → Prop} (ht : Tame c nodes n I) (B : Nat)
    (prio : K → Int) :
    ∀ (fuel : Nat) (q : List (K × Int)) (ts : LSt σ K E) (st : σ), Ok c nodes n I B ts.log.length st →
      (∀ x ∈ q, x.1 ∈ nodes) → q.length + Order.unv nodes ts.vis + B + 1 < fuel →
      ∃ b ts' st', pfsLoopL c prio fuel q ts st = some (b, ts', st') ∧ Ok c nodes n I B ts'.log.length st' := by
  intro fuel
  induction fuel with
  | zero => intro q ts st _ _ hf; omega
  | succ f ih =>
    intro q ts st hok hq hf
    rcases hp : heapPop (·.2) q with _ | ⟨⟨u, w⟩, q0⟩
    · exact ⟨false, ts, st, by simp [pfsLoopL, hp], hok⟩
    · have hperm := heapPop_perm (·.2) q q0 (u, w) hp
      have hlen := hperm.length_eq
      simp only [List.length_cons] at hlen
      have hun : u ∈ nodes := hq (u, w) (hperm.mem_iff.2 List.mem_cons_self)
      obtain ⟨b1, ts1, q1, st1, h1, h2, h3, h4⟩ := pfsScanL_term ht B prio u hun f 0 ts q0 st hok
        (fun x hx => hq x (hperm.mem_iff.2 (List.mem_cons_of_mem _ hx))) (by omega)
      cases b1 with
      | true => exact ⟨true, ts1, st1, by simp [pfsLoopL, hp, h1], h2⟩
      | false =>
        obtain ⟨b, ts', st', h5, h6⟩ := ih q1 ts1 st1 h2 h3 (by omega)
        exact ⟨b, ts', st', by simp [pfsLoopL, hp, h1, h5], h6⟩

/-! ## entry points -/

theorem fuel_dfs {L B unv fuel : Nat} (hu : unv ≤ L) (hf : (L + 1) * (B + 2) ≤ fuel) :
    unv * (B + 2) + (B + 1 - 0) < fuel := by
  have := Nat.mul_le_mul_right (B + 2) hu
  rw [Nat.succ_mul] at hf
  omega

theorem fuel_bfs {L B fuel : Nat} (hL : 0 < L) (hf : (L + 1) * (B + 2) ≤ fuel) :
    L + B + 3 ≤ fuel := by
  have h1 : L * 2 ≤ L * (B + 2) := Nat.mul_le_mul_left L (by omega)
  rw [Nat.succ_mul] at hf
  omega

theorem search_terminates_lin' (adj : σ → K → List (K × E)) (cb : Nat → Edge K E → σ → σ × Bool) (nval : K → Int)
    (kind : Kind) (root : K) (target : Option K) (cycle : Bool) (nodes : List K) (I : σ → Prop) (B : Nat) (st0 : σ)
    (hk : kind ≠ .dfs)
    (hroot : root ∈ nodes) (hI0 : I st0) (hI : ∀ i e st, I st → I (cb i e st).1)
    (hclosed : ∀ st, I st → ∀ u ∈ nodes, ∀ p ∈ adj st u, p.1 ∈ nodes)
    (hstop : ∀ i e st, I st → ∀ u ∈ nodes, (adj (cb i e st).1 u).length ≤ (adj st u).length)
    (hB : ∀ u ∈ nodes, (adj st0 u).length ≤ B) (fuel : Nat) (hf : nodes.length + B + 3 ≤ fuel) :
    (runLoopL adj cb nval kind root target cycle fuel st0).isSome = true := by
  have ht : Tame (σ := σ) { adj := adj, cb := cb, target := if cycle then some root else target } nodes 0 I :=
    ⟨hclosed, hI, fun i _ e st => hstop i e st⟩
  have hok : Ok (σ := σ) { adj := adj, cb := cb, target := if cycle then some root else target } nodes 0 I B
      ({ vis := if cycle then [] else [root] } : LSt σ K E).log.length st0 := ⟨hI0, Nat.le_refl _, hB⟩
  have hun := unv_le nodes (if cycle then [] else [root])
  cases kind with
  | dfs => exact absurd rfl hk
  | bfs =>
    obtain ⟨b, ts', st', h1, _⟩ := bfsLoopL_term ht B fuel [root] _ st0 hok
      (by intro x hx; simp only [List.mem_singleton] at hx; subst hx; exact hroot)
      (by simp only [List.length_singleton]; omega)
    simp only [runLoopL]
    rw [h1]; rfl
  | pfsMin =>
    obtain ⟨b, ts', st', h1, _⟩ := pfsLoopL_term ht B (fun k => - nval k) fuel [(root, - nval root)] _ st0 hok
      (by intro x hx; simp only [List.mem_singleton] at hx; subst hx; exact hroot)
      (by simp only [List.length_singleton]; omega)
    simp only [runLoopL]
    rw [h1]; rfl
  | pfsMax =>
    obtain ⟨b, ts', st', h1, _⟩ := pfsLoopL_term ht B nval fuel [(root, nval root)] _ st0 hok
      (by intro x hx; simp only [List.mem_singleton] at hx; subst hx; exact hroot)
      (by simp only [List.length_singleton]; omega)
    simp only [runLoopL]
    rw [h1]; rfl

theorem search_terminates_inv' (adj : σ → K → List (K × E)) (cb : Nat → Edge K E → σ → σ × Bool) (nval : K → Int)
    (kind : Kind) (root : K) (target : Option K) (cycle : Bool) (nodes : List K) (I : σ → Prop) (B : Nat) (st0 : σ)
    (hroot : root ∈ nodes) (hI0 : I st0) (hI : ∀ i e st, I st → I (cb i e st).1)
    (hclosed : ∀ st, I st → ∀ u ∈ nodes, ∀ p ∈ adj st u, p.1 ∈ nodes)
    (hstop : ∀ i e st, I st → ∀ u ∈ nodes, (adj (cb i e st).1 u).length ≤ (adj st u).length)
    (hB : ∀ u ∈ nodes, (adj st0 u).length ≤ B) (fuel : Nat) (hf : (nodes.length + 1) * (B + 2) ≤ fuel) :
    (runLoopL adj cb nval kind root target cycle fuel st0).isSome = true := by
  by_cases hk : kind = .dfs
  · subst hk
    have ht : Tame (σ := σ) { adj := adj, cb := cb, target := if cycle then some root else target } nodes 0 I :=
      ⟨hclosed, hI, fun i _ e st => hstop i e st⟩
    have hok : Ok (σ := σ) { adj := adj, cb := cb, target := if cycle then some root else target } nodes 0 I B
        ({ vis := if cycle then [] else [root] } : LSt σ K E).log.length st0 := ⟨hI0, Nat.le_refl _, hB⟩
    obtain ⟨b, ts', st', h1, _⟩ := dfsEdgesL_term ht B fuel root 0 _ st0 hroot hok
      (fuel_dfs (unv_le nodes (if cycle then [] else [root])) hf)
    simp only [runLoopL]
    rw [h1]; rfl
  · exact search_terminates_lin' adj cb nval kind root target cycle nodes I B st0 hk hroot hI0 hI hclosed hstop hB fuel
      (fuel_bfs (List.length_pos_of_mem hroot) hf)

theorem order_terminates_inv' (adj : σ → K → List (K × E)) (cb : Nat → Edge K E → σ → σ × Bool) (post : Bool)
    (root : K) (nodes : List K) (I : σ → Prop) (B : Nat) (st0 : σ)
    (hroot : root ∈ nodes) (hI0 : I st0) (hI : ∀ i e st, I st → I (cb i e st).1)
    (hclosed : ∀ st, I st → ∀ u ∈ nodes, ∀ p ∈ adj st u, p.1 ∈ nodes)
    (hstop : ∀ i e st, I st → ∀ u ∈ nodes, (adj (cb i e st).1 u).length ≤ (adj st u).length)
    (hB : ∀ u ∈ nodes, (adj st0 u).length ≤ B) (fuel : Nat) (hf : (nodes.length + 1) * (B + 2) ≤ fuel) :
    (orderEdgesL adj cb post root fuel st0).isSome = true := by
  have ht : Tame (σ := σ) { adj := adj, cb := cb, target := none } nodes 0 I :=
    ⟨hclosed, hI, fun i _ e st => hstop i e st⟩
  have hok : Ok (σ := σ) { adj := adj, cb := cb, target := none } nodes 0 I B
      ({ vis := [root] } : LSt σ K E).log.length st0 := ⟨hI0, Nat.le_refl _, hB⟩
  obtain ⟨ts', st', h1, _⟩ := ordEdgesL_term ht B post fuel root 0 _ st0 hroot hok
    (fuel_dfs (unv_le nodes [root]) hf)
  simp only [orderEdgesL]
  rw [h1]; rfl

/-! ## more fuel never changes a result -/

theorem dfsEdgesL_mono (c : LCfg σ K E) :
    ∀ (f : Nat) (u : K) (pos : Nat) (ts : LSt σ K E) (st : σ) (r : Bool × LSt σ K E × σ),
      dfsEdgesL c f u pos ts st = some r → ∀ f', f ≤ f' → dfsEdgesL c f' u pos ts st = some r := by
  intro f
  induction f with
  | zero => intro u pos ts st r h; simp [dfsEdgesL] at h
  | succ f ih =>
    intro u pos ts st r h f' hle
    obtain ⟨m, rfl⟩ : ∃ m, f' = m + 1 := ⟨f' - 1, by omega⟩
    have hm : f ≤ m := by omega
    rcases hg : (c.adj st u)[pos]? with _ | ⟨v, e⟩
    · simpa [dfsEdgesL, hg] using h
    · by_cases hacc : (c.cb ts.log.length (u, v, e) st).2 = true
      · by_cases hv : v ∈ ts.vis
        · simp [dfsEdgesL, hg, hacc, hv] at h ⊢
          exact ih _ _ _ _ _ h m hm
        · by_cases htg : c.target = some v
          · simpa [dfsEdgesL, hg, hacc, hv, htg] using h
          · simp [dfsEdgesL, hg, hacc, hv, htg] at h ⊢
            rcases hd : dfsEdgesL c f v 0
              { vis := v :: ts.vis, tree := ts.tree ++ [(u, v, e)], log := ts.log ++ [((u, v, e), st)] }
              (c.cb ts.log.length (u, v, e) st).1 with _ | ⟨b1, ts1, st1⟩
            · rw [hd] at h; cases h
            · rw [hd] at h
              rw [ih _ _ _ _ _ hd m hm]
              cases b1 with
              | true => exact h
              | false => exact ih _ _ _ _ _ h m hm
      · simp [dfsEdgesL, hg, hacc] at h ⊢
        exact ih _ _ _ _ _ h m hm

theorem ordEdgesL_mono (c : LCfg σ K E) (post : Bool) :
    ∀ (f : Nat) (u : K) (pos : Nat) (ts : LSt σ K E) (st : σ) (r : LSt σ K E × σ),
      ordEdgesL c post f u pos ts st = some r → ∀ f', f ≤ f' → ordEdgesL c post f' u pos ts st = some r := by
  intro f
  induction f with
  | zero => intro u pos ts st r h; simp [ordEdgesL] at h
  | succ f ih =>
    intro u pos ts st r h f' hle
    obtain ⟨m, rfl⟩ : ∃ m, f' = m + 1 := ⟨f' - 1, by omega⟩
    have hm : f ≤ m := by omega
    rcases hg : (c.adj st u)[pos]? with _ | ⟨v, e⟩
    · simpa [ordEdgesL, hg] using h
    · by_cases hacc : (c.cb ts.log.length (u, v, e) st).2 = true
      · by_cases hv : v ∈ ts.vis
        · simp [ordEdgesL, hg, hacc, hv] at h ⊢
          exact ih _ _ _ _ _ h m hm
        · simp [ordEdgesL, hg, hacc, hv] at h ⊢
          rcases hd : ordEdgesL c post f v 0
            { vis := v :: ts.vis, tree := if post then ts.tree else ts.tree ++ [(u, v, e)],
              log := ts.log ++ [((u, v, e), st)] }
            (c.cb ts.log.length (u, v, e) st).1 with _ | ⟨ts1, st1⟩
          · rw [hd] at h; cases h
          · rw [hd] at h
            rw [ih _ _ _ _ _ hd m hm]
            exact ih _ _ _ _ _ h m hm
      · simp [ordEdgesL, hg, hacc] at h ⊢
        exact ih _ _ _ _ _ h m hm

theorem bfsScanL_mono (c : LCfg σ K E) (u : K) :
    ∀ (f pos : Nat) (ts : LSt σ K E) (q : List K) (st : σ) (r : Bool × LSt σ K E × List K × σ),
      bfsScanL c u f pos ts q st = some r → ∀ f', f ≤ f' → bfsScanL c u f' pos ts q st = some r := by
  intro f
  induction f with
  | zero => intro pos ts q st r h; simp [bfsScanL] at h
  | succ f ih =>
    intro pos ts q st r h f' hle
    obtain ⟨m, rfl⟩ : ∃ m, f' = m + 1 := ⟨f' - 1, by omega⟩
    have hm : f ≤ m := by omega
    rcases hg : (c.adj st u)[pos]? with _ | ⟨v, e⟩
    · simpa [bfsScanL, hg] using h
    · by_cases hacc : (c.cb ts.log.length (u, v, e) st).2 = true
      · by_cases hv : v ∈ ts.vis
        · simp [bfsScanL, hg, hacc, hv] at h ⊢
          exact ih _ _ _ _ _ h m hm
        · by_cases htg : c.target = some v
          · simpa [bfsScanL, hg, hacc, hv, htg] using h
          · simp [bfsScanL, hg, hacc, hv, htg] at h ⊢
            exact ih _ _ _ _ _ h m hm
      · simp [bfsScanL, hg, hacc] at h ⊢
        exact ih _ _ _ _ _ h m hm

theorem pfsScanL_mono (c : LCfg σ K E) (prio : K → Int) (u : K) :
    ∀ (f pos : Nat) (ts : LSt σ K E) (q : List (K × Int)) (st : σ) (r : Bool × LSt σ K E × List (K × Int) × σ),
      pfsScanL c prio u f pos ts q st = some r → ∀ f', f ≤ f' → pfsScanL c prio u f' pos ts q st = some r := by
  intro f
  induction f with
  | zero => intro pos ts q st r h; simp [pfsScanL] at h
  | succ f ih =>
    intro pos ts q st r h f' hle
    obtain ⟨m, rfl⟩ : ∃ m, f' = m + 1 := ⟨f' - 1, by omega⟩
    have hm : f ≤ m := by omega
    rcases hg : (c.adj st u)[pos]? with _ | ⟨v, e⟩
    · simpa [pfsScanL, hg] using h
    · by_cases hacc : (c.cb ts.log.length (u, v, e) st).2 = true
      · by_cases hv : v ∈ ts.vis
        · simp [pfsScanL, hg, hacc, hv] at h ⊢
          exact ih _ _ _ _ _ h m hm
        · by_cases htg : c.target = some v
          · simpa [pfsScanL, hg, hacc, hv, htg] using h
          · simp [pfsScanL, hg, hacc, hv, htg] at h ⊢
            exact ih _ _ _ _ _ h m hm
      · simp [pfsScanL, hg, hacc] at h ⊢
        exact ih _ _ _ _ _ h m hm

theorem bfsLoopL_mono (c : LCfg σ K E) :
    ∀ (f : Nat) (q : List K) (ts : LSt σ K E) (st : σ) (r : Bool × LSt σ K E × σ),
      bfsLoopL c f q ts st = some r → ∀ f', f ≤ f' → bfsLoopL c f' q ts st = some r := by
  intro f
  induction f with
  | zero => intro q ts st r h; simp [bfsLoopL] at h
  | succ f ih =>
    intro q ts st r h f' hle
    obtain ⟨m, rfl⟩ : ∃ m, f' = m + 1 := ⟨f' - 1, by omega⟩
    have hm : f ≤ m := by omega
    cases q with
    | nil => simpa [bfsLoopL] using h
    | cons u q =>
      simp only [bfsLoopL] at h ⊢
      rcases hd : bfsScanL c u f 0 ts q st with _ | ⟨b1, ts1, q1, st1⟩
      · rw [hd] at h; cases h
      · rw [hd] at h
        rw [bfsScanL_mono c u _ _ _ _ _ _ hd m hm]
        cases b1 with
        | true => exact h
        | false => exact ih _ _ _ _ h m hm

theorem pfsLoopL_mono (c : LCfg σ K E) (prio : K → Int) :
    ∀ (f : Nat) (q : List (K × Int)) (ts : LSt σ K E) (st : σ) (r : Bool × LSt σ K E × σ),
      pfsLoopL c prio f q ts st = some r → ∀ f', f ≤ f' → pfsLoopL c prio f' q ts st = some r := by
  intro f
  induction f with
  | zero => intro q ts st r h; simp [pfsLoopL] at h
  | succ f ih =>
    intro q ts st r h f' hle
    obtain ⟨m, rfl⟩ : ∃ m, f' = m + 1 := ⟨f' - 1, by omega⟩
    have hm : f ≤ m := by omega
    rcases hp : heapPop (·.2) q with _ | ⟨⟨u, w⟩, q0⟩
    · simpa [pfsLoopL, hp] using h
    · simp only [pfsLoopL, hp] at h ⊢
      rcases hd : pfsScanL c prio u f 0 ts q0 st with _ | ⟨b1, ts1, q1, st1⟩
      · rw [hd] at h; cases h
      · rw [hd] at h
        rw [pfsScanL_mono c prio u _ _ _ _ _ _ hd m hm]
        cases b1 with
        | true => exact h
        | false => exact ih _ _ _ _ h m hm

/-! ## a scan that hands out nothing changes nothing -/

theorem bfsScanL_progress (c : LCfg σ K E) (u : K) :
    ∀ (f pos : Nat) (ts : LSt σ K E) (q : List K) (st : σ) (b : Bool) (ts' : LSt σ K E) (q' : List K) (st' : σ),
      bfsScanL c u f pos ts q st = some (b, ts', q', st') →
      (b = false ∧ ts' = ts ∧ q' = q ∧ st' = st) ∨ ts.log.length < ts'.log.length := by
  intro f
  induction f with
  | zero => intro pos ts q st b ts' q' st' h; simp [bfsScanL] at h
  | succ f ih =>
    intro pos ts q st b ts' q' st' h
    simp only [bfsScanL] at h
    split at h
    · simp only [Option.some.injEq, Prod.mk.injEq] at h
      obtain ⟨rfl, rfl, rfl, rfl⟩ := h
      exact Or.inl ⟨rfl, rfl, rfl, rfl⟩
    · right
      split at h
      · split at h
        · rcases ih _ _ _ _ _ _ _ _ h with ⟨_, rfl, _, _⟩ | h' <;> simp at * <;> omega
        · split at h
          · simp only [Option.some.injEq, Prod.mk.injEq] at h
            obtain ⟨_, rfl, _, _⟩ := h
            simp
          · rcases ih _ _ _ _ _ _ _ _ h with ⟨_, rfl, _, _⟩ | h' <;> simp at * <;> omega
      · rcases ih _ _ _ _ _ _ _ _ h with ⟨_, rfl, _, _⟩ | h' <;> simp at * <;> omega

theorem pfsScanL_progress (c : LCfg σ K E) (prio : K → Int) (u : K) :
    ∀ (f pos : Nat) (ts : LSt σ K E) (q : List (K × Int)) (st : σ) (b : Bool) (ts' : LSt σ K E) (q' : List (K × Int))
      (st' : σ),
      pfsScanL c prio u f pos ts q st = some (b, ts', q', st') →
      (b = false ∧ ts' = ts ∧ q' = q ∧ st' = st) ∨ ts.log.length < ts'.log.length := by
  intro f
  induction f with
  | zero => intro pos ts q st b ts' q' st' h; simp [pfsScanL] at h
  | succ f ih =>
    intro pos ts q st b ts' q' st' h
    simp only [pfsScanL] at h
    split at h
    · simp only [Option.some.injEq, Prod.mk.injEq] at h
      obtain ⟨rfl, rfl, rfl, rfl⟩ := h
      exact Or.inl ⟨rfl, rfl, rfl, rfl⟩
    · right
      split at h
      · split at h
        · rcases ih _ _ _ _ _ _ _ _ h with ⟨_, rfl, _, _⟩ | h' <;> simp at * <;> omega
        · split at h
          · simp only [Option.some.injEq, Prod.mk.injEq] at h
            obtain ⟨_, rfl, _, _⟩ := h
            simp
          · rcases ih _ _ _ _ _ _ _ _ h with ⟨_, rfl, _, _⟩ | h' <;> simp at * <;> omega
      · rcases ih _ _ _ _ _ _ _ _ h with ⟨_, rfl, _, _⟩ | h' <;> simp at * <;> omega

/-- the lists of finitely many nodes have a common length bound -/
theorem exists_bound (adj : K → List (K × E)) (nodes : List K) : ∃ B, ∀ w ∈ nodes, (adj w).length ≤ B := by
  induction nodes with
  | nil => exact ⟨0, fun _ h => by cases h⟩
  | cons a t ih =>
    obtain ⟨B, hB⟩ := ih
    refine ⟨max B (adj a).length, ?_⟩
    intro w hw
    rcases List.mem_cons.1 hw with rfl | hw
    · exact Nat.le_max_right _ _
    · exact Nat.le_trans (hB w hw) (Nat.le_max_left _ _)

/-! ## once the closure has stopped (`n ≤` calls made): some fuel suffices, whatever the state -/

theorem dfsEdgesL_ev0 {c : LCfg σ K E} {nodes : List K} {n : Nat} {I : σ → Prop} (ht : Tame c nodes n I)
    (u : K) (pos : Nat) (ts : LSt σ K E) (st : σ) (hu : u ∈ nodes) (hI : I st) (hn : n ≤ ts.log.length) :
    ∃ F b ts' st', dfsEdgesL c F u pos ts st = some (b, ts', st') ∧ I st' ∧ n ≤ ts'.log.length := by
  obtain ⟨B, hB⟩ := exists_bound (c.adj st) nodes
  obtain ⟨b, ts', st', h1, _, h3⟩ := dfsEdgesL_term ht B _ u pos ts st hu ⟨hI, hn, hB⟩ (Nat.lt_succ_self _)
  exact ⟨_, b, ts', st', h1, h3.inv, h3.late⟩

theorem ordEdgesL_ev0 {c : LCfg σ K E} {nodes : List K} {n : Nat} {I : σ → Prop} (ht : Tame c nodes n I) (post : Bool)
    (u : K) (pos : Nat) (ts : LSt σ K E) (st : σ) (hu : u ∈ nodes) (hI : I st) (hn : n ≤ ts.log.length) :
    ∃ F ts' st', ordEdgesL c post F u pos ts st = some (ts', st') ∧ I st' ∧ n ≤ ts'.log.length := by
  obtain ⟨B, hB⟩ := exists_bound (c.adj st) nodes
  obtain ⟨ts', st', h1, _, h3⟩ := ordEdgesL_term ht B post _ u pos ts st hu ⟨hI, hn, hB⟩ (Nat.lt_succ_self _)
  exact ⟨_, ts', st', h1, h3.inv, h3.late⟩

theorem bfsLoopL_ev0 {c : LCfg σ K E} {nodes : List K} {n : Nat} {I : σ → Prop} (ht : Tame c nodes n I)
    (q : List K) (ts : LSt σ K E) (st : σ) (hq : ∀ x ∈ q, x ∈ nodes) (hI : I st) (hn : n ≤ ts.log.length) :
    ∃ F r, bfsLoopL c F q ts st = some r := by
  obtain ⟨B, hB⟩ := exists_bound (c.adj st) nodes
  obtain ⟨b, ts', st', h1, _⟩ := bfsLoopL_term ht B _ q ts st ⟨hI, hn, hB⟩ hq (Nat.lt_succ_self _)
  exact ⟨_, _, h1⟩

theorem pfsLoopL_ev0 {c : LCfg σ K E} {nodes : List K} {n : Nat} {I : σ → Prop} (ht : Tame c nodes n I) (prio : K → Int)
    (q : List (K × Int)) (ts : LSt σ K E) (st : σ) (hq : ∀ x ∈ q, x.1 ∈ nodes) (hI : I st) (hn : n ≤ ts.log.length) :
    ∃ F r, pfsLoopL c prio F q ts st = some r := by
  obtain ⟨B, hB⟩ := exists_bound (c.adj st) nodes
  obtain ⟨b, ts', st', h1, _⟩ := pfsLoopL_term ht B prio _ q ts st ⟨hI, hn, hB⟩ hq (Nat.lt_succ_self _)
  exact ⟨_, _, h1⟩

/-! ## the closure stops after `n` calls: some fuel suffices from the start (induction on the calls left) -/

theorem dfsEdgesL_ev {c : LCfg σ K E} {nodes : List K} {n : Nat} {I : σ → Prop} (ht : Tame c nodes n I) :
    ∀ (d : Nat) (u : K) (pos : Nat) (ts : LSt σ K E) (st : σ), u ∈ nodes → I st → n - ts.log.length ≤ d →
      ∃ F b ts' st', dfsEdgesL c F u pos ts st = some (b, ts', st') ∧ I st' ∧ n - ts'.log.length ≤ d := by
  intro d
  induction d with
  | zero =>
    intro u pos ts st hu hI hd
    obtain ⟨F, b, ts', st', h1, h2, h3⟩ := dfsEdgesL_ev0 ht u pos ts st hu hI (by omega)
    exact ⟨F, b, ts', st', h1, h2, by omega⟩
  | succ d ih =>
    intro u pos ts st hu hI hd
    by_cases hn : n ≤ ts.log.length
    · obtain ⟨F, b, ts', st', h1, h2, h3⟩ := dfsEdgesL_ev0 ht u pos ts st hu hI hn
      exact ⟨F, b, ts', st', h1, h2, by omega⟩
    · rcases hg : (c.adj st u)[pos]? with _ | ⟨v, e⟩
      · exact ⟨1, false, ts, st, by simp [dfsEdgesL, hg], hI, hd⟩
      · have hI' := ht.inv ts.log.length (u, v, e) st hI
        have hvn : v ∈ nodes := ht.closed st hI u hu (v, e) (List.mem_of_getElem? hg)
        have hd' : n - (ts.log ++ [((u, v, e), st)]).length ≤ d := by
          simp only [List.length_append, List.length_singleton]; omega
        by_cases hacc : (c.cb ts.log.length (u, v, e) st).2 = true
        · by_cases hv : v ∈ ts.vis
          · obtain ⟨F, b, ts', st', h1, h2, h3⟩ := ih u (pos + 1) { ts with log := ts.log ++ [((u, v, e), st)] }
              (c.cb ts.log.length (u, v, e) st).1 hu hI' hd'
            exact ⟨F + 1, b, ts', st', by simpa [dfsEdgesL, hg, hacc, hv] using h1, h2, by omega⟩
          · by_cases htg : c.target = some v
            · exact ⟨1, true, { vis := v :: ts.vis, tree := ts.tree ++ [(u, v, e)], log := ts.log ++ [((u, v, e), st)] },
                (c.cb ts.log.length (u, v, e) st).1, by simp [dfsEdgesL, hg, hacc, hv, htg], hI',
                by simp only; omega⟩
            · obtain ⟨F1, b1, ts1, st1, h1, h2, h3⟩ := ih v 0
                { vis := v :: ts.vis, tree := ts.tree ++ [(u, v, e)], log := ts.log ++ [((u, v, e), st)] }
                (c.cb ts.log.length (u, v, e) st).1 hvn hI' hd'
              cases b1 with
              | true =>
                exact ⟨F1 + 1, true, ts1, st1, by simp [dfsEdgesL, hg, hacc, hv, htg, h1], h2, by omega⟩
              | false =>
                obtain ⟨F2, b2, ts2, st2, h4, h5, h6⟩ := ih u (pos + 1) ts1 st1 hu h2 h3
                have h1' := dfsEdgesL_mono c _ _ _ _ _ _ h1 (max F1 F2) (Nat.le_max_left _ _)
                have h4' := dfsEdgesL_mono c _ _ _ _ _ _ h4 (max F1 F2) (Nat.le_max_right _ _)
                exact ⟨max F1 F2 + 1, b2, ts2, st2, by simp [dfsEdgesL, hg, hacc, hv, htg, h1', h4'], h5, by omega⟩
        · obtain ⟨F, b, ts', st', h1, h2, h3⟩ := ih u (pos + 1) { ts with log := ts.log ++ [((u, v, e), st)] }
            (c.cb ts.log.length (u, v, e) st).1 hu hI' hd'
          exact ⟨F + 1, b, ts', st', by simpa [dfsEdgesL, hg, hacc] using h1, h2, by omega⟩

theorem ordEdgesL_ev {c : LCfg σ K E} {nodes : List K} {n : Nat} {I : σ → Prop} (ht : Tame c nodes n I) (post : Bool) :
    ∀ (d : Nat) (u : K) (pos : Nat) (ts : LSt σ K E) (st : σ), u ∈ nodes → I st → n - ts.log.length ≤ d →
      ∃ F ts' st', ordEdgesL c post F u pos ts st = some (ts', st') ∧ I st' ∧ n - ts'.log.length ≤ d := by
  intro d
  induction d with
  | zero =>
    intro u pos ts st hu hI hd
    obtain ⟨F, ts', st', h1, h2, h3⟩ := ordEdgesL_ev0 ht post u pos ts st hu hI (by omega)
    exact ⟨F, ts', st', h1, h2, by omega⟩
  | succ d ih =>
    intro u pos ts st hu hI hd
    by_cases hn : n ≤ ts.log.length
    · obtain ⟨F, ts', st', h1, h2, h3⟩ := ordEdgesL_ev0 ht post u pos ts st hu hI hn
      exact ⟨F, ts', st', h1, h2, by omega⟩
    · rcases hg : (c.adj st u)[pos]? with _ | ⟨v, e⟩
      · exact ⟨1, ts, st, by simp [ordEdgesL, hg], hI, hd⟩
      · have hI' := ht.inv ts.log.length (u, v, e) st hI
        have hvn : v ∈ nodes := ht.closed st hI u hu (v, e) (List.mem_of_getElem? hg)
        have hd' : n - (ts.log ++ [((u, v, e), st)]).length ≤ d := by
          simp only [List.length_append, List.length_singleton]; omega
        by_cases hacc : (c.cb ts.log.length (u, v, e) st).2 = true
        · by_cases hv : v ∈ ts.vis
          · obtain ⟨F, ts', st', h1, h2, h3⟩ := ih u (pos + 1) { ts with log := ts.log ++ [((u, v, e), st)] }
              (c.cb ts.log.length (u, v, e) st).1 hu hI' hd'
            exact ⟨F + 1, ts', st', by simpa [ordEdgesL, hg, hacc, hv] using h1, h2, by omega⟩
          · obtain ⟨F1, ts1, st1, h1, h2, h3⟩ := ih v 0
              { vis := v :: ts.vis, tree := if post then ts.tree else ts.tree ++ [(u, v, e)],
                log := ts.log ++ [((u, v, e), st)] }
              (c.cb ts.log.length (u, v, e) st).1 hvn hI' hd'
            obtain ⟨F2, ts2, st2, h4, h5, h6⟩ := ih u (pos + 1)
              { ts1 with tree := if post then ts1.tree ++ [(u, v, e)] else ts1.tree } st1 hu h2 h3
            have h1' := ordEdgesL_mono c post _ _ _ _ _ _ h1 (max F1 F2) (Nat.le_max_left _ _)
            have h4' := ordEdgesL_mono c post _ _ _ _ _ _ h4 (max F1 F2) (Nat.le_max_right _ _)
            exact ⟨max F1 F2 + 1, ts2, st2, by simp [ordEdgesL, hg, hacc, hv, h1', h4'], h5, by omega⟩
        · obtain ⟨F, ts', st', h1, h2, h3⟩ := ih u (pos + 1) { ts with log := ts.log ++ [((u, v, e), st)] }
            (c.cb ts.log.length (u, v, e) st).1 hu hI' hd'
          exact ⟨F + 1, ts', st', by simpa [ordEdgesL, hg, hacc] using h1, h2, by omega⟩

/-- a scan ends whatever the closure does: it reads one list, and only `n` calls may lengthen it -/
theorem bfsScanL_ev {c : LCfg σ K E} {nodes : List K} {n : Nat} {I : σ → Prop} (ht : Tame c nodes n I)
    (u : K) (hu : u ∈ nodes) :
    ∀ (d pos : Nat) (ts : LSt σ K E) (q : List K) (st : σ), I st → (∀ x ∈ q, x ∈ nodes) → n - ts.log.length ≤ d →
      ∃ F b ts' q' st', bfsScanL c u F pos ts q st = some (b, ts', q', st') ∧ I st' ∧ (∀ x ∈ q', x ∈ nodes) := by
  intro d
  induction d with
  | zero =>
    intro pos ts q st hI hq hd
    obtain ⟨B, hB⟩ := exists_bound (c.adj st) nodes
    obtain ⟨b, ts', q', st', h1, h2, h3, _⟩ := bfsScanL_term ht B u hu _ pos ts q st ⟨hI, by omega, hB⟩ hq (Nat.lt_succ_self _)
    exact ⟨_, b, ts', q', st', h1, h2.inv, h3⟩
  | succ d ih =>
    intro pos ts q st hI hq hd
    rcases hg : (c.adj st u)[pos]? with _ | ⟨v, e⟩
    · exact ⟨1, false, ts, q, st, by simp [bfsScanL, hg], hI, hq⟩
    · have hI' := ht.inv ts.log.length (u, v, e) st hI
      have hvn : v ∈ nodes := ht.closed st hI u hu (v, e) (List.mem_of_getElem? hg)
      have hd' : n - (ts.log ++ [((u, v, e), st)]).length ≤ d := by
        simp only [List.length_append, List.length_singleton]; omega
      by_cases hacc : (c.cb ts.log.length (u, v, e) st).2 = true
      · by_cases hv : v ∈ ts.vis
        · obtain ⟨F, b, ts', q', st', h1, h2, h3⟩ := ih (pos + 1) { ts with log := ts.log ++ [((u, v, e), st)] } q
            (c.cb ts.log.length (u, v, e) st).1 hI' hq hd'
          exact ⟨F + 1, b, ts', q', st', by simpa [bfsScanL, hg, hacc, hv] using h1, h2, h3⟩
        · by_cases htg : c.target = some v
          · exact ⟨1, true, { vis := v :: ts.vis, tree := ts.tree ++ [(u, v, e)], log := ts.log ++ [((u, v, e), st)] }, q,
              (c.cb ts.log.length (u, v, e) st).1, by simp [bfsScanL, hg, hacc, hv, htg], hI', hq⟩
          · obtain ⟨F, b, ts', q', st', h1, h2, h3⟩ := ih (pos + 1)
              { vis := v :: ts.vis, tree := ts.tree ++ [(u, v, e)], log := ts.log ++ [((u, v, e), st)] } (q ++ [v])
              (c.cb ts.log.length (u, v, e) st).1 hI'
              (by
                intro x hx
                rcases List.mem_append.1 hx with hx | hx
                · exact hq x hx
                · simp only [List.mem_singleton] at hx; subst hx; exact hvn)
              hd'
            exact ⟨F + 1, b, ts', q', st', by simpa [bfsScanL, hg, hacc, hv, htg] using h1, h2, h3⟩
      · obtain ⟨F, b, ts', q', st', h1, h2, h3⟩ := ih (pos + 1) { ts with log := ts.log ++ [((u, v, e), st)] } q
          (c.cb ts.log.length (u, v, e) st).1 hI' hq hd'
        exact ⟨F + 1, b, ts', q', st', by simpa [bfsScanL, hg, hacc] using h1, h2, h3⟩

theorem pfsScanL_ev {c : LCfg σ K E} {nodes : List K} {n : Nat} {I : σ → Prop} (ht : Tame c nodes n I) (prio : K → Int)
    (u : K) (hu : u ∈ nodes) :
    ∀ (d pos : Nat) (ts : LSt σ K E) (q : List (K × Int)) (st : σ), I st → (∀ x ∈ q, x.1 ∈ nodes) →
      n - ts.log.length ≤ d →
      ∃ F b ts' q' st', pfsScanL c prio u F pos ts q st = some (b, ts', q', st') ∧ I st' ∧ (∀ x ∈ q', x.1 ∈ nodes) := by
  intro d
  induction d with
  | zero =>
    intro pos ts q st hI hq hd
    obtain ⟨B, hB⟩ := exists_bound (c.adj st) nodes
    obtain ⟨b, ts', q', st', h1, h2, h3, _⟩ := pfsScanL_term ht B prio u hu _ pos ts q st ⟨hI, by omega, hB⟩ hq
      (Nat.lt_succ_self _)
    exact ⟨_, b, ts', q', st', h1, h2.inv, h3⟩
  | succ d ih =>
    intro pos ts q st hI hq hd
    rcases hg : (c.adj st u)[pos]? with _ | ⟨v, e⟩
    · exact ⟨1, false, ts, q, st, by simp [pfsScanL, hg], hI, hq⟩
    · have hI' := ht.inv ts.log.length (u, v, e) st hI
      have hvn : v ∈ nodes := ht.closed st hI u hu (v, e) (List.mem_of_getElem? hg)
      have hd' : n - (ts.log ++ [((u, v, e), st)]).length ≤ d := by
        simp only [List.length_append, List.length_singleton]; omega
      by_cases hacc : (c.cb ts.log.length (u, v, e) st).2 = true
      · by_cases hv : v ∈ ts.vis
        · obtain ⟨F, b, ts', q', st', h1, h2, h3⟩ := ih (pos + 1) { ts with log := ts.log ++ [((u, v, e), st)] } q
            (c.cb ts.log.length (u, v, e) st).1 hI' hq hd'
          exact ⟨F + 1, b, ts', q', st', by simpa [pfsScanL, hg, hacc, hv] using h1, h2, h3⟩
        · by_cases htg : c.target = some v
          · exact ⟨1, true, { vis := v :: ts.vis, tree := ts.tree ++ [(u, v, e)], log := ts.log ++ [((u, v, e), st)] }, q,
              (c.cb ts.log.length (u, v, e) st).1, by simp [pfsScanL, hg, hacc, hv, htg], hI', hq⟩
          · have hp := heapPush_perm (·.2) q (v, prio v)
            obtain ⟨F, b, ts', q', st', h1, h2, h3⟩ := ih (pos + 1)
              { vis := v :: ts.vis, tree := ts.tree ++ [(u, v, e)], log := ts.log ++ [((u, v, e), st)] }
              (heapPush (·.2) q (v, prio v))
              (c.cb ts.log.length (u, v, e) st).1 hI'
              (by
                intro x hx
                rcases List.mem_cons.1 (hp.mem_iff.1 hx) with hx | hx
                · subst hx; exact hvn
                · exact hq x hx)
              hd'
            exact ⟨F + 1, b, ts', q', st', by simpa [pfsScanL, hg, hacc, hv, htg] using h1, h2, h3⟩
      · obtain ⟨F, b, ts', q', st', h1, h2, h3⟩ := ih (pos + 1) { ts with log := ts.log ++ [((u, v, e), st)] } q
          (c.cb ts.log.length (u, v, e) st).1 hI' hq hd'
        exact ⟨F + 1, b, ts', q', st', by simpa [pfsScanL, hg, hacc] using h1, h2, h3⟩

theorem bfsLoopL_ev {c : LCfg σ K E} {nodes : List K} {n : Nat} {I : σ → Prop} (ht : Tame c nodes n I) :
    ∀ (d : Nat) (q : List K) (ts : LSt σ K E) (st : σ), I st → (∀ x ∈ q, x ∈ nodes) → n - ts.log.length ≤ d →
      ∃ F r, bfsLoopL c F q ts st = some r := by
  intro d
  induction d with
  | zero =>
    intro q ts st hI hq hd
    exact bfsLoopL_ev0 ht q ts st hq hI (by omega)
  | succ d ih =>
    intro q
    induction q with
    | nil => intro ts st _ _ _; exact ⟨1, (false, ts, st), by simp [bfsLoopL]⟩
    | cons u q0 ihq =>
      intro ts st hI hq hd
      have hq0 : ∀ x ∈ q0, x ∈ nodes := fun x hx => hq x (List.mem_cons_of_mem _ hx)
      obtain ⟨F1, b1, ts1, q1, st1, h1, h2, h3⟩ := bfsScanL_ev ht u (hq u List.mem_cons_self) (d + 1) 0 ts q0 st hI hq0 hd
      cases b1 with
      | true =>
        exact ⟨F1 + 1, (true, ts1, st1), by simp [bfsLoopL, h1]⟩
      | false =>
        have hrest : ∃ F2 r, bfsLoopL c F2 q1 ts1 st1 = some r := by
          rcases bfsScanL_progress c u _ _ _ _ _ _ _ _ _ h1 with ⟨_, rfl, rfl, rfl⟩ | hlt
          · exact ihq ts1 st1 hI hq0 hd
          · exact ih q1 ts1 st1 h2 h3 (by omega)
        obtain ⟨F2, r, h4⟩ := hrest
        have h1' := bfsScanL_mono c u _ _ _ _ _ _ h1 (max F1 F2) (Nat.le_max_left _ _)
        have h4' := bfsLoopL_mono c _ _ _ _ _ h4 (max F1 F2) (Nat.le_max_right _ _)
        exact ⟨max F1 F2 + 1, r, by simp [bfsLoopL, h1', h4']⟩

theorem pfsLoopL_ev {c : LCfg σ K E} {nodes : List K} {n : Nat} {I : σ → Prop} (ht : Tame c nodes n I) (prio : K → Int) :
    ∀ (d m : Nat) (q : List (K × Int)) (ts : LSt σ K E) (st : σ), q.length ≤ m → I st → (∀ x ∈ q, x.1 ∈ nodes) →
      n - ts.log.length ≤ d → ∃ F r, pfsLoopL c prio F q ts st = some r := by
  intro d
  induction d with
  | zero =>
    intro m q ts st _ hI hq hd
    exact pfsLoopL_ev0 ht prio q ts st hq hI (by omega)
  | succ d ih =>
    intro m
    induction m with
    | zero =>
      intro q ts st hm _ _ _
      have : q = [] := List.eq_nil_of_length_eq_zero (by omega)
      subst this
      exact ⟨1, (false, ts, st), by simp [pfsLoopL, heapPop]⟩
    | succ m ihm =>
      intro q ts st hm hI hq hd
      rcases hp : heapPop (·.2) q with _ | ⟨⟨u, w⟩, q0⟩
      · exact ⟨1, (false, ts, st), by simp [pfsLoopL, hp]⟩
      · have hperm := heapPop_perm (·.2) q q0 (u, w) hp
        have hlen := hperm.length_eq
        simp only [List.length_cons] at hlen
        have hun : u ∈ nodes := hq (u, w) (hperm.mem_iff.2 List.mem_cons_self)
        have hq0 : ∀ x ∈ q0, x.1 ∈ nodes := fun x hx => hq x (hperm.mem_iff.2 (List.mem_cons_of_mem _ hx))
        obtain ⟨F1, b1, ts1, q1, st1, h1, h2, h3⟩ := pfsScanL_ev ht prio u hun (d + 1) 0 ts q0 st hI hq0 hd
        cases b1 with
        | true =>
          exact ⟨F1 + 1, (true, ts1, st1), by simp [pfsLoopL, hp, h1]⟩
        | false =>
          have hrest : ∃ F2 r, pfsLoopL c prio F2 q1 ts1 st1 = some r := by
            rcases pfsScanL_progress c prio u _ _ _ _ _ _ _ _ _ h1 with ⟨_, rfl, rfl, rfl⟩ | hlt
            · exact ihm q1 ts1 st1 (by omega) hI hq0 hd
            · exact ih q1.length q1 ts1 st1 (Nat.le_refl _) h2 h3 (by omega)
          obtain ⟨F2, r, h4⟩ := hrest
          have h1' := pfsScanL_mono c prio u _ _ _ _ _ _ h1 (max F1 F2) (Nat.le_max_left _ _)
          have h4' := pfsLoopL_mono c prio _ _ _ _ _ h4 (max F1 F2) (Nat.le_max_right _ _)
          exact ⟨max F1 F2 + 1, r, by simp [pfsLoopL, hp, h1', h4']⟩

theorem search_terminates_eventually' (adj : σ → K → List (K × E)) (cb : Nat → Edge K E → σ → σ × Bool) (nval : K → Int)
    (kind : Kind) (root : K) (target : Option K) (cycle : Bool) (nodes : List K) (I : σ → Prop) (n : Nat) (st0 : σ)
    (hroot : root ∈ nodes) (hI0 : I st0) (hI : ∀ i e st, I st → I (cb i e st).1)
    (hclosed : ∀ st, I st → ∀ u ∈ nodes, ∀ p ∈ adj st u, p.1 ∈ nodes)
    (hstop : ∀ i, n ≤ i → ∀ e st, I st → ∀ u ∈ nodes, (adj (cb i e st).1 u).length ≤ (adj st u).length) :
    ∃ F r, ∀ fuel, F ≤ fuel → runLoopL adj cb nval kind root target cycle fuel st0 = some r := by
  have ht : Tame (σ := σ) { adj := adj, cb := cb, target := if cycle then some root else target } nodes n I :=
    ⟨hclosed, hI, hstop⟩
  cases kind with
  | dfs =>
    obtain ⟨F, b, ts', st', h1, _⟩ := dfsEdgesL_ev ht n root 0 { vis := if cycle then [] else [root] } st0 hroot hI0
      (Nat.sub_le _ _)
    exact ⟨F, _, fun fuel hle => dfsEdgesL_mono _ _ _ _ _ _ _ h1 fuel hle⟩
  | bfs =>
    obtain ⟨F, r, h1⟩ := bfsLoopL_ev ht n [root] { vis := if cycle then [] else [root] } st0 hI0
      (by intro x hx; simp only [List.mem_singleton] at hx; subst hx; exact hroot) (Nat.sub_le _ _)
    exact ⟨F, r, fun fuel hle => bfsLoopL_mono _ _ _ _ _ _ h1 fuel hle⟩
  | pfsMin =>
    obtain ⟨F, r, h1⟩ := pfsLoopL_ev ht (fun k => - nval k) n 1 [(root, - nval root)]
      { vis := if cycle then [] else [root] } st0 (Nat.le_refl _) hI0
      (by intro x hx; simp only [List.mem_singleton] at hx; subst hx; exact hroot) (Nat.sub_le _ _)
    exact ⟨F, r, fun fuel hle => pfsLoopL_mono _ _ _ _ _ _ _ h1 fuel hle⟩
  | pfsMax =>
    obtain ⟨F, r, h1⟩ := pfsLoopL_ev ht nval n 1 [(root, nval root)]
      { vis := if cycle then [] else [root] } st0 (Nat.le_refl _) hI0
      (by intro x hx; simp only [List.mem_singleton] at hx; subst hx; exact hroot) (Nat.sub_le _ _)
    exact ⟨F, r, fun fuel hle => pfsLoopL_mono _ _ _ _ _ _ _ h1 fuel hle⟩

theorem order_terminates_eventually' (adj : σ → K → List (K × E)) (cb : Nat → Edge K E → σ → σ × Bool) (post : Bool)
    (root : K) (nodes : List K) (I : σ → Prop) (n : Nat) (st0 : σ)
    (hroot : root ∈ nodes) (hI0 : I st0) (hI : ∀ i e st, I st → I (cb i e st).1)
    (hclosed : ∀ st, I st → ∀ u ∈ nodes, ∀ p ∈ adj st u, p.1 ∈ nodes)
    (hstop : ∀ i, n ≤ i → ∀ e st, I st → ∀ u ∈ nodes, (adj (cb i e st).1 u).length ≤ (adj st u).length) :
    ∃ F r, ∀ fuel, F ≤ fuel → orderEdgesL adj cb post root fuel st0 = some r := by
  have ht : Tame (σ := σ) { adj := adj, cb := cb, target := none } nodes n I := ⟨hclosed, hI, hstop⟩
  obtain ⟨F, ts', st', h1, _⟩ := ordEdgesL_ev ht post n root 0 { vis := [root] } st0 hroot hI0 (Nat.sub_le _ _)
  exact ⟨F, _, fun fuel hle => ordEdgesL_mono _ _ _ _ _ _ _ _ h1 fuel hle⟩

end Live
end G

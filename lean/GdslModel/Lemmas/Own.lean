import GdslModel.Model.Own
import GdslModel.Lemmas.Bfs
import GdslModel.Lemmas.Dfs
import GdslModel.Lemmas.Order
/-!
# Lemmas for C19 (ownership accounting)

Core Lean only. `InvU` is the accounting invariant of `Props/C19.lean` (`OwnSt.Inv`) written out;
`W` is the weaker fact that holds *between* `setSlot` and `settle`: nothing held is released.
`settle` turns `W` into `InvU` (`settle_inv`), and `setSlot i ks` keeps `W` whenever every key of
`ks` is alive (`W_setSlot`). Every operation only stores alive keys: keys held by a slot, a fresh
key, or keys reached from a held key through adjacency entries under the `neighboursAlive` /
`noDangling` guards (`reach_alive`, `walk_alive`, with the soundness theorems of the traversals).
-/
namespace G
set_option linter.unusedSectionVars false
set_option linter.unusedVariables false
variable {K E : Type} [DecidableEq K]
namespace Own

/-- the accounting invariant (`OwnSt.Inv` of `Props/C19.lean`, unfolded) -/
@[reducible] def InvU (st : OwnSt K E) : Prop :=
  st.created.Nodup ∧ st.released.Nodup ∧ (∀ k ∈ st.released, k ∈ st.created) ∧
  (∀ k ∈ st.held, k ∈ st.created) ∧ (∀ k ∈ st.created, (k ∈ st.released ↔ st.count k = 0))

/-- what holds before `settle`: released keys are not held (but unheld keys may be unreleased) -/
structure W (st : OwnSt K E) : Prop where
  cn : st.created.Nodup
  rn : st.released.Nodup
  rc : ∀ k ∈ st.released, k ∈ st.created
  hc : ∀ k ∈ st.held, k ∈ st.created
  hr : ∀ k ∈ st.held, k ∉ st.released

theorem W_of_inv {st : OwnSt K E} (h : InvU st) : W st := by
  obtain ⟨h1, h2, h3, h4, h5⟩ := h
  refine ⟨h1, h2, h3, h4, fun k hk hr => ?_⟩
  have h0 : st.held.count k = 0 := (h5 k (h4 k hk)).mp hr
  exact (List.count_eq_zero.mp h0) hk

theorem settle_inv {st : OwnSt K E} (h : W st) : InvU st.settle := by
  obtain ⟨h1, h2, h3, h4, h5⟩ := h
  refine ⟨h1, ?_, ?_, h4, ?_⟩
  · show (st.released ++ st.created.filter _).Nodup
    rw [List.nodup_append]
    refine ⟨h2, h1.filter _, ?_⟩
    intro a ha b hb hab
    subst hab
    have := (List.mem_filter.mp hb).2
    simp at this
    exact this.1 ha
  · intro k hk
    change k ∈ st.released ++ st.created.filter _ at hk
    rcases List.mem_append.mp hk with hk | hk
    · exact h3 k hk
    · exact (List.mem_filter.mp hk).1
  · intro k hk
    show k ∈ st.released ++ st.created.filter _ ↔ st.held.count k = 0
    rw [List.mem_append, List.mem_filter]
    constructor
    · rintro (hr | ⟨_, hc⟩)
      · exact List.count_eq_zero.mpr (fun hh => h5 k hh hr)
      · simp at hc
        exact hc.2
    · intro hc
      by_cases hr : k ∈ st.released
      · exact Or.inl hr
      · refine Or.inr ⟨hk, ?_⟩
        have hc' : st.count k = 0 := hc
        simp [hr, hc']

theorem held_setSlot (st : OwnSt K E) (i : Nat) (ks : List K) :
    (st.setSlot i ks).held = ((st.slots.filter fun p => p.1 ≠ i).map (·.2)).flatten ++ ks := by
  simp [OwnSt.held, OwnSt.setSlot]

theorem mem_held_setSlot {st : OwnSt K E} {i : Nat} {ks : List K} {k : K}
    (h : k ∈ (st.setSlot i ks).held) : k ∈ st.held ∨ k ∈ ks := by
  rw [held_setSlot] at h
  rcases List.mem_append.mp h with h | h
  · left
    simp only [OwnSt.held, List.mem_flatten, List.mem_map] at h ⊢
    obtain ⟨l, ⟨p, hp, rfl⟩, hk⟩ := h
    exact ⟨p.2, ⟨p, (List.mem_filter.mp hp).1, rfl⟩, hk⟩
  · exact Or.inr h

theorem slot_sub_held {st : OwnSt K E} {i : Nat} {k : K} (h : k ∈ st.slot i) : k ∈ st.held := by
  unfold OwnSt.slot at h
  split at h
  · next p hp =>
    have hm := List.mem_of_find?_eq_some hp
    simp only [OwnSt.held, List.mem_flatten, List.mem_map]
    exact ⟨p.2, ⟨p, hm, rfl⟩, h⟩
  · cases h

theorem W_setSlot {st : OwnSt K E} (h : W st) (i : Nat) {ks : List K}
    (hks : ∀ k ∈ ks, k ∈ st.created ∧ k ∉ st.released) : W (st.setSlot i ks) := by
  refine ⟨h.cn, h.rn, h.rc, ?_, ?_⟩
  · intro k hk
    rcases mem_held_setSlot hk with hk | hk
    · exact h.hc k hk
    · exact (hks k hk).1
  · intro k hk
    rcases mem_held_setSlot hk with hk | hk
    · exact h.hr k hk
    · exact (hks k hk).2

theorem alive_iff {st : OwnSt K E} {k : K} :
    st.alive k = true ↔ k ∈ st.created ∧ k ∉ st.released := by
  simp [OwnSt.alive]

/-- the work horse: overwriting a slot with alive keys and settling keeps the invariant -/
theorem inv_set {st : OwnSt K E} (h : InvU st) (i : Nat) {ks : List K}
    (hks : ∀ k ∈ ks, st.alive k = true) : InvU (st.setSlot i ks).settle :=
  settle_inv (W_setSlot (W_of_inv h) i fun k hk => alive_iff.mp (hks k hk))

theorem held_alive_of_inv {st : OwnSt K E} (h : InvU st) {k : K} (hk : k ∈ st.held) :
    st.alive k = true :=
  alive_iff.mpr ⟨h.2.2.2.1 k hk, (W_of_inv h).hr k hk⟩

theorem slot_alive {st : OwnSt K E} (h : InvU st) {i : Nat} {k : K} (hk : k ∈ st.slot i) :
    st.alive k = true :=
  held_alive_of_inv h (slot_sub_held hk)

/-- under the invariant: alive = created with a positive handle count -/
theorem alive_iff_count {st : OwnSt K E} (h : InvU st) (k : K) :
    st.alive k = true ↔ k ∈ st.created ∧ 0 < st.count k := by
  rw [alive_iff]
  constructor
  · rintro ⟨hc, hr⟩
    exact ⟨hc, Nat.pos_of_ne_zero fun h0 => hr ((h.2.2.2.2 k hc).mpr h0)⟩
  · rintro ⟨hc, hp⟩
    exact ⟨hc, fun hr => by have := (h.2.2.2.2 k hc).mp hr; omega⟩

/-! ## Following adjacency entries -/

theorem neighbours_of_noDangling {st : OwnSt K E} (hnd : st.noDangling = true) {u : K}
    (hu : st.alive u = true) : st.neighboursAlive u = true := by
  have := (List.all_eq_true.mp hnd) u (alive_iff.mp hu).1
  simpa [hu] using this

theorem step_alive (sel : Store K E → K → List (K × E))
    (hsel : ∀ s k p, p ∈ sel s k → p ∈ (s.get k).out ++ (s.get k).inn)
    {st : OwnSt K E} {u : K} (hn : st.neighboursAlive u = true) {p : K × E} (hp : p ∈ sel st.s u) :
    st.alive p.1 = true :=
  (List.all_eq_true.mp hn) p (hsel _ _ _ hp)

theorem reach_alive (sel : Store K E → K → List (K × E))
    (hsel : ∀ s k p, p ∈ sel s k → p ∈ (s.get k).out ++ (s.get k).inn)
    {st : OwnSt K E} (hnd : st.noDangling = true) {u x : K} (hu : st.alive u = true)
    (hr : Reach (sel st.s) u x) : st.alive x = true := by
  induction hr with
  | refl => exact hu
  | step _ he ih => exact step_alive sel hsel (neighbours_of_noDangling hnd ih) he

theorem walk_alive (sel : Store K E → K → List (K × E))
    (hsel : ∀ s k p, p ∈ sel s k → p ∈ (s.get k).out ++ (s.get k).inn)
    {st : OwnSt K E} (hnd : st.noDangling = true) {u t : K} {p : List (Edge K E)}
    (hu : st.alive u = true) (hw : Walk (sel st.s) u t p) :
    ∀ x ∈ p, st.alive x.1 = true ∧ st.alive x.2.1 = true := by
  induction hw with
  | nil => intro x hx; cases hx
  | snoc hw' he ih =>
    intro x hx
    rcases List.mem_append.mp hx with hx | hx
    · exact ih x hx
    · have hb := reach_alive sel hsel hnd hu (reach_of_walk _ hw')
      rw [List.mem_singleton] at hx
      subst hx
      exact ⟨hb, step_alive sel hsel (neighbours_of_noDangling hnd hb) he⟩

/-! ## One lemma per operation -/

theorem step_new (sel : Store K E → K → List (K × E)) (mutF : Store K E → K → K → StoreOp E → Store K E) (st st' : OwnSt K E) (i : Nat) (k : K)
    (h : InvU st) (hs : st.step sel mutF (.new i k) = some st') : InvU st' := by
  simp only [OwnSt.step] at hs
  split at hs
  · cases hs
  · next hc =>
    injection hs with hs
    subst hs
    have hk : k ∉ st.created := by simpa using hc
    have hw := W_of_inv h
    have hw1 : W ({ st with created := st.created ++ [k] } : OwnSt K E) := by
      refine ⟨?_, hw.rn, fun x hx => List.mem_append_left _ (hw.rc x hx),
        fun x hx => List.mem_append_left _ (hw.hc x hx), hw.hr⟩
      show (st.created ++ [k]).Nodup
      rw [List.nodup_append]
      refine ⟨hw.cn, by simp, ?_⟩
      intro a ha b hb hab
      rw [List.mem_singleton] at hb
      subst hb; subst hab
      exact hk ha
    refine settle_inv (W_setSlot hw1 i ?_)
    intro x hx
    rw [List.mem_singleton] at hx
    subst hx
    exact ⟨List.mem_append_right _ (List.mem_singleton.mpr rfl), fun hr => hk (hw.rc _ hr)⟩

theorem step_clone (sel : Store K E → K → List (K × E)) (mutF : Store K E → K → K → StoreOp E → Store K E) (st st' : OwnSt K E) (a b : Nat)
    (h : InvU st) (hs : st.step sel mutF (.clone a b) = some st') : InvU st' := by
  simp only [OwnSt.step, Option.some.injEq] at hs
  subst hs
  exact inv_set h b fun k hk => slot_alive h hk

theorem step_drop (sel : Store K E → K → List (K × E)) (mutF : Store K E → K → K → StoreOp E → Store K E) (st st' : OwnSt K E) (i : Nat)
    (h : InvU st) (hs : st.step sel mutF (.drop i) = some st') : InvU st' := by
  simp only [OwnSt.step, Option.some.injEq] at hs
  subst hs
  exact inv_set h i fun k hk => by cases hk

theorem step_connect (sel : Store K E → K → List (K × E)) (mutF : Store K E → K → K → StoreOp E → Store K E) (st st' : OwnSt K E) (a b : Nat) (e : E)
    (hs : st.step sel mutF (.connect a b e) = some st') :
    st'.slots = st.slots ∧ st'.released = st.released ∧ st'.created = st.created := by
  simp only [OwnSt.step] at hs
  split at hs
  · injection hs with hs
    subst hs
    exact ⟨rfl, rfl, rfl⟩
  · cases hs

theorem step_connect_inv (sel : Store K E → K → List (K × E)) (mutF : Store K E → K → K → StoreOp E → Store K E) (st st' : OwnSt K E) (a b : Nat) (e : E)
    (h : InvU st) (hs : st.step sel mutF (.connect a b e) = some st') : InvU st' := by
  obtain ⟨h1, h2, h3⟩ := step_connect sel mutF st st' a b e hs
  have hh : st'.held = st.held := by simp [OwnSt.held, h1]
  have hc : ∀ k, st'.count k = st.count k := fun k => by simp [OwnSt.count, hh]
  unfold InvU
  simp only [h2, h3, hh, hc]
  exact h

theorem step_insert (sel : Store K E → K → List (K × E)) (mutF : Store K E → K → K → StoreOp E → Store K E) (st st' : OwnSt K E) (g a : Nat)
    (h : InvU st) (hs : st.step sel mutF (.insert g a) = some st') : InvU st' := by
  simp only [OwnSt.step] at hs
  split at hs
  · next u hu =>
    split at hs
    · injection hs with hs
      subst hs
      exact h
    · injection hs with hs
      subst hs
      refine inv_set h g fun k hk => ?_
      rcases List.mem_append.mp hk with hk | hk
      · exact slot_alive h hk
      · rw [List.mem_singleton] at hk
        subst hk
        exact slot_alive h (i := a) (by rw [hu]; exact List.mem_singleton.mpr rfl)
  · cases hs

theorem step_remove (sel : Store K E → K → List (K × E)) (mutF : Store K E → K → K → StoreOp E → Store K E) (st st' : OwnSt K E) (g : Nat) (k : K)
    (h : InvU st) (hs : st.step sel mutF (.remove g k) = some st') : InvU st' := by
  simp only [OwnSt.step, Option.some.injEq] at hs
  subst hs
  exact inv_set h g fun x hx => slot_alive h (List.mem_filter.mp hx).1

theorem step_get (sel : Store K E → K → List (K × E)) (mutF : Store K E → K → K → StoreOp E → Store K E) (st st' : OwnSt K E) (g : Nat) (k : K) (d : Nat)
    (h : InvU st) (hs : st.step sel mutF (.get g k d) = some st') : InvU st' := by
  simp only [OwnSt.step, Option.some.injEq] at hs
  subst hs
  refine inv_set h d fun x hx => ?_
  split at hx
  · next hc =>
    rw [List.mem_singleton] at hx
    subst hx
    exact slot_alive h (i := g) (by simpa using hc)
  · cases hx

theorem step_edgeOf (sel : Store K E → K → List (K × E)) (mutF : Store K E → K → K → StoreOp E → Store K E)
    (hsel : ∀ s k p, p ∈ sel s k → p ∈ (s.get k).out ++ (s.get k).inn)
    (st st' : OwnSt K E) (a d : Nat)
    (h : InvU st) (hs : st.step sel mutF (.edgeOf a d) = some st') : InvU st' := by
  simp only [OwnSt.step] at hs
  split at hs
  · next u hu =>
    have hua : st.alive u = true :=
      slot_alive h (i := a) (by rw [hu]; exact List.mem_singleton.mpr rfl)
    split at hs
    · cases hs
    · next hn =>
      have hn' : st.neighboursAlive u = true := by simpa using hn
      split at hs
      · injection hs with hs
        subst hs
        exact inv_set h d fun k hk => by cases hk
      · next v e rest hv =>
        injection hs with hs
        subst hs
        refine inv_set h d fun k hk => ?_
        have hva : st.alive v = true :=
          step_alive sel hsel hn' (p := (v, e)) (by rw [hv]; exact List.mem_cons_self)
        simp only [List.mem_cons, List.not_mem_nil, or_false] at hk
        rcases hk with rfl | rfl
        · exact hua
        · exact hva
  · cases hs

theorem step_pathTo (sel : Store K E → K → List (K × E)) (mutF : Store K E → K → K → StoreOp E → Store K E)
    (hsel : ∀ s k p, p ∈ sel s k → p ∈ (s.get k).out ++ (s.get k).inn)
    (st st' : OwnSt K E) (a : Nat) (t : K) (d : Nat)
    (h : InvU st) (hs : st.step sel mutF (.pathTo a t d) = some st') : InvU st' := by
  simp only [OwnSt.step] at hs
  split at hs
  · next u hu =>
    have hua : st.alive u = true :=
      slot_alive h (i := a) (by rw [hu]; exact List.mem_singleton.mpr rfl)
    split at hs
    · cases hs
    · next hn =>
      have hnd : st.noDangling = true := by simpa using hn
      split at hs
      · next p r hp =>
        injection hs with hs
        subst hs
        have hpath := Bfs.path_sound' _ _ _ _ _ _ _ _ hp
        rw [Bfs.accAdj_true] at hpath
        have hal := walk_alive sel hsel hnd hua hpath.2
        refine inv_set h d fun k hk => ?_
        obtain ⟨x, hx, hkx⟩ := List.mem_flatMap.mp hk
        simp only [List.mem_cons, List.not_mem_nil, or_false] at hkx
        rcases hkx with rfl | rfl
        · exact (hal x hx).1
        · exact (hal x hx).2
      · injection hs with hs
        subst hs
        exact inv_set h d fun k hk => by cases hk
      · cases hs
  · cases hs

theorem step_searchTo (sel : Store K E → K → List (K × E)) (mutF : Store K E → K → K → StoreOp E → Store K E)
    (hsel : ∀ s k p, p ∈ sel s k → p ∈ (s.get k).out ++ (s.get k).inn)
    (st st' : OwnSt K E) (a : Nat) (t : K) (d : Nat)
    (h : InvU st) (hs : st.step sel mutF (.searchTo a t d) = some st') : InvU st' := by
  simp only [OwnSt.step] at hs
  split at hs
  · next u hu =>
    have hua : st.alive u = true :=
      slot_alive h (i := a) (by rw [hu]; exact List.mem_singleton.mpr rfl)
    split at hs
    · cases hs
    · next hn =>
      have hnd : st.noDangling = true := by simpa using hn
      split at hs
      · next x r hp =>
        injection hs with hs
        subst hs
        simp only [searchNode, Option.map_eq_some_iff, Prod.mk.injEq] at hp
        obtain ⟨r', hr', hx, _⟩ := hp
        have hxa : st.alive x = true := by
          cases hf : r'.found with
          | false => simp [hf] at hx
          | true =>
            simp only [hf, if_true, Option.some.injEq] at hx
            obtain ⟨t', hg, hpath⟩ := Dfs.run_sound _ _ _ _ _ _ _ r' hr' hf
            have ht : t = t' := by simpa [goal] using hg
            subst ht
            rw [dfs_accAdj_true] at hpath
            subst hx
            exact reach_alive sel hsel hnd hua (reach_of_walk _ hpath.2)
        refine inv_set h d fun k hk => ?_
        rw [List.mem_singleton] at hk
        subst hk
        exact hxa
      · injection hs with hs
        subst hs
        exact inv_set h d fun k hk => by cases hk
      · cases hs
  · cases hs

theorem step_orderOf (sel : Store K E → K → List (K × E)) (mutF : Store K E → K → K → StoreOp E → Store K E)
    (hsel : ∀ s k p, p ∈ sel s k → p ∈ (s.get k).out ++ (s.get k).inn)
    (st st' : OwnSt K E) (a d : Nat)
    (h : InvU st) (hs : st.step sel mutF (.orderOf a d) = some st') : InvU st' := by
  simp only [OwnSt.step] at hs
  split at hs
  · next u hu =>
    have hua : st.alive u = true :=
      slot_alive h (i := a) (by rw [hu]; exact List.mem_singleton.mpr rfl)
    split at hs
    · cases hs
    · next hn =>
      have hnd : st.noDangling = true := by simpa using hn
      split at hs
      · next ns r hp =>
        injection hs with hs
        subst hs
        obtain ⟨_, hreach, _⟩ := Order.nodes_exactly_reach' _ _ _ _ _ _ _ hp
        rw [Order.accAdj_true] at hreach
        exact inv_set h d fun k hk => reach_alive sel hsel hnd hua ((hreach k).mp hk)
      · cases hs
  · cases hs

theorem step_storeOp (sel : Store K E → K → List (K × E)) (mutF : Store K E → K → K → StoreOp E → Store K E)
    (st st' : OwnSt K E) (a b : Nat) (m : StoreOp E)
    (hs : st.step sel mutF (.storeOp a b m) = some st') :
    st'.slots = st.slots ∧ st'.released = st.released ∧ st'.created = st.created := by
  simp only [OwnSt.step] at hs
  split at hs
  · split at hs
    · cases hs
    · injection hs with hs
      subst hs
      exact ⟨rfl, rfl, rfl⟩
  · cases hs

theorem step_storeOp_inv (sel : Store K E → K → List (K × E)) (mutF : Store K E → K → K → StoreOp E → Store K E)
    (st st' : OwnSt K E) (a b : Nat) (m : StoreOp E)
    (h : InvU st) (hs : st.step sel mutF (.storeOp a b m) = some st') : InvU st' := by
  obtain ⟨h1, h2, h3⟩ := step_storeOp sel mutF st st' a b m hs
  have hh : st'.held = st.held := by simp [OwnSt.held, h1]
  have hc : ∀ k, st'.count k = st.count k := fun k => by simp [OwnSt.count, hh]
  unfold InvU
  simp only [h2, h3, hh, hc]
  exact h

/-- the refusal of a store operation does not depend on what the operation does to the lists -/
theorem step_storeOp_indep (sel : Store K E → K → List (K × E)) (mutF mutF' : Store K E → K → K → StoreOp E → Store K E)
    (st st' : OwnSt K E) (a b : Nat) (m : StoreOp E)
    (hs : st.step sel mutF (.storeOp a b m) = some st') :
    ∃ st'', st.step sel mutF' (.storeOp a b m) = some st'' ∧
      st''.slots = st'.slots ∧ st''.released = st'.released ∧ st''.created = st'.created := by
  simp only [OwnSt.step] at hs ⊢
  split at hs
  · next u v hu hv =>
    split at hs
    · cases hs
    · next hn =>
      injection hs with hs
      subst hs
      refine ⟨{ st with s := mutF' st.s u v m }, ?_, rfl, rfl, rfl⟩
      simp only [hn]
      rfl
  · cases hs

theorem step_find (sel : Store K E → K → List (K × E)) (mutF : Store K E → K → K → StoreOp E → Store K E)
    (hsel : ∀ s k p, p ∈ sel s k → p ∈ (s.get k).out ++ (s.get k).inn)
    (st st' : OwnSt K E) (a : Nat) (k : K) (d : Nat)
    (h : InvU st) (hs : st.step sel mutF (.find a k d) = some st') : InvU st' := by
  simp only [OwnSt.step] at hs
  split at hs
  · next u hu =>
    split at hs
    · cases hs
    · next hn =>
      have hn' : st.neighboursAlive u = true := by simpa using hn
      injection hs with hs
      subst hs
      refine inv_set h d fun x hx => ?_
      split at hx
      · next hany =>
        rw [List.mem_singleton] at hx
        subst hx
        obtain ⟨p, hp, hpk⟩ := List.any_eq_true.mp hany
        have hpk' : p.1 = x := by simpa using hpk
        rw [← hpk']
        exact step_alive sel hsel hn' hp
      · cases hx
  · cases hs

/-- whatever `search_path()` / `search_cycle()` of bfs and dfs return is a walk from the root -/
theorem searchPath_walk (adj : K → List (K × E)) (acc : K → K → E → Bool) (nval : K → Int) (kind : Kind)
    (hk : kind = .bfs ∨ kind = .dfs) (root : K) (target : Option K) (cycle : Bool) (fuel : Nat)
    (p : List (Edge K E)) (run : Run K E)
    (h : searchPath adj acc nval kind root target cycle fuel = some (some p, run)) :
    ∃ t, Walk (accAdj adj acc) root t p := by
  obtain ⟨h1, h2⟩ := bfs_searchPath_some adj acc nval root target cycle fuel h
  cases hf : run.found with
  | false => rw [hf] at h2; cases h2
  | true =>
    rw [hf] at h2
    have h2' : p = backtrack run.st.tree := by simpa using h2
    subst h2'
    rcases hk with rfl | rfl
    · obtain ⟨t, _, hp⟩ := Bfs.run_sound adj acc nval root target cycle fuel run h1 hf
      exact ⟨t, hp.2⟩
    · obtain ⟨t, _, hp⟩ := Dfs.run_sound adj acc nval root target cycle fuel run h1 hf
      exact ⟨t, hp.2⟩

theorem step_pathOf (sel : Store K E → K → List (K × E)) (mutF : Store K E → K → K → StoreOp E → Store K E)
    (hsel : ∀ s k p, p ∈ sel s k → p ∈ (s.get k).out ++ (s.get k).inn)
    (st st' : OwnSt K E) (kind : Kind) (cyc : Bool) (a : Nat) (t : K) (d : Nat)
    (h : InvU st) (hs : st.step sel mutF (.pathOf kind cyc a t d) = some st') : InvU st' := by
  simp only [OwnSt.step] at hs
  split at hs
  · next u hu =>
    have hua : st.alive u = true :=
      slot_alive h (i := a) (by rw [hu]; exact List.mem_singleton.mpr rfl)
    split at hs
    · cases hs
    · next hn =>
      have hnd : st.noDangling = true := by simpa using hn
      split at hs
      · cases hs
      · next hkind =>
        have hk : kind = .bfs ∨ kind = .dfs := by
          cases kind <;> simp at hkind ⊢
        split at hs
        · next p r hp =>
          injection hs with hs
          subst hs
          obtain ⟨t', hwalk⟩ := searchPath_walk _ _ _ kind hk _ _ _ _ _ _ hp
          rw [Bfs.accAdj_true] at hwalk
          have hal := walk_alive sel hsel hnd hua hwalk
          refine inv_set h d fun k hk => ?_
          obtain ⟨x, hx, hkx⟩ := List.mem_flatMap.mp hk
          simp only [List.mem_cons, List.not_mem_nil, or_false] at hkx
          rcases hkx with rfl | rfl
          · exact (hal x hx).1
          · exact (hal x hx).2
        · injection hs with hs
          subst hs
          exact inv_set h d fun k hk => by cases hk
        · cases hs
  · cases hs

theorem step_orderPost (sel : Store K E → K → List (K × E)) (mutF : Store K E → K → K → StoreOp E → Store K E)
    (hsel : ∀ s k p, p ∈ sel s k → p ∈ (s.get k).out ++ (s.get k).inn)
    (st st' : OwnSt K E) (a d : Nat)
    (h : InvU st) (hs : st.step sel mutF (.orderPost a d) = some st') : InvU st' := by
  simp only [OwnSt.step] at hs
  split at hs
  · next u hu =>
    have hua : st.alive u = true :=
      slot_alive h (i := a) (by rw [hu]; exact List.mem_singleton.mpr rfl)
    split at hs
    · cases hs
    · next hn =>
      have hnd : st.noDangling = true := by simpa using hn
      split at hs
      · next ns r hp =>
        injection hs with hs
        subst hs
        obtain ⟨_, hreach, _⟩ := Order.nodes_exactly_reach' _ _ _ _ _ _ _ hp
        rw [Order.accAdj_true] at hreach
        exact inv_set h d fun k hk => reach_alive sel hsel hnd hua ((hreach k).mp hk)
      · cases hs
  · cases hs

end Own

/-! ## The lemmas `Props/C19.lean` refers to -/

theorem Own.inv_step' (sel : Store K E → K → List (K × E)) (mutF : Store K E → K → K → StoreOp E → Store K E)
    (hsel : ∀ s k p, p ∈ sel s k → p ∈ (s.get k).out ++ (s.get k).inn)
    (st st' : OwnSt K E) (op : OwnOp K E) (h : Own.InvU st) (hs : st.step sel mutF op = some st') :
    Own.InvU st' := by
  cases op with
  | new i k => exact Own.step_new sel mutF st st' i k h hs
  | clone a b => exact Own.step_clone sel mutF st st' a b h hs
  | drop i => exact Own.step_drop sel mutF st st' i h hs
  | connect a b e => exact Own.step_connect_inv sel mutF st st' a b e h hs
  | insert g a => exact Own.step_insert sel mutF st st' g a h hs
  | remove g k => exact Own.step_remove sel mutF st st' g k h hs
  | get g k d => exact Own.step_get sel mutF st st' g k d h hs
  | edgeOf a d => exact Own.step_edgeOf sel mutF hsel st st' a d h hs
  | pathTo a t d => exact Own.step_pathTo sel mutF hsel st st' a t d h hs
  | searchTo a t d => exact Own.step_searchTo sel mutF hsel st st' a t d h hs
  | orderOf a d => exact Own.step_orderOf sel mutF hsel st st' a d h hs
  | storeOp a b m => exact Own.step_storeOp_inv sel mutF st st' a b m h hs
  | find a k d => exact Own.step_find sel mutF hsel st st' a k d h hs
  | pathOf kind cyc a t d => exact Own.step_pathOf sel mutF hsel st st' kind cyc a t d h hs
  | orderPost a d => exact Own.step_orderPost sel mutF hsel st st' a d h hs

theorem Own.inv_init : Own.InvU ({} : OwnSt K E) := by
  refine ⟨List.nodup_nil, List.nodup_nil, ?_, ?_, ?_⟩ <;> intro k hk <;> cases hk

theorem Own.inv_foldl (sel : Store K E → K → List (K × E)) (mutF : Store K E → K → K → StoreOp E → Store K E)
    (hsel : ∀ s k p, p ∈ sel s k → p ∈ (s.get k).out ++ (s.get k).inn)
    (ops : List (OwnOp K E)) (st : OwnSt K E) (h : Own.InvU st) :
    Own.InvU (ops.foldl (fun st op => (st.step sel mutF op).getD st) st) := by
  induction ops generalizing st with
  | nil => exact h
  | cons op ops ih =>
    rw [List.foldl_cons]
    apply ih
    cases hs : st.step sel mutF op with
    | none => exact h
    | some st' => exact Own.inv_step' sel mutF hsel st st' op h hs

theorem Own.inv_run' (sel : Store K E → K → List (K × E)) (mutF : Store K E → K → K → StoreOp E → Store K E)
    (hsel : ∀ s k p, p ∈ sel s k → p ∈ (s.get k).out ++ (s.get k).inn)
    (ops : List (OwnOp K E)) : Own.InvU (OwnSt.run sel mutF ops) :=
  Own.inv_foldl sel mutF hsel ops {} Own.inv_init

theorem Own.no_premature_release' (sel : Store K E → K → List (K × E)) (mutF : Store K E → K → K → StoreOp E → Store K E)
    (hsel : ∀ s k p, p ∈ sel s k → p ∈ (s.get k).out ++ (s.get k).inn)
    (ops : List (OwnOp K E)) (k : K) (hk : k ∈ (OwnSt.run sel mutF ops).held) :
    k ∉ (OwnSt.run sel mutF ops).released :=
  (Own.W_of_inv (Own.inv_run' sel mutF hsel ops)).hr k hk

theorem Own.all_released_at_end' (sel : Store K E → K → List (K × E)) (mutF : Store K E → K → K → StoreOp E → Store K E)
    (hsel : ∀ s k p, p ∈ sel s k → p ∈ (s.get k).out ++ (s.get k).inn)
    (ops : List (OwnOp K E)) (hempty : (OwnSt.run sel mutF ops).held = []) :
    ∀ k, k ∈ (OwnSt.run sel mutF ops).created ↔ k ∈ (OwnSt.run sel mutF ops).released := by
  obtain ⟨_, _, h3, _, h5⟩ := Own.inv_run' sel mutF hsel ops
  intro k
  constructor
  · intro hk
    exact (h5 k hk).mpr (by simp [OwnSt.count, hempty])
  · exact h3 k

theorem Own.edges_do_not_own' (sel : Store K E → K → List (K × E)) (mutF : Store K E → K → K → StoreOp E → Store K E) (st st' : OwnSt K E) (a b : Nat) (e : E)
    (hs : st.step sel mutF (.connect a b e) = some st') :
    st'.slots = st.slots ∧ st'.released = st.released ∧ st'.created = st.created :=
  Own.step_connect sel mutF st st' a b e hs

theorem Own.store_ops_do_not_own' (sel : Store K E → K → List (K × E)) (mutF : Store K E → K → K → StoreOp E → Store K E)
    (st st' : OwnSt K E) (a b : Nat) (m : StoreOp E)
    (hs : st.step sel mutF (.storeOp a b m) = some st') :
    st'.slots = st.slots ∧ st'.released = st.released ∧ st'.created = st.created :=
  Own.step_storeOp sel mutF st st' a b m hs

theorem Own.accounting_ignores_store' (sel : Store K E → K → List (K × E))
    (mutF mutF' : Store K E → K → K → StoreOp E → Store K E)
    (st st' : OwnSt K E) (a b : Nat) (m : StoreOp E)
    (hs : st.step sel mutF (.storeOp a b m) = some st') :
    ∃ st'', st.step sel mutF' (.storeOp a b m) = some st'' ∧
      st''.slots = st'.slots ∧ st''.released = st'.released ∧ st''.created = st'.created :=
  Own.step_storeOp_indep sel mutF mutF' st st' a b m hs

theorem Own.held_alive' (sel : Store K E → K → List (K × E)) (mutF : Store K E → K → K → StoreOp E → Store K E)
    (hsel : ∀ s k p, p ∈ sel s k → p ∈ (s.get k).out ++ (s.get k).inn)
    (ops : List (OwnOp K E)) (i : Nat) (k : K) (hk : k ∈ (OwnSt.run sel mutF ops).slot i) :
    (OwnSt.run sel mutF ops).alive k = true :=
  Own.slot_alive (Own.inv_run' sel mutF hsel ops) hk

end G

import GdslModel.Model.Sync
import GdslModel.Model.Spec
import GdslModel.Lemmas.Store
/-!
# Lock programs run alone compute the plain functions (interface for C15 / C17)
INTERFACE FILE: the statements of the four `*_refines` theorems at the end are fixed.

Method: `exec` is a fuel-free big-step interpreter of lock programs (structural recursion on the
program) that also returns the held set at the end. `exec_bind` is the compositional rule,
`exec_sound` transfers a terminating `exec` run to `runSingle` for every large enough fuel. All
per-operation proofs are done on `exec`, for an arbitrary held set without node locks (`NoNode`:
`[]` for the bodies, `[(mutex, w)]` inside the mutation mutex).
-/
namespace G
variable {K E : Type} [DecidableEq K]

/-! ### store: setting a key twice -/

theorem setCells_setCells (l : List (K × Adj K E)) (k : K) (a b : Adj K E) :
    setCells (setCells l k a) k b = setCells l k b := by
  induction l with
  | nil => simp [setCells]
  | cons p t ih =>
    obtain ⟨k', a'⟩ := p
    by_cases h : k' = k
    · simp [setCells, h]
    · simp [setCells, h, ih]

theorem set_set (s : Store K E) (k : K) (a b : Adj K E) : (s.set k a).set k b = s.set k b := by
  simp [Store.set, setCells_setCells]

/-! ### fuel-free interpreter -/

/-- run a program alone, no fuel; the result also carries the held set at the end -/
def exec {R : Type} : Prog K E R → Store K E → Held K → Option (Store K E × R × Held K)
  | .done r, s, h => some (s, r, h)
  | .acq l m p, s, h => if canAcquire l m h [] then exec p s ((l, m) :: h) else none
  | .rel l p, s, h => exec p s (h.filter fun x => !(x.1 = l))
  | .read c, s, h => exec (c s) s h
  | .write u p, s, h => exec p (u s) h

@[simp] theorem exec_done {R : Type} (r : R) (s : Store K E) (h : Held K) : exec (.done r) s h = some (s, r, h) := rfl
@[simp] theorem exec_read {R : Type} (c : Store K E → Prog K E R) (s : Store K E) (h : Held K) :
    exec (.read c) s h = exec (c s) s h := rfl
@[simp] theorem exec_write {R : Type} (u : Store K E → Store K E) (p : Prog K E R) (s : Store K E) (h : Held K) :
    exec (.write u p) s h = exec p (u s) h := rfl

theorem exec_bind {R S : Type} (p : Prog K E R) (f : R → Prog K E S) (s : Store K E) (h : Held K) :
    exec (p.bind f) s h = (exec p s h).bind (fun x => exec (f x.2.1) x.1 x.2.2) := by
  induction p generalizing s h with
  | done r => simp [Prog.bind, exec]
  | acq l m p ih =>
    simp only [Prog.bind, exec, ih]
    split <;> simp
  | rel l p ih => simp only [Prog.bind, exec, ih]
  | read c ih => simp only [Prog.bind, exec, ih]
  | write u p ih => simp only [Prog.bind, exec, ih]

/-- a terminating `exec` run is a `runSingle` run for every large enough fuel -/
theorem exec_sound {R : Type} (p : Prog K E R) :
    ∀ (s : Store K E) (h : Held K) (s' : Store K E) (r : R) (h' : Held K), exec p s h = some (s', r, h') →
      ∀ tr, ∃ n tr', ∀ fuel, n ≤ fuel → runSingle fuel p s h tr = some (s', r, tr') := by
  induction p with
  | done r0 =>
    intro s h s' r h' he tr
    simp only [exec, Option.some.injEq, Prod.mk.injEq] at he
    obtain ⟨rfl, rfl, rfl⟩ := he
    refine ⟨1, tr, fun fuel hf => ?_⟩
    obtain ⟨k, rfl⟩ : ∃ k, fuel = k + 1 := ⟨fuel - 1, by omega⟩
    simp [runSingle]
  | acq l m p ih =>
    intro s h s' r h' he tr
    simp only [exec] at he
    split at he
    · rename_i hc
      obtain ⟨n, tr', hn⟩ := ih _ _ _ _ _ he (tr ++ [(l, m, h.length)])
      refine ⟨n + 1, tr', fun fuel hf => ?_⟩
      obtain ⟨k, rfl⟩ : ∃ k, fuel = k + 1 := ⟨fuel - 1, by omega⟩
      simp only [runSingle, hc, if_true]
      exact hn k (by omega)
    · simp at he
  | rel l p ih =>
    intro s h s' r h' he tr
    simp only [exec] at he
    obtain ⟨n, tr', hn⟩ := ih _ _ _ _ _ he tr
    refine ⟨n + 1, tr', fun fuel hf => ?_⟩
    obtain ⟨k, rfl⟩ : ∃ k, fuel = k + 1 := ⟨fuel - 1, by omega⟩
    simp only [runSingle]
    exact hn k (by omega)
  | read c ih =>
    intro s h s' r h' he tr
    simp only [exec] at he
    obtain ⟨n, tr', hn⟩ := ih s _ _ _ _ _ he tr
    refine ⟨n + 1, tr', fun fuel hf => ?_⟩
    obtain ⟨k, rfl⟩ : ∃ k, fuel = k + 1 := ⟨fuel - 1, by omega⟩
    simp only [runSingle]
    exact hn k (by omega)
  | write u p ih =>
    intro s h s' r h' he tr
    simp only [exec] at he
    obtain ⟨n, tr', hn⟩ := ih _ _ _ _ _ he tr
    refine ⟨n + 1, tr', fun fuel hf => ?_⟩
    obtain ⟨k, rfl⟩ : ∃ k, fuel = k + 1 := ⟨fuel - 1, by omega⟩
    simp only [runSingle]
    exact hn k (by omega)

/-! ### held sets without node locks -/

/-- the thread holds no node lock (it may hold the mutation mutex) -/
def NoNode (h : Held K) : Prop := ∀ x ∈ h, x.1 = Lk.mutex

omit [DecidableEq K] in
theorem noNode_nil : NoNode ([] : Held K) := by intro x hx; simp at hx

omit [DecidableEq K] in
theorem noNode_mutex : NoNode ([(Lk.mutex, Mode.w)] : Held K) := by
  intro x hx; simp at hx; simp [hx]

theorem exec_acq_node {R : Type} (h : Held K) (hn : NoNode h) (x : K) (m : Mode) (p : Prog K E R) (s : Store K E) :
    exec (.acq (.node x) m p) s h = exec p s ((.node x, m) :: h) := by
  have : canAcquire (Lk.node x) m h [] = true := by
    simp only [canAcquire, List.all_nil, Bool.and_true, Bool.not_eq_true', List.any_eq_false, decide_eq_true_eq]
    intro y hy hxy
    have := hn y hy
    rw [hxy] at this
    cases this
  simp [exec, this]

theorem exec_rel_node {R : Type} (h : Held K) (hn : NoNode h) (x : K) (m : Mode) (p : Prog K E R) (s : Store K E) :
    exec (.rel (.node x) p) s ((.node x, m) :: h) = exec p s h := by
  have : (((Lk.node x, m) :: h).filter fun y => !(y.1 = Lk.node x)) = h := by
    simp only [List.filter_cons, decide_true, Bool.not_true, Bool.false_eq_true, if_false]
    rw [List.filter_eq_self]
    intro y hy
    have := hn y hy
    simp [this]
  simp only [exec, this]

theorem exec_query {R : Type} (h : Held K) (hn : NoNode h) (u : K) (f : Adj K E → R) (s : Store K E) :
    exec (Sync.query u f) s h = some (s, f (s.get u), h) := by
  simp only [Sync.query, exec_acq_node h hn, exec_rel_node h hn, exec_done, exec_read]

theorem exec_connectBody (h : Held K) (hn : NoNode h) (u v : K) (e : E) (s : Store K E) :
    exec (Sync.connectBody u v e) s h = some (connect s u v e, .unit, h) := by
  simp only [Sync.connectBody, exec_acq_node h hn, exec_rel_node h hn, exec_done, exec_write]
  rfl

/-! ### the mutation mutex -/

theorem exec_withMutex_false {R : Type} (p : Prog K E R) (s : Store K E) (h : Held K) :
    exec (withMutex false p) s h = exec p s h := by
  simp [withMutex]

theorem exec_withMutex_true {R : Type} (p : Prog K E R) (s s' : Store K E) (r : R)
    (hp : exec p s [(Lk.mutex, Mode.w)] = some (s', r, [(Lk.mutex, Mode.w)])) :
    exec (withMutex true p) s [] = some (s', r, []) := by
  simp [withMutex, exec, canAcquire, exec_bind, hp]

/-! ### directed operations -/

theorem exec_di_tryConnect (h : Held K) (hn : NoNode h) (u v : K) (e : E) (s : Store K E) :
    exec (Sync.Di.tryConnect false u v e) s h = some ((Di.tryConnect s u v e).1, (Di.tryConnect s u v e).2, h) := by
  simp only [Sync.Di.tryConnect, exec_withMutex_false, exec_bind, Sync.Di.isConnected, exec_query h hn,
    Option.bind_some, Di.tryConnect, Di.isConnected]
  by_cases hc : hasKey (s.get u).out v = true
  · simp [hc]
  · simp [hc, exec_connectBody h hn]

theorem exec_di_disconnect (h : Held K) (hn : NoNode h) (u v : K) (s : Store K E) :
    exec (Sync.Di.disconnect (E := E) false u v) s h = some ((Di.disconnect s u v).1, (Di.disconnect s u v).2, h) := by
  simp only [Sync.Di.disconnect, exec_withMutex_false, exec_bind, Sync.Di.isConnected, exec_query h hn,
    Option.bind_some, Di.disconnect, Di.isConnected]
  by_cases hc : hasKey (s.get u).out v = true
  case neg => simp [hc]
  case pos =>
    simp only [hc, Bool.not_true, Bool.false_eq_true, if_false, if_true, exec_acq_node h hn, exec_read]
    cases hr : removeFirst (s.get u).out v with
    | none => simp [exec_rel_node h hn]
    | some x =>
      obtain ⟨e, out'⟩ := x
      simp only [exec_write, exec_rel_node h hn, exec_acq_node h hn, exec_read]
      cases hr2 : removeFirst ((s.set u { s.get u with out := out' }).get v).inn u with
      | none => simp [exec_rel_node h hn]
      | some y =>
        obtain ⟨e2, inn'⟩ := y
        simp [exec_rel_node h hn]

theorem exec_iterNext (h : Held K) (hn : NoNode h) (u : K) (sel : Adj K E → List (K × E)) (pos : Nat) (s : Store K E) :
    exec (Sync.iterNext u sel pos) s h = some (s, (sel (s.get u))[pos]?, h) := by
  simp only [Sync.iterNext, exec_query h hn]

/-- the first loop of `isolate`: the program panics (`true`) exactly when the plain loop does, otherwise
    it goes on with the continuation from the store the plain loop produces -/
theorem exec_isoOut (h : Held K) (hn : NoNode h) (u : K) (k : Prog K E Bool) (fuel pos : Nat) (s : Store K E) :
    exec (Sync.Di.isoOut u fuel pos k) s h =
      if (Di.isoOutLoop u fuel pos s).2 then some ((Di.isoOutLoop u fuel pos s).1, true, h)
      else exec k (Di.isoOutLoop u fuel pos s).1 h := by
  induction fuel generalizing pos s with
  | zero => simp [Sync.Di.isoOut, Di.isoOutLoop, exec_bind, exec_iterNext h hn]
  | succ fuel ih =>
    simp only [Sync.Di.isoOut, exec_bind, exec_iterNext h hn, Option.bind_some, Di.isoOutLoop]
    rcases Option.eq_none_or_eq_some ((s.get u).out[pos]?) with hx | ⟨⟨v, e⟩, hx⟩
    · simp [hx]
    · simp only [hx, exec_acq_node h hn, exec_read]
      cases hr : removeFirst (s.get v).inn u with
      | none => simp [exec_rel_node h hn]
      | some y =>
        obtain ⟨e2, inn'⟩ := y
        simp only [exec_write, exec_rel_node h hn, ih]

theorem exec_isoIn (h : Held K) (hn : NoNode h) (u : K) (k : Prog K E Bool) (fuel pos : Nat) (s : Store K E) :
    exec (Sync.Di.isoIn u fuel pos k) s h =
      if (Di.isoInLoop u fuel pos s).2 then some ((Di.isoInLoop u fuel pos s).1, true, h)
      else exec k (Di.isoInLoop u fuel pos s).1 h := by
  induction fuel generalizing pos s with
  | zero => simp [Sync.Di.isoIn, Di.isoInLoop, exec_bind, exec_iterNext h hn]
  | succ fuel ih =>
    simp only [Sync.Di.isoIn, exec_bind, exec_iterNext h hn, Option.bind_some, Di.isoInLoop]
    rcases Option.eq_none_or_eq_some ((s.get u).inn[pos]?) with hx | ⟨⟨v, e⟩, hx⟩
    · simp [hx]
    · simp only [hx, exec_acq_node h hn, exec_read]
      cases hr : removeFirst (s.get v).out u with
      | none => simp [exec_rel_node h hn]
      | some y =>
        obtain ⟨e2, out'⟩ := y
        simp only [exec_write, exec_rel_node h hn, ih]

theorem exec_clearBoth (h : Held K) (hn : NoNode h) (u : K) (s : Store K E) :
    exec (Sync.Di.clearBoth u) s h = some (s.set u {}, false, h) := by
  simp only [Sync.Di.clearBoth, exec_acq_node h hn, exec_rel_node h hn, exec_write, exec_done, get_set_same, set_set]

theorem exec_di_isolate (h : Held K) (hn : NoNode h) (u : K) (s : Store K E) :
    exec (Sync.Di.isolate (E := E) false u) s h = some ((Di.isolate s u).1, (Di.isolate s u).2, h) := by
  simp only [Sync.Di.isolate, exec_withMutex_false, exec_bind, exec_read, exec_isoOut h hn, Di.isolate]
  rcases h1 : Di.isoOutLoop u (s.get u).out.length 0 s with ⟨s1, b1⟩
  cases b1
  · simp only [Bool.false_eq_true, if_false, exec_isoIn h hn]
    rcases h2 : Di.isoInLoop u (s1.get u).inn.length 0 s1 with ⟨s2, b2⟩
    cases b2
    · simp [exec_clearBoth h hn]
    · simp
  · simp

theorem exec_di_prog (h : Held K) (hn : NoNode h) (op : Op K E) (s : Store K E) :
    exec (Sync.Di.prog false op) s h = some ((Di.step s op).1, (Di.step s op).2, h) := by
  cases op with
  | connect u v e => simp only [Sync.Di.prog, Sync.connect, exec_withMutex_false, exec_connectBody h hn, Di.step]
  | tryConnect u v e => exact exec_di_tryConnect h hn u v e s
  | disconnect u v => exact exec_di_disconnect h hn u v s
  | isolate u => exact exec_di_isolate h hn u s

/-! ### undirected operations -/

theorem exec_un_tryConnect (h : Held K) (hn : NoNode h) (u v : K) (e : E) (s : Store K E) :
    exec (Sync.Un.tryConnect false u v e) s h = some ((Un.tryConnect s u v e).1, (Un.tryConnect s u v e).2, h) := by
  simp only [Sync.Un.tryConnect, exec_withMutex_false, exec_bind, Sync.Un.isConnected, exec_query h hn,
    Option.bind_some, Un.tryConnect, Un.isConnected]
  by_cases hc : (hasKey (s.get u).out v || hasKey (s.get u).inn v) = true
  · simp [hc]
  · simp [hc, exec_connectBody h hn]

theorem exec_un_disconnect (h : Held K) (hn : NoNode h) (u v : K) (s : Store K E) :
    exec (Sync.Un.disconnect (E := E) false u v) s h = some ((Un.disconnect s u v).1, (Un.disconnect s u v).2, h) := by
  simp only [Sync.Un.disconnect, exec_withMutex_false, exec_bind, Sync.Un.isConnected, exec_query h hn,
    Option.bind_some, Un.disconnect, Un.isConnected]
  by_cases hc : (hasKey (s.get u).out v || hasKey (s.get u).inn v) = true
  case neg => simp [hc]
  case pos =>
    simp only [hc, Bool.not_true, Bool.false_eq_true, if_false, if_true, exec_acq_node h hn, exec_read]
    cases hr : removeFirst (s.get u).inn v with
    | some x =>
      obtain ⟨e, inn'⟩ := x
      simp only [exec_write, exec_rel_node h hn, exec_acq_node h hn, exec_read]
      cases hr2 : removeFirst ((s.set u { s.get u with inn := inn' }).get v).out u with
      | none => simp [exec_rel_node h hn]
      | some y =>
        obtain ⟨e2, out'⟩ := y
        simp [exec_rel_node h hn]
    | none =>
      simp only [exec_rel_node h hn, exec_acq_node h hn, exec_read]
      cases hr1 : removeFirst (s.get u).out v with
      | none => simp [exec_rel_node h hn]
      | some x =>
        obtain ⟨e, out'⟩ := x
        simp only [exec_write, exec_rel_node h hn, exec_acq_node h hn, exec_read]
        cases hr2 : removeFirst ((s.set u { s.get u with out := out' }).get v).inn u with
        | none => simp [exec_rel_node h hn]
        | some y =>
          obtain ⟨e2, inn'⟩ := y
          simp [exec_rel_node h hn]

theorem exec_isoLoop (h : Held K) (hn : NoNode h) (u : K) (k : Prog K E Bool) (fuel pos : Nat) (s : Store K E) :
    exec (Sync.Un.isoLoop u fuel pos k) s h =
      if (Un.isoLoop u fuel pos s).2 then some ((Un.isoLoop u fuel pos s).1, true, h)
      else exec k (Un.isoLoop u fuel pos s).1 h := by
  induction fuel generalizing pos s with
  | zero => simp [Sync.Un.isoLoop, Un.isoLoop, exec_bind, exec_iterNext h hn]
  | succ fuel ih =>
    simp only [Sync.Un.isoLoop, exec_bind, exec_iterNext h hn, Option.bind_some, Un.isoLoop]
    rcases Option.eq_none_or_eq_some (((s.get u).out ++ (s.get u).inn)[pos]?) with hx | ⟨⟨v, e⟩, hx⟩
    · simp [hx]
    · simp only [hx, exec_acq_node h hn, exec_read]
      cases hr : removeFirst (s.get v).inn u with
      | some y =>
        obtain ⟨e2, inn'⟩ := y
        simp only [exec_write, exec_rel_node h hn, ih]
      | none =>
        simp only [exec_rel_node h hn, exec_acq_node h hn, exec_read]
        cases hr2 : removeFirst (s.get v).out u with
        | none => simp [exec_rel_node h hn]
        | some y =>
          obtain ⟨e2, out'⟩ := y
          simp only [exec_write, exec_rel_node h hn, ih]

theorem exec_un_isolate (h : Held K) (hn : NoNode h) (u : K) (s : Store K E) :
    exec (Sync.Un.isolate (E := E) false u) s h = some ((Un.isolate s u).1, (Un.isolate s u).2, h) := by
  simp only [Sync.Un.isolate, exec_withMutex_false, exec_bind, exec_read, exec_isoLoop h hn, Un.isolate]
  rcases h1 : Un.isoLoop u ((s.get u).out.length + (s.get u).inn.length) 0 s with ⟨s1, b1⟩
  cases b1
  · simp [exec_clearBoth h hn]
  · simp

theorem exec_un_prog (h : Held K) (hn : NoNode h) (op : Op K E) (s : Store K E) :
    exec (Sync.Un.prog false op) s h = some ((Un.step s op).1, (Un.step s op).2, h) := by
  cases op with
  | connect u v e => simp only [Sync.Un.prog, Sync.connect, exec_withMutex_false, exec_connectBody h hn, Un.step]
  | tryConnect u v e => exact exec_un_tryConnect h hn u v e s
  | disconnect u v => exact exec_un_disconnect h hn u v s
  | isolate u => exact exec_un_isolate h hn u s

/-! ### with the mutation mutex -/

theorem Sync.Di.prog_true_eq (op : Op K E) : Sync.Di.prog true op = withMutex true (Sync.Di.prog false op) := by
  cases op <;> rfl

theorem Sync.Un.prog_true_eq (op : Op K E) : Sync.Un.prog true op = withMutex true (Sync.Un.prog false op) := by
  cases op <;> rfl

theorem exec_di_prog_mx (op : Op K E) (s : Store K E) :
    exec (Sync.Di.prog true op) s [] = some ((Di.step s op).1, (Di.step s op).2, []) := by
  rw [Sync.Di.prog_true_eq]
  exact exec_withMutex_true _ _ _ _ (exec_di_prog _ noNode_mutex op s)

theorem exec_un_prog_mx (op : Op K E) (s : Store K E) :
    exec (Sync.Un.prog true op) s [] = some ((Un.step s op).1, (Un.step s op).2, []) := by
  rw [Sync.Un.prog_true_eq]
  exact exec_withMutex_true _ _ _ _ (exec_un_prog _ noNode_mutex op s)

/-! ### the interface -/

/-- the body of every directed mutator (no mutation mutex), run alone from any store with no lock held,
    never blocks and computes exactly `Di.step` -/
theorem Sync.Di.body_refines (op : Op K E) (s : Store K E) :
    ∃ n tr, ∀ fuel, n ≤ fuel →
      runSingle fuel (Sync.Di.prog false op) s [] [] = some ((Di.step s op).1, (Di.step s op).2, tr) :=
  exec_sound _ _ _ _ _ _ (exec_di_prog [] noNode_nil op s) []

theorem Sync.Un.body_refines (op : Op K E) (s : Store K E) :
    ∃ n tr, ∀ fuel, n ≤ fuel →
      runSingle fuel (Sync.Un.prog false op) s [] [] = some ((Un.step s op).1, (Un.step s op).2, tr) :=
  exec_sound _ _ _ _ _ _ (exec_un_prog [] noNode_nil op s) []

/-- the same with the mutation mutex around the body -/
theorem Sync.Di.prog_refines (op : Op K E) (s : Store K E) :
    ∃ n tr, ∀ fuel, n ≤ fuel →
      runSingle fuel (Sync.Di.prog true op) s [] [] = some ((Di.step s op).1, (Di.step s op).2, tr) :=
  exec_sound _ _ _ _ _ _ (exec_di_prog_mx op s) []

theorem Sync.Un.prog_refines (op : Op K E) (s : Store K E) :
    ∃ n tr, ∀ fuel, n ≤ fuel →
      runSingle fuel (Sync.Un.prog true op) s [] [] = some ((Un.step s op).1, (Un.step s op).2, tr) :=
  exec_sound _ _ _ _ _ _ (exec_un_prog_mx op s) []

end G

import GdslModel.Lemmas.SyncSingle
/-!
# Whole single-threaded programs and queries (C15)

A thread that performs the calls of a history one after the other (`seqProg`) ends in the store of
the plain history and returns the plain results; a query run alone takes one read guard, leaves
the store alone and releases the guard before it returns.
-/
namespace G
variable {K E : Type} [DecidableEq K]

/-- `seqProg` on `exec`: if every call, from any store and holding nothing, computes `step` and ends holding
    nothing, the sequence computes the fold and the list of results -/
theorem exec_seqProg (step : Store K E → Op K E → Store K E × Res E) (prog : Op K E → Prog K E (Res E))
    (results : Store K E → List (Op K E) → List (Res E))
    (hnil : ∀ s, results s [] = [])
    (hcons : ∀ s op ops, results s (op :: ops) = (step s op).2 :: results (step s op).1 ops)
    (hp : ∀ op s, exec (prog op) s [] = some ((step s op).1, (step s op).2, []))
    (ops : List (Op K E)) (s : Store K E) :
    exec (seqProg (ops.map prog)) s [] = some (ops.foldl (fun s op => (step s op).1) s, results s ops, []) := by
  induction ops generalizing s with
  | nil => simp [seqProg, hnil]
  | cons op ops ih =>
    simp only [List.map_cons, seqProg, exec_bind, hp, Option.bind_some, ih, exec_done, List.foldl_cons, hcons]

theorem Sync.di_run_eq_plain' (ops : List (Op K E)) (s : Store K E) :
    ∃ n tr, ∀ fuel, n ≤ fuel →
      runSingle fuel (seqProg (ops.map (Sync.Di.prog true))) s [] [] =
        some (ops.foldl (fun s op => (Di.step s op).1) s, Di.results s ops, tr) :=
  exec_sound _ _ _ _ _ _
    (exec_seqProg Di.step (Sync.Di.prog true) Di.results (fun _ => rfl) (fun _ _ _ => rfl) exec_di_prog_mx ops s) []

theorem Sync.un_run_eq_plain' (ops : List (Op K E)) (s : Store K E) :
    ∃ n tr, ∀ fuel, n ≤ fuel →
      runSingle fuel (seqProg (ops.map (Sync.Un.prog true))) s [] [] =
        some (ops.foldl (fun s op => (Un.step s op).1) s, Un.results s ops, tr) :=
  exec_sound _ _ _ _ _ _
    (exec_seqProg Un.step (Sync.Un.prog true) Un.results (fun _ => rfl) (fun _ _ _ => rfl) exec_un_prog_mx ops s) []

/-- a query: one read guard, released before the value is returned, store untouched -/
theorem Sync.query_refines' {R : Type} (u : K) (f : Adj K E → R) (s : Store K E) (held : Held K)
    (hfree : canAcquire (.node u) .r held [] = true) (fuel : Nat) (hf : 4 ≤ fuel) :
    runSingle fuel (Sync.query u f) s held [] = some (s, f (s.get u), [(.node u, .r, held.length)]) := by
  obtain ⟨k, rfl⟩ : ∃ k, fuel = k + 4 := ⟨fuel - 4, by omega⟩
  simp [Sync.query, runSingle, hfree]

end G

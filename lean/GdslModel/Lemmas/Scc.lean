import GdslModel.Model.Container
import GdslModel.Lemmas.Order
/-!
# Kosaraju (`scc_ordering` + collection pass) — lemmas for C11

Plan:
* helpers on `Reach`, `Before`, sub-graphs and transposition;
* `NoLater`/`Done`: the component-root property of a finishing order, proved for the relation `Dfs`
  (`Dfs.comp_root`) with the ghost stack `S` and the list `F` of nodes finished earlier;
* first pass (`sccOrdering`): the ordering is duplicate-free, lists the members, and every listed node
  has a node of its own component after which nothing it reaches is listed (`FInv`);
* second pass (`sccCollect`): invariant `CInv`; each collected list is exactly one mutual-reachability class;
* the primed lemmas used by `Props/C11.lean`.
-/
set_option linter.unusedSectionVars false
namespace G
variable {K E : Type} [DecidableEq K]

namespace SccL

/-! ## Helpers -/

theorem reach_closed {adj : K → List (K × E)} {π : List K} (hc : Closed adj π) {a b : K} (ha : a ∈ π)
    (h : Reach adj a b) : b ∈ π := by
  induction h with
  | refl => exact ha
  | step _ he ih => exact hc _ ih _ he

theorem reach_sub {adj : K → List (K × E)} {acc : K → K → E → Bool} {a b : K}
    (h : Reach (accAdj adj acc) a b) : Reach adj a b := by
  induction h with
  | refl => exact .refl _
  | step _ he ih => exact .step ih (Order.mem_accAdj.mp he).1

theorem closed_sub {adj : K → List (K × E)} {acc : K → K → E → Bool} {π : List K} (hc : Closed adj π) :
    Closed (accAdj adj acc) π :=
  fun u hu p hp => hc u hu p (Order.mem_accAdj.mp hp).1

theorem reach_head {adj : K → List (K × E)} {a b c : K} {e : E} (he : (b, e) ∈ adj a) (h : Reach adj b c) :
    Reach adj a c :=
  Reach.trans' (.step (.refl _) he) h

/-- reachability in the transposed graph is reachability backwards -/
theorem reach_transpose {adj radj : K → List (K × E)}
    (ht : ∀ u v, (∃ e, (v, e) ∈ adj u) ↔ (∃ e, (u, e) ∈ radj v)) {a b : K} (h : Reach radj a b) :
    Reach adj b a := by
  induction h with
  | refl => exact .refl _
  | @step b c e _ he ih =>
    obtain ⟨e', he'⟩ := (ht c b).mpr ⟨e, he⟩
    exact reach_head he' ih

/-- the filter of both passes: the target is not in `V` -/
abbrev notIn (V : List K) : K → K → E → Bool := fun _ v _ => !(V.contains v)

theorem mem_notIn {adj : K → List (K × E)} {V : List K} {u : K} {p : K × E} :
    p ∈ accAdj adj (notIn V) u ↔ p ∈ adj u ∧ p.1 ∉ V := by
  rw [Order.mem_accAdj]; simp [notIn]

theorem reach_notIn_end {adj : K → List (K × E)} {V : List K} {a b : K}
    (h : Reach (accAdj adj (notIn V)) a b) : b = a ∨ b ∉ V := by
  cases h with
  | refl => exact Or.inl rfl
  | step _ he => exact Or.inr (mem_notIn.mp he).2

/-- if `V` is closed under the edges, a path either ends in `V` or avoids it altogether -/
theorem reach_split {adj : K → List (K × E)} {V : List K} (hV : ∀ x ∈ V, ∀ p ∈ adj x, p.1 ∈ V) {a b : K}
    (h : Reach adj a b) : b ∈ V ∨ Reach (accAdj adj (notIn V)) a b := by
  induction h with
  | refl => exact Or.inr (.refl _)
  | @step b c e _ he ih =>
    by_cases hcV : c ∈ V
    · exact Or.inl hcV
    · rcases ih with hb | hb
      · exact absurd (hV b hb _ he) hcV
      · exact Or.inr (.step hb (mem_notIn.mpr ⟨he, hcV⟩))

/-! ## `Before` in duplicate-free lists -/

theorem Before.mem_left {l : List K} {a b : K} (h : Before l a b) : a ∈ l := by
  obtain ⟨l1, l2, rfl, _⟩ := h; simp

theorem Before.mem_right {l : List K} {a b : K} (h : Before l a b) : b ∈ l := by
  obtain ⟨l1, l2, rfl, hb⟩ := h; simp [hb]

theorem before_cons {c : K} {l : List K} {a b : K} (h : Before (c :: l) a b) :
    (c = a ∧ b ∈ l) ∨ Before l a b := by
  obtain ⟨l1, l2, he, hb⟩ := h
  cases l1 with
  | nil =>
    simp only [List.nil_append, List.cons.injEq] at he
    exact Or.inl ⟨he.1, he.2 ▸ hb⟩
  | cons d l1 =>
    simp only [List.cons_append, List.cons.injEq] at he
    exact Or.inr ⟨l1, l2, he.2, hb⟩

theorem before_asymm {l : List K} (hn : l.Nodup) {a b : K} (h1 : Before l a b) (h2 : Before l b a) : False := by
  induction l with
  | nil => obtain ⟨l1, l2, he, _⟩ := h1; simp at he
  | cons c l ih =>
    have hc : c ∉ l := (List.nodup_cons.mp hn).1
    rcases before_cons h1 with ⟨rfl, hb⟩ | h1'
    · rcases before_cons h2 with ⟨rfl, ha⟩ | h2'
      · exact hc ha
      · exact hc (Before.mem_right h2')
    · rcases before_cons h2 with ⟨rfl, _⟩ | h2'
      · exact hc (Before.mem_right h1')
      · exact ih (List.nodup_cons.mp hn).2 h1' h2'

theorem before_irrefl {l : List K} (hn : l.Nodup) {a : K} (h : Before l a a) : False :=
  before_asymm hn h h

/-! ## The component-root property of a finishing order -/

/-- `z` is listed no later than `w` -/
def NoLater (L : List K) (z w : K) : Prop := z = w ∨ Before L z w

theorem NoLater.append_right {L : List K} {z w : K} (h : NoLater L z w) (m : List K) : NoLater (L ++ m) z w :=
  h.imp id (fun h => h.append_right' m)

theorem NoLater.append_left {L : List K} {z w : K} (h : NoLater L z w) (m : List K) : NoLater (m ++ L) z w :=
  h.imp id (fun h => h.append_left' m)

theorem NoLater.antisymm {L : List K} (hn : L.Nodup) {a b : K} (h1 : NoLater L a b) (h2 : NoLater L b a) : a = b := by
  rcases h1 with h1 | h1
  · exact h1
  · rcases h2 with h2 | h2
    · exact h2.symm
    · exact (before_asymm hn h1 h2).elim

/-- `x` has a node `w` of its own component in `L` such that everything `x` reaches is listed in `L`,
    no later than `w` -/
def Done (A : K → List (K × E)) (L : List K) (x : K) : Prop :=
  ∃ w ∈ L, Reach A x w ∧ Reach A w x ∧ ∀ z, Reach A x z → z ∈ L ∧ NoLater L z w

theorem Done.append_right {A : K → List (K × E)} {L : List K} {x : K} (h : Done A L x) (m : List K) :
    Done A (L ++ m) x := by
  obtain ⟨w, hw, a, b, c⟩ := h
  exact ⟨w, List.mem_append_left _ hw, a, b,
    fun z hz => ⟨List.mem_append_left _ (c z hz).1, (c z hz).2.append_right m⟩⟩

theorem Done.transfer {A : K → List (K × E)} {L : List K} {u x : K} (h : Done A L u)
    (hxu : Reach A x u) (hux : Reach A u x) : Done A L x := by
  obtain ⟨w, hw, a, b, c⟩ := h
  exact ⟨w, hw, Reach.trans' hxu a, Reach.trans' b hux, fun z hz => c z (Reach.trans' hux hz)⟩

end SccL

open SccL

namespace Dfs
variable {A : K → List (K × E)}

theorem fin_closed {vis vis' disc fin : List K} {u : K} (h : Dfs A vis u disc fin vis') :
    ∀ x ∈ fin, ∀ p ∈ A x, p.1 ∈ vis' := by
  induction h with
  | finish hall =>
    intro x hx; simp only [List.mem_singleton] at hx; subst hx; exact hall
  | descend _ _ _ D2 ih1 ih2 =>
    intro x hx p hp
    rcases List.mem_append.mp hx with hx | hx
    · exact D2.mono _ (ih1 x hx p hp)
    · exact ih2 x hx p hp

theorem fin_reach {vis vis' disc fin : List K} {u : K} (h : Dfs A vis u disc fin vis') :
    ∀ x ∈ fin, Reach A u x := by
  intro x hx
  rcases List.mem_cons.mp (h.fin_perm.mem_iff.mp hx) with rfl | hx
  · exact .refl _
  · exact h.disc_reach x hx

theorem vis_split {vis vis' disc fin : List K} {u : K} (h : Dfs A vis u disc fin vis') :
    ∀ x ∈ vis', x ∈ vis ∨ x ∈ fin := by
  intro x hx
  rw [h.vis_eq] at hx
  rcases List.mem_append.mp hx with hx | hx
  · exact Or.inr (h.fin_perm.mem_iff.mpr (List.mem_cons_of_mem _ (List.mem_reverse.mp hx)))
  · exact Or.inl hx

theorem u_mem_fin {vis vis' disc fin : List K} {u : K} (h : Dfs A vis u disc fin vis') : u ∈ fin := by
  obtain ⟨f, rfl⟩ := h.fin_last; simp

/-- The component-root lemma. `S` = the recursion stack below `u`, `F` = the nodes finished before this
    call (in finishing order). A node finished earlier either still reaches the stack, or is in the
    component of `u`, or is `Done`. Then every node finished by this call reaches the remaining stack
    or is `Done`. -/
theorem comp_root {vis vis' disc fin : List K} {u : K} (h : Dfs A vis u disc fin vis') (S F : List K)
    (H1 : ∀ x ∈ vis, x = u ∨ x ∈ S ∨ x ∈ F)
    (H2 : ∀ s ∈ S, Reach A s u)
    (H3 : ∀ x ∈ F, (∃ s ∈ S, Reach A x s) ∨ (Reach A x u ∧ Reach A u x) ∨ Done A F x)
    (H4 : ∀ x ∈ F, ∀ p ∈ A x, p.1 ∈ vis) :
    ∀ x ∈ fin, (∃ s ∈ S, Reach A x s) ∨ Done A (F ++ fin) x := by
  induction h generalizing S F with
  | @finish vis u hall =>
    intro x hx
    simp only [List.mem_singleton] at hx; subst hx
    by_cases hs : ∃ s ∈ S, Reach A x s
    · exact Or.inl hs
    · refine Or.inr ?_
      have hcl : ∀ z, Reach A x z → z ∈ F ++ [x] := by
        intro z hz
        induction hz with
        | refl => simp
        | @step b c e hb hc ih =>
          have hcv : c ∈ vis := by
            rcases List.mem_append.mp ih with hb1 | hb1
            · exact H4 b hb1 _ hc
            · simp only [List.mem_singleton] at hb1; subst hb1; exact hall _ hc
          rcases H1 c hcv with rfl | hcS | hcF
          · simp
          · exact absurd ⟨c, hcS, .step hb hc⟩ hs
          · exact List.mem_append_left _ hcF
      refine ⟨x, by simp, .refl _, .refl _, fun z hz => ⟨hcl z hz, ?_⟩⟩
      rcases List.mem_append.mp (hcl z hz) with h' | h'
      · exact Or.inr (Before.of_mem_append' h' (by simp))
      · simp only [List.mem_singleton] at h'; exact Or.inl h'
  | @descend vis vis1 vis2 u v e d1 f1 d2 f2 he hv D1 D2 ih1 ih2 =>
    have huv : Reach A u v := .step (.refl _) he
    have c1 := ih1 (u :: S) F
      (by
        intro x hx; rcases List.mem_cons.mp hx with rfl | hx
        · exact Or.inl rfl
        · rcases H1 x hx with rfl | h | h
          · exact Or.inr (Or.inl List.mem_cons_self)
          · exact Or.inr (Or.inl (List.mem_cons_of_mem _ h))
          · exact Or.inr (Or.inr h))
      (by
        intro s hs; rcases List.mem_cons.mp hs with rfl | hs
        · exact huv
        · exact .step (H2 s hs) he)
      (by
        intro x hx; rcases H3 x hx with ⟨s, hs, hr⟩ | ⟨hr, _⟩ | hd
        · exact Or.inl ⟨s, List.mem_cons_of_mem _ hs, hr⟩
        · exact Or.inl ⟨u, List.mem_cons_self, hr⟩
        · exact Or.inr (Or.inr hd))
      (fun x hx p hp => List.mem_cons_of_mem _ (H4 x hx p hp))
    have c2 := ih2 S (F ++ f1)
      (by
        intro x hx; rcases D1.vis_split x hx with hx | hx
        · rcases List.mem_cons.mp hx with rfl | hx
          · exact Or.inr (Or.inr (List.mem_append_right _ D1.u_mem_fin))
          · rcases H1 x hx with h | h | h
            · exact Or.inl h
            · exact Or.inr (Or.inl h)
            · exact Or.inr (Or.inr (List.mem_append_left _ h))
        · exact Or.inr (Or.inr (List.mem_append_right _ hx)))
      H2
      (by
        intro x hx; rcases List.mem_append.mp hx with hx | hx
        · rcases H3 x hx with h | h | h
          · exact Or.inl h
          · exact Or.inr (Or.inl h)
          · exact Or.inr (Or.inr (h.append_right _))
        · rcases c1 x hx with ⟨s, hs, hr⟩ | h
          · rcases List.mem_cons.mp hs with rfl | hs
            · exact Or.inr (Or.inl ⟨hr, Reach.trans' huv (D1.fin_reach x hx)⟩)
            · exact Or.inl ⟨s, hs, hr⟩
          · exact Or.inr (Or.inr h))
      (by
        intro x hx p hp; rcases List.mem_append.mp hx with hx | hx
        · exact D1.mono _ (List.mem_cons_of_mem _ (H4 x hx p hp))
        · exact D1.fin_closed x hx p hp)
    rw [List.append_assoc] at c2
    intro x hx
    rcases List.mem_append.mp hx with hx | hx
    · rcases c1 x hx with ⟨s, hs, hr⟩ | h
      · rcases List.mem_cons.mp hs with rfl | hs
        · rcases c2 _ D2.u_mem_fin with ⟨s', hs', hr'⟩ | h
          · exact Or.inl ⟨s', hs', Reach.trans' hr hr'⟩
          · exact Or.inr (h.transfer hr (Reach.trans' huv (D1.fin_reach x hx)))
        · exact Or.inl ⟨s, hs, hr⟩
      · have := h.append_right f2
        rw [List.append_assoc] at this
        exact Or.inr this
    · exact c2 x hx

/-- a complete run from the root: every node of the finishing order is `Done` -/
theorem tree_done {r : K} {disc fin vis' : List K} (h : Dfs A [r] r disc fin vis') :
    ∀ x ∈ fin, Done A fin x := by
  intro x hx
  rcases h.comp_root [] []
    (by intro x hx; simp only [List.mem_singleton] at hx; exact Or.inl hx)
    (by intro s hs; cases hs) (by intro x hx; cases hx) (by intro x hx; cases hx) x hx with ⟨s, hs, _⟩ | h
  · cases hs
  · simpa using h

end Dfs

/-! ## Fuel and membership of the inner calls -/

namespace SccL

theorem orderNodes_total (adj : K → List (K × E)) (acc : K → K → E → Bool) (post : Bool) (root : K) (fuel : Nat)
    (π : List K) (hc : Closed adj π) (hr : root ∈ π) (hf : π.length < fuel) :
    ∃ ns st, orderNodes adj acc post root fuel = some (ns, st) := by
  have h := Order.fuel_enough' adj acc post root fuel π (closed_sub hc) hr hf
  obtain ⟨st, hst⟩ := Option.isSome_iff_exists.mp h
  exact ⟨_, st, by unfold orderNodes; rw [hst]; rfl⟩

theorem orderNodes_sub {adj : K → List (K × E)} {acc : K → K → E → Bool} {post : Bool} {root : K} {fuel : Nat}
    {π ns : List K} {st : TSt K E} (hc : Closed adj π) (hr : root ∈ π)
    (h : orderNodes adj acc post root fuel = some (ns, st)) : ∀ x ∈ ns, x ∈ π := by
  intro x hx
  exact reach_closed hc hr (reach_sub (((Order.nodes_exactly_reach' adj acc post root fuel ns st h).2.1 x).mp hx))

/-! ### unfolding equations of the two passes -/

theorem sccOrdering_skip (adj : K → List (K × E)) (fuel : Nat) (k : K) (rest V O : List K) (h : k ∈ V) :
    sccOrdering adj fuel (k :: rest) V O = sccOrdering adj fuel rest V O := by
  rw [sccOrdering, if_pos h]

theorem sccOrdering_none (adj : K → List (K × E)) (fuel : Nat) (k : K) (rest V O : List K) (h : k ∉ V)
    (ho : orderNodes adj (notIn V) true k fuel = none) :
    sccOrdering adj fuel (k :: rest) V O = none := by
  rw [sccOrdering, if_neg h]
  show (match orderNodes adj (notIn V) true k fuel with
    | none => none
    | some (part, _) => sccOrdering adj fuel rest (V ++ part) (O ++ part)) = none
  rw [ho]

theorem sccOrdering_tree (adj : K → List (K × E)) (fuel : Nat) (k : K) (rest V O : List K) (h : k ∉ V)
    (part : List K) (st : TSt K E) (ho : orderNodes adj (notIn V) true k fuel = some (part, st)) :
    sccOrdering adj fuel (k :: rest) V O = sccOrdering adj fuel rest (V ++ part) (O ++ part) := by
  rw [sccOrdering, if_neg h]
  show (match orderNodes adj (notIn V) true k fuel with
    | none => none
    | some (part, _) => sccOrdering adj fuel rest (V ++ part) (O ++ part)) = _
  rw [ho]

theorem sccCollect_skip (radj : K → List (K × E)) (fuel : Nat) (k : K) (rest V : List K) (C : List (List K))
    (h : k ∈ V) : sccCollect radj fuel (k :: rest) V C = sccCollect radj fuel rest V C := by
  rw [sccCollect, if_pos h]

theorem sccCollect_none (radj : K → List (K × E)) (fuel : Nat) (k : K) (rest V : List K) (C : List (List K))
    (h : k ∉ V) (ho : orderNodes radj (notIn V) false k fuel = none) :
    sccCollect radj fuel (k :: rest) V C = none := by
  rw [sccCollect, if_neg h]
  show (match orderNodes radj (notIn V) false k fuel with
    | none => none
    | some (comp, _) => sccCollect radj fuel rest (V ++ comp) (C ++ [comp])) = none
  rw [ho]

theorem sccCollect_comp (radj : K → List (K × E)) (fuel : Nat) (k : K) (rest V : List K) (C : List (List K))
    (h : k ∉ V) (comp : List K) (st : TSt K E) (ho : orderNodes radj (notIn V) false k fuel = some (comp, st)) :
    sccCollect radj fuel (k :: rest) V C = sccCollect radj fuel rest (V ++ comp) (C ++ [comp]) := by
  rw [sccCollect, if_neg h]
  show (match orderNodes radj (notIn V) false k fuel with
    | none => none
    | some (comp, _) => sccCollect radj fuel rest (V ++ comp) (C ++ [comp])) = _
  rw [ho]

/-! ### totality -/

theorem ordering_total (adj : K → List (K × E)) (fuel : Nat) (π : List K) (hc : Closed adj π)
    (hf : π.length < fuel) (rest : List K) :
    ∀ V O : List K, (∀ x ∈ rest, x ∈ π) → (∀ x ∈ O, x ∈ π) →
      ∃ L, sccOrdering adj fuel rest V O = some L ∧ ∀ x ∈ L, x ∈ π := by
  induction rest with
  | nil => intro V O _ hO; exact ⟨O, by simp [sccOrdering], hO⟩
  | cons k rest ih =>
    intro V O hr hO
    have hk : k ∈ π := hr k List.mem_cons_self
    have hr' : ∀ x ∈ rest, x ∈ π := fun x hx => hr x (List.mem_cons_of_mem _ hx)
    by_cases hkV : k ∈ V
    · rw [sccOrdering_skip adj fuel k rest V O hkV]; exact ih V O hr' hO
    · obtain ⟨part, st, ho⟩ := orderNodes_total adj (notIn V) true k fuel π hc hk hf
      rw [sccOrdering_tree adj fuel k rest V O hkV part st ho]
      refine ih _ _ hr' ?_
      intro x hx; rcases List.mem_append.mp hx with hx | hx
      · exact hO x hx
      · exact orderNodes_sub hc hk ho x hx

theorem collect_total (radj : K → List (K × E)) (fuel : Nat) (π : List K) (hc : Closed radj π)
    (hf : π.length < fuel) (rest : List K) :
    ∀ (V : List K) (C : List (List K)), (∀ x ∈ rest, x ∈ π) →
      ∃ R, sccCollect radj fuel rest V C = some R := by
  induction rest with
  | nil => intro V C _; exact ⟨C, by simp [sccCollect]⟩
  | cons k rest ih =>
    intro V C hr
    have hk : k ∈ π := hr k List.mem_cons_self
    have hr' : ∀ x ∈ rest, x ∈ π := fun x hx => hr x (List.mem_cons_of_mem _ hx)
    by_cases hkV : k ∈ V
    · rw [sccCollect_skip radj fuel k rest V C hkV]; exact ih V C hr'
    · obtain ⟨comp, st, ho⟩ := orderNodes_total radj (notIn V) false k fuel π hc hk hf
      rw [sccCollect_comp radj fuel k rest V C hkV comp st ho]
      exact ih _ _ hr'

end SccL

/-! ## First pass -/

namespace SccL

/-- invariant of the first pass: `O` = `visited` = `ordering` -/
structure FInv (adj : K → List (K × E)) (O : List K) : Prop where
  nodup : O.Nodup
  closed : ∀ x ∈ O, ∀ p ∈ adj x, p.1 ∈ O
  done : ∀ x ∈ O, Done adj O x

theorem finv_step {adj : K → List (K × E)} {O : List K} {k : K} {fuel : Nat} {part : List K} {st : TSt K E}
    (inv : FInv adj O) (hk : k ∉ O) (ho : orderNodes adj (notIn O) true k fuel = some (part, st)) :
    FInv adj (O ++ part) ∧ k ∈ part := by
  obtain ⟨hnd, hmem, _⟩ := Order.nodes_exactly_reach' adj (notIn O) true k fuel part st ho
  obtain ⟨disc, vis', D⟩ := Order.post_is_dfs_finishing' adj (notIn O) k fuel part st ho
  have hdone := D.tree_done
  have hout : ∀ x ∈ part, x ∉ O := by
    intro x hx
    rcases reach_notIn_end ((hmem x).mp hx) with rfl | h
    · exact hk
    · exact h
  refine ⟨⟨?_, ?_, ?_⟩, (hmem k).mpr (.refl _)⟩
  · exact List.nodup_append.mpr ⟨inv.nodup, hnd, fun a ha b hb hab => hout b hb (hab ▸ ha)⟩
  · intro x hx p hp
    rcases List.mem_append.mp hx with hx | hx
    · exact List.mem_append_left _ (inv.closed x hx p hp)
    · by_cases hpO : p.1 ∈ O
      · exact List.mem_append_left _ hpO
      · exact List.mem_append_right _
          ((hmem p.1).mpr (.step ((hmem x).mp hx) (mem_notIn.mpr ⟨hp, hpO⟩)))
  · intro x hx
    rcases List.mem_append.mp hx with hx | hx
    · exact (inv.done x hx).append_right _
    · obtain ⟨w, hw, xw, wx, hz⟩ := hdone x hx
      refine ⟨w, List.mem_append_right _ hw, reach_sub xw, reach_sub wx, ?_⟩
      intro z hxz
      rcases reach_split inv.closed hxz with hzO | hzA
      · exact ⟨List.mem_append_left _ hzO, Or.inr (Before.of_mem_append' hzO hw)⟩
      · exact ⟨List.mem_append_right _ (hz z hzA).1, (hz z hzA).2.append_left _⟩

theorem ordering_inv (adj : K → List (K × E)) (fuel : Nat) (π : List K) (hc : Closed adj π) (rest : List K) :
    ∀ O L : List K, FInv adj O → (∀ x ∈ O, x ∈ π) → (∀ x ∈ rest, x ∈ π) →
      sccOrdering adj fuel rest O O = some L →
      FInv adj L ∧ (∀ x ∈ L, x ∈ π) ∧ (∀ x ∈ rest, x ∈ L) ∧ (∀ x ∈ O, x ∈ L) := by
  induction rest with
  | nil =>
    intro O L inv hO _ h
    simp only [sccOrdering, Option.some.injEq] at h; subst h
    exact ⟨inv, hO, (by intro x hx; cases hx), fun _ h => h⟩
  | cons k rest ih =>
    intro O L inv hO hr h
    have hk : k ∈ π := hr k List.mem_cons_self
    have hr' : ∀ x ∈ rest, x ∈ π := fun x hx => hr x (List.mem_cons_of_mem _ hx)
    by_cases hkO : k ∈ O
    · rw [sccOrdering_skip adj fuel k rest O O hkO] at h
      obtain ⟨a, b, c, d⟩ := ih O L inv hO hr' h
      refine ⟨a, b, ?_, d⟩
      intro x hx; rcases List.mem_cons.mp hx with rfl | hx
      · exact d _ hkO
      · exact c x hx
    · rcases ho : orderNodes adj (notIn O) true k fuel with _ | ⟨part, st⟩
      · rw [sccOrdering_none adj fuel k rest O O hkO ho] at h; cases h
      · rw [sccOrdering_tree adj fuel k rest O O hkO part st ho] at h
        obtain ⟨inv', hkp⟩ := finv_step inv hkO ho
        obtain ⟨a, b, c, d⟩ := ih (O ++ part) L inv'
          (by
            intro x hx; rcases List.mem_append.mp hx with hx | hx
            · exact hO x hx
            · exact orderNodes_sub hc hk ho x hx) hr' h
        refine ⟨a, b, ?_, fun x hx => d x (List.mem_append_left _ hx)⟩
        intro x hx; rcases List.mem_cons.mp hx with rfl | hx
        · exact d _ (List.mem_append_right _ hkp)
        · exact c x hx

/-- summary of the first pass -/
theorem ordering_spec (adj : K → List (K × E)) (fuel : Nat) (π L : List K) (hc : Closed adj π)
    (h : sccOrdering adj fuel π [] [] = some L) :
    L.Nodup ∧ (∀ x, x ∈ L ↔ x ∈ π) ∧ ∀ x ∈ L, Done adj L x := by
  obtain ⟨inv, a, b, _⟩ := ordering_inv adj fuel π hc π [] L
    ⟨List.nodup_nil, (by intro x hx; cases hx), (by intro x hx; cases hx)⟩ (by intro x hx; cases hx) (fun _ h => h) h
  exact ⟨inv.nodup, fun x => ⟨a x, b x⟩, inv.done⟩

end SccL

/-! ## Second pass -/

namespace SccL

/-- invariant of the second pass; `L` is the ordering of the first pass, `rem` the part of `L.reverse`
    still to be walked -/
structure CInv (adj : K → List (K × E)) (L rem assigned : List K) (comps : List (List K)) : Prop where
  flat : assigned = comps.flatten
  nodup : assigned.Nodup
  sub : ∀ x ∈ assigned, x ∈ L
  sccClosed : ∀ x ∈ assigned, ∀ y, Reach adj x y → Reach adj y x → y ∈ assigned
  comp : ∀ c ∈ comps, c ≠ [] ∧ (∀ u ∈ c, ∀ v ∈ c, Reach adj u v) ∧
    (∀ u ∈ c, ∀ v, Reach adj u v → Reach adj v u → v ∈ c)
  rem : ∃ pre, L = rem.reverse ++ pre ∧ ∀ x ∈ pre, x ∈ assigned

/-- the component of `k` is reached backwards from `k` without leaving the unassigned nodes -/
theorem reach_in_scc {adj radj : K → List (K × E)}
    (ht : ∀ u v, (∃ e, (v, e) ∈ adj u) ↔ (∃ e, (u, e) ∈ radj v)) {assigned : List K} {k : K}
    (hk : k ∉ assigned) (hcl : ∀ x ∈ assigned, ∀ y, Reach adj x y → Reach adj y x → y ∈ assigned)
    {y : K} (h : Reach radj k y) : Reach adj k y → Reach (accAdj radj (notIn assigned)) k y := by
  induction h with
  | refl => intro _; exact .refl _
  | @step b c e hb he ih =>
    intro hkc
    obtain ⟨e', he'⟩ := (ht c b).mpr ⟨e, he⟩
    have hkb : Reach adj k b := .step hkc he'
    have hcA : c ∉ assigned := fun hcA =>
      hk (hcl c hcA k (reach_head he' (reach_transpose ht hb)) hkc)
    exact .step (ih hkb) (mem_notIn.mpr ⟨he, hcA⟩)

theorem comp_iff {adj radj : K → List (K × E)}
    (ht : ∀ u v, (∃ e, (v, e) ∈ adj u) ↔ (∃ e, (u, e) ∈ radj v)) {π L : List K}
    (hrc : Closed radj π) (hLn : L.Nodup) (hLm : ∀ x, x ∈ L ↔ x ∈ π) (hLd : ∀ x ∈ L, Done adj L x)
    {k : K} {rest assigned : List K} {comps : List (List K)} (inv : CInv adj L (k :: rest) assigned comps)
    (hk : k ∉ assigned) {fuel : Nat} {comp : List K} {st : TSt K E}
    (ho : orderNodes radj (notIn assigned) false k fuel = some (comp, st)) :
    comp.Nodup ∧ ∀ x, x ∈ comp ↔ (Reach adj k x ∧ Reach adj x k) := by
  obtain ⟨hnd, hmem, _⟩ := Order.nodes_exactly_reach' radj (notIn assigned) false k fuel comp st ho
  obtain ⟨pre, hL, hpre⟩ := inv.rem
  have hL' : L = rest.reverse ++ ([k] ++ pre) := by rw [hL]; simp
  have hkL : k ∈ L := by rw [hL']; simp
  have hkπ : k ∈ π := (hLm k).mp hkL
  have ht' : ∀ u v, (∃ e, (v, e) ∈ radj u) ↔ (∃ e, (u, e) ∈ adj v) := fun u v => (ht v u).symm
  refine ⟨hnd, fun x => ⟨fun hx => ?_, fun hx => ?_⟩⟩
  · have hx := (hmem x).mp hx
    have hxA : x ∉ assigned := by
      rcases reach_notIn_end hx with rfl | h
      · exact hk
      · exact h
    have hxk : Reach adj x k := reach_transpose ht (reach_sub hx)
    have hxL : x ∈ L := (hLm x).mpr (reach_closed hrc hkπ (reach_sub hx))
    obtain ⟨w, hw, xw, wx, hz⟩ := hLd x hxL
    have hkw : NoLater L k w := (hz k hxk).2
    have hwA : w ∉ assigned := fun hwA => hxA (inv.sccClosed w hwA x wx xw)
    have hwk : NoLater L w k := by
      rw [hL'] at hw ⊢
      rcases List.mem_append.mp hw with h1 | h1
      · exact Or.inr (Before.of_mem_append' h1 (by simp))
      · rcases List.mem_append.mp h1 with h2 | h2
        · simp only [List.mem_singleton] at h2; exact Or.inl h2
        · exact absurd (hpre w h2) hwA
    have : k = w := NoLater.antisymm hLn hkw hwk
    subst this
    exact ⟨wx, hxk⟩
  · exact (hmem x).mpr (reach_in_scc ht hk inv.sccClosed (reach_transpose ht' hx.2) hx.1)

theorem collect_skip {adj : K → List (K × E)} {L : List K} {k : K} {rest assigned : List K}
    {comps : List (List K)} (inv : CInv adj L (k :: rest) assigned comps) (hk : k ∈ assigned) :
    CInv adj L rest assigned comps := by
  obtain ⟨pre, hL, hpre⟩ := inv.rem
  refine ⟨inv.flat, inv.nodup, inv.sub, inv.sccClosed, inv.comp, k :: pre, by rw [hL]; simp, ?_⟩
  intro x hx; rcases List.mem_cons.mp hx with rfl | hx
  · exact hk
  · exact hpre x hx

theorem collect_step {adj radj : K → List (K × E)}
    (ht : ∀ u v, (∃ e, (v, e) ∈ adj u) ↔ (∃ e, (u, e) ∈ radj v)) {π L : List K}
    (hc : Closed adj π) (hrc : Closed radj π)
    (hLn : L.Nodup) (hLm : ∀ x, x ∈ L ↔ x ∈ π) (hLd : ∀ x ∈ L, Done adj L x)
    {k : K} {rest assigned : List K} {comps : List (List K)} (inv : CInv adj L (k :: rest) assigned comps)
    (hk : k ∉ assigned) {fuel : Nat} {comp : List K} {st : TSt K E}
    (ho : orderNodes radj (notIn assigned) false k fuel = some (comp, st)) :
    CInv adj L rest (assigned ++ comp) (comps ++ [comp]) := by
  obtain ⟨hnd, hmem⟩ := comp_iff ht hrc hLn hLm hLd inv hk ho
  obtain ⟨pre, hL, hpre⟩ := inv.rem
  have hkL : k ∈ L := by rw [hL]; simp
  have hkπ : k ∈ π := (hLm k).mp hkL
  have hkc : k ∈ comp := (hmem k).mpr ⟨.refl _, .refl _⟩
  have hcls : ∀ u ∈ comp, ∀ v, Reach adj u v → Reach adj v u → v ∈ comp := by
    intro u hu v huv hvu
    obtain ⟨ku, uk⟩ := (hmem u).mp hu
    exact (hmem v).mpr ⟨Reach.trans' ku huv, Reach.trans' hvu uk⟩
  refine ⟨?_, ?_, ?_, ?_, ?_, ?_⟩
  · rw [inv.flat]; simp
  · refine List.nodup_append.mpr ⟨inv.nodup, hnd, ?_⟩
    intro a ha b hb hab
    subst hab
    obtain ⟨ka, ak⟩ := (hmem a).mp hb
    exact hk (inv.sccClosed a ha k ak ka)
  · intro x hx; rcases List.mem_append.mp hx with hx | hx
    · exact inv.sub x hx
    · exact (hLm x).mpr (reach_closed hc hkπ ((hmem x).mp hx).1)
  · intro x hx y hxy hyx
    rcases List.mem_append.mp hx with hx | hx
    · exact List.mem_append_left _ (inv.sccClosed x hx y hxy hyx)
    · exact List.mem_append_right _ (hcls x hx y hxy hyx)
  · intro c hcm
    rcases List.mem_append.mp hcm with hcm | hcm
    · exact inv.comp c hcm
    · simp only [List.mem_singleton] at hcm; subst hcm
      refine ⟨List.ne_nil_of_mem hkc, ?_, hcls⟩
      intro u hu v hv
      exact Reach.trans' ((hmem u).mp hu).2 ((hmem v).mp hv).1
  · refine ⟨k :: pre, by rw [hL]; simp, ?_⟩
    intro x hx; rcases List.mem_cons.mp hx with rfl | hx
    · exact List.mem_append_right _ hkc
    · exact List.mem_append_left _ (hpre x hx)

theorem collect_inv {adj radj : K → List (K × E)}
    (ht : ∀ u v, (∃ e, (v, e) ∈ adj u) ↔ (∃ e, (u, e) ∈ radj v)) {π L : List K}
    (hc : Closed adj π) (hrc : Closed radj π)
    (hLn : L.Nodup) (hLm : ∀ x, x ∈ L ↔ x ∈ π) (hLd : ∀ x ∈ L, Done adj L x) (fuel : Nat) (rem : List K) :
    ∀ (assigned : List K) (comps R : List (List K)), CInv adj L rem assigned comps →
      sccCollect radj fuel rem assigned comps = some R → CInv adj L [] R.flatten R := by
  induction rem with
  | nil =>
    intro assigned comps R inv h
    simp only [sccCollect, Option.some.injEq] at h; subst h
    rw [← inv.flat]; exact inv
  | cons k rest ih =>
    intro assigned comps R inv h
    by_cases hk : k ∈ assigned
    · rw [sccCollect_skip radj fuel k rest assigned comps hk] at h
      exact ih assigned comps R (collect_skip inv hk) h
    · rcases ho : orderNodes radj (notIn assigned) false k fuel with _ | ⟨comp, st⟩
      · rw [sccCollect_none radj fuel k rest assigned comps hk ho] at h; cases h
      · rw [sccCollect_comp radj fuel k rest assigned comps hk comp st ho] at h
        exact ih _ _ R (collect_step ht hc hrc hLn hLm hLd inv hk ho) h

/-- summary of both passes -/
theorem scc_spec (adj radj : K → List (K × E)) (π : List K) (fuel : Nat) (comps : List (List K))
    (hc : Closed adj π) (hrc : Closed radj π)
    (ht : ∀ u v, (∃ e, (v, e) ∈ adj u) ↔ (∃ e, (u, e) ∈ radj v))
    (h : scc adj radj π fuel = some comps) :
    comps.flatten.Nodup ∧ (∀ x, x ∈ comps.flatten ↔ x ∈ π) ∧
    ∀ c ∈ comps, c ≠ [] ∧ (∀ u ∈ c, ∀ v ∈ c, Reach adj u v) ∧
      (∀ u ∈ c, ∀ v, Reach adj u v → Reach adj v u → v ∈ c) := by
  unfold scc at h
  rcases hL : sccOrdering adj fuel π [] [] with _ | L
  · rw [hL] at h; cases h
  · rw [hL] at h
    have h : sccCollect radj fuel L.reverse [] [] = some comps := h
    obtain ⟨hLn, hLm, hLd⟩ := ordering_spec adj fuel π L hc hL
    have inv0 : CInv adj L L.reverse [] [] :=
      ⟨rfl, List.nodup_nil, (by intro x hx; cases hx), (by intro x hx; cases hx), (by intro c hc; cases hc),
        [], by simp, (by intro x hx; cases hx)⟩
    have inv := collect_inv ht hc hrc hLn hLm hLd fuel L.reverse [] [] comps inv0 h
    obtain ⟨pre, hpre, hall⟩ := inv.rem
    simp only [List.reverse_nil, List.nil_append] at hpre
    subst hpre
    exact ⟨inv.nodup, fun x => ⟨fun hx => (hLm x).mp (inv.sub x hx), fun hx => hall x ((hLm x).mpr hx)⟩, inv.comp⟩

end SccL

/-! ## The lemmas used by `Props/C11.lean` -/

theorem Scc.partition' (adj radj : K → List (K × E)) (π : List K) (fuel : Nat) (comps : List (List K))
    (hnd : π.Nodup) (hc : Closed adj π) (hrc : Closed radj π)
    (ht : ∀ u v, (∃ e, (v, e) ∈ adj u) ↔ (∃ e, (u, e) ∈ radj v))
    (h : scc adj radj π fuel = some comps) :
    comps.flatten.Perm π ∧ ∀ c ∈ comps, c ≠ [] := by
  obtain ⟨hn, hm, hcomp⟩ := scc_spec adj radj π fuel comps hc hrc ht h
  exact ⟨(List.perm_ext_iff_of_nodup hn hnd).mpr hm, fun c hcm => (hcomp c hcm).1⟩

theorem Scc.sound' (adj radj : K → List (K × E)) (π : List K) (fuel : Nat) (comps : List (List K))
    (_hnd : π.Nodup) (hc : Closed adj π) (hrc : Closed radj π)
    (ht : ∀ u v, (∃ e, (v, e) ∈ adj u) ↔ (∃ e, (u, e) ∈ radj v))
    (h : scc adj radj π fuel = some comps) :
    ∀ c ∈ comps, ∀ u ∈ c, ∀ v ∈ c, Reach adj u v := by
  obtain ⟨_, _, hcomp⟩ := scc_spec adj radj π fuel comps hc hrc ht h
  exact fun c hcm => (hcomp c hcm).2.1

theorem Scc.complete' (adj radj : K → List (K × E)) (π : List K) (fuel : Nat) (comps : List (List K))
    (_hnd : π.Nodup) (hc : Closed adj π) (hrc : Closed radj π)
    (ht : ∀ u v, (∃ e, (v, e) ∈ adj u) ↔ (∃ e, (u, e) ∈ radj v))
    (h : scc adj radj π fuel = some comps) :
    ∀ u ∈ π, ∀ v ∈ π, Reach adj u v → Reach adj v u → ∃ c ∈ comps, u ∈ c ∧ v ∈ c := by
  obtain ⟨_, hm, hcomp⟩ := scc_spec adj radj π fuel comps hc hrc ht h
  intro u hu v _ huv hvu
  obtain ⟨c, hcm, huc⟩ := List.mem_flatten.mp ((hm u).mpr hu)
  exact ⟨c, hcm, huc, (hcomp c hcm).2.2 u huc v huv hvu⟩

theorem Scc.order_independent' (adj radj : K → List (K × E)) (π π' : List K) (fuel fuel' : Nat)
    (comps comps' : List (List K))
    (_hnd : π.Nodup) (_hnd' : π'.Nodup) (hperm : ∀ k, k ∈ π ↔ k ∈ π')
    (hc : Closed adj π) (hrc : Closed radj π)
    (ht : ∀ u v, (∃ e, (v, e) ∈ adj u) ↔ (∃ e, (u, e) ∈ radj v))
    (h : scc adj radj π fuel = some comps) (h' : scc adj radj π' fuel' = some comps') :
    ∀ c ∈ comps, ∃ c' ∈ comps', ∀ x, x ∈ c ↔ x ∈ c' := by
  have hc' : Closed adj π' := fun u hu p hp => (hperm _).mp (hc u ((hperm u).mpr hu) p hp)
  have hrc' : Closed radj π' := fun u hu p hp => (hperm _).mp (hrc u ((hperm u).mpr hu) p hp)
  obtain ⟨_, hm, hcomp⟩ := scc_spec adj radj π fuel comps hc hrc ht h
  obtain ⟨_, hm', hcomp'⟩ := scc_spec adj radj π' fuel' comps' hc' hrc' ht h'
  intro c hcm
  obtain ⟨hne, hs, hcl⟩ := hcomp c hcm
  obtain ⟨u, huc⟩ := List.exists_mem_of_ne_nil c hne
  have huπ : u ∈ π := (hm u).mp (List.mem_flatten.mpr ⟨c, hcm, huc⟩)
  obtain ⟨c', hcm', huc'⟩ := List.mem_flatten.mp ((hm' u).mpr ((hperm u).mp huπ))
  obtain ⟨_, hs', hcl'⟩ := hcomp' c' hcm'
  refine ⟨c', hcm', fun x => ⟨fun hx => ?_, fun hx => ?_⟩⟩
  · exact hcl' u huc' x (hs u huc x hx) (hs x hx u huc)
  · exact hcl u huc x (hs' u huc' x hx) (hs' x hx u huc')

theorem Scc.fuel_enough' (adj radj : K → List (K × E)) (π : List K) (fuel : Nat)
    (hc : Closed adj π) (hrc : Closed radj π) (hf : π.length < fuel) :
    (scc adj radj π fuel).isSome = true := by
  obtain ⟨L, hL, hsub⟩ := ordering_total adj fuel π hc hf π [] [] (fun _ h => h) (by intro x hx; cases hx)
  obtain ⟨R, hR⟩ := collect_total radj fuel π hrc hf L.reverse [] []
    (fun x hx => hsub x (List.mem_reverse.mp hx))
  unfold scc
  rw [hL]
  show (sccCollect radj fuel L.reverse [] []).isSome = true
  rw [hR]; rfl

end G

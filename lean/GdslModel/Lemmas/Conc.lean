import GdslModel.Model.Sync
import GdslModel.Model.Spec
import GdslModel.Lemmas.SyncSingle
import GdslModel.Lemmas.Di
import GdslModel.Lemmas.Un
/-!
# Concurrent runs of lock programs (C17)

(A) well-formedness of the lock programs, (B) deadlock freedom for well-formed programs,
(C) serialisability of mutator calls under the mutation mutex, (D) the negative control.
-/
set_option linter.unusedSectionVars false
namespace G
variable {K E : Type} [DecidableEq K]

namespace Conc

/-! ## (A) `Prog.bind` and well-formedness -/

theorem bind_assoc {R S T : Type} (p : Prog K E R) (f : R → Prog K E S) (g : S → Prog K E T) :
    (p.bind f).bind g = p.bind (fun r => (f r).bind g) := by
  induction p with
  | done r => rfl
  | acq l m p ih => simp only [Prog.bind, ih]
  | rel l p ih => simp only [Prog.bind, ih]
  | read c ih => simp only [Prog.bind]; congr; funext s; exact ih s
  | write u p ih => simp only [Prog.bind, ih]

theorem bind_done {R : Type} (p : Prog K E R) : p.bind .done = p := by
  induction p with
  | done r => rfl
  | acq l m p ih => simp only [Prog.bind, ih]
  | rel l p ih => simp only [Prog.bind, ih]
  | read c ih => simp only [Prog.bind]; congr; funext s; exact ih s
  | write u p ih => simp only [Prog.bind, ih]

/-- well-formed *bodies*: no mutex event, node locks never nested; `WFB n p` = `p` is run while
    holding exactly the node lock `n` (if any) and ends holding no node lock -/
inductive WFB {R : Type} : Option K → Prog K E R → Prop where
  | done {r : R} : WFB none (.done r)
  | acqN {k : K} {md : Mode} {p : Prog K E R} : WFB (some k) p → WFB none (.acq (.node k) md p)
  | relN {k : K} {p : Prog K E R} : WFB none p → WFB (some k) (.rel (.node k) p)
  | read {n : Option K} {c : Store K E → Prog K E R} : (∀ s, WFB n (c s)) → WFB n (.read c)
  | write {n : Option K} {u : Store K E → Store K E} {p : Prog K E R} : WFB n p → WFB n (.write u p)

theorem WFB.bind {R S : Type} {n : Option K} {p : Prog K E R} {f : R → Prog K E S}
    (h : WFB n p) (hf : ∀ r, WFB none (f r)) : WFB n (p.bind f) := by
  induction h with
  | done => exact hf _
  | acqN _ ih => exact .acqN ih
  | relN _ ih => exact .relN ih
  | read _ ih => exact .read ih
  | write _ ih => exact .write ih

/-- a body followed by a continuation that is well formed under the mutex state `m` -/
theorem WFB.toWF {R S : Type} (m : Bool) {n : Option K} {p : Prog K E R} {f : R → Prog K E S}
    (h : WFB n p) (hf : ∀ r, WF m none (f r)) : WF m n (p.bind f) := by
  induction h with
  | done => exact hf _
  | acqN _ ih => exact .acqN ih
  | relN _ ih => exact .relN ih
  | read _ ih => exact .read ih
  | write _ ih => exact .write ih

theorem WF.bind {R S : Type} {m : Bool} {n : Option K} {p : Prog K E R} {f : R → Prog K E S}
    (h : WF m n p) (hf : ∀ r, WF false none (f r)) : WF m n (p.bind f) := by
  induction h with
  | done => exact hf _
  | acqM _ ih => exact .acqM ih
  | relM _ ih => exact .relM ih
  | acqN _ ih => exact .acqN ih
  | relN _ ih => exact .relN ih
  | read _ ih => exact .read ih
  | write _ ih => exact .write ih

theorem WFB.wfProg {R : Type} {p : Prog K E R} (h : WFB none p) : WFProg p := by
  have := WFB.toWF (f := Prog.done) false h (fun _ => WF.done)
  rwa [bind_done] at this

theorem WFB.withMutex {R : Type} {p : Prog K E R} (h : WFB none p) (mx : Bool) : WFProg (withMutex mx p) := by
  cases mx with
  | false => exact h.wfProg
  | true => exact .acqM (WFB.toWF true h fun _ => .relM .done)

theorem wfProg_seqProg {R : Type} (ps : List (Prog K E R)) (h : ∀ p ∈ ps, WFProg p) : WFProg (seqProg ps) := by
  induction ps with
  | nil => exact .done
  | cons p ps ih =>
    refine WF.bind (h p (by simp)) fun r => WF.bind (ih fun q hq => h q (by simp [hq])) fun _ => .done

/-! ### the bodies of the sync flavours -/

macro "wfb_step" : tactic =>
  `(tactic| first | exact WFB.done | apply WFB.acqN | apply WFB.relN | (apply WFB.read; intro _) | apply WFB.write
                  | assumption | split)

theorem wfb_connectBody (u v : K) (e : E) : WFB none (Sync.connectBody u v e) := by
  unfold Sync.connectBody; repeat wfb_step

theorem wfb_query {R : Type} (u : K) (f : Adj K E → R) : WFB none (Sync.query u f) := by
  unfold Sync.query; repeat wfb_step

theorem wfb_clearBoth (u : K) : WFB none (Sync.Di.clearBoth (E := E) u) := by
  unfold Sync.Di.clearBoth; repeat wfb_step

theorem wfb_isoOut (u : K) (fuel pos : Nat) (k : Prog K E Bool) (hk : WFB none k) :
    WFB none (Sync.Di.isoOut u fuel pos k) := by
  induction fuel generalizing pos with
  | zero => unfold Sync.Di.isoOut; exact WFB.bind (wfb_query _ _) fun _ => hk
  | succ fuel ih =>
    unfold Sync.Di.isoOut
    refine WFB.bind (wfb_query _ _) fun x => ?_
    have := ih (pos + 1)
    repeat wfb_step

theorem wfb_isoIn (u : K) (fuel pos : Nat) (k : Prog K E Bool) (hk : WFB none k) :
    WFB none (Sync.Di.isoIn u fuel pos k) := by
  induction fuel generalizing pos with
  | zero => unfold Sync.Di.isoIn; exact WFB.bind (wfb_query _ _) fun _ => hk
  | succ fuel ih =>
    unfold Sync.Di.isoIn
    refine WFB.bind (wfb_query _ _) fun x => ?_
    have := ih (pos + 1)
    repeat wfb_step

theorem wfb_isoLoop (u : K) (fuel pos : Nat) (k : Prog K E Bool) (hk : WFB none k) :
    WFB none (Sync.Un.isoLoop u fuel pos k) := by
  induction fuel generalizing pos with
  | zero => unfold Sync.Un.isoLoop; exact WFB.bind (wfb_query _ _) fun _ => hk
  | succ fuel ih =>
    unfold Sync.Un.isoLoop
    refine WFB.bind (wfb_query _ _) fun x => ?_
    have := ih (pos + 1)
    repeat wfb_step

theorem wfb_di (op : Op K E) : WFB none (Sync.Di.prog false op) := by
  cases op with
  | connect u v e => exact wfb_connectBody u v e
  | tryConnect u v e =>
    refine WFB.bind (wfb_query _ _) fun c => ?_
    cases c
    · exact wfb_connectBody u v e
    · exact .done
  | disconnect u v =>
    refine WFB.bind (wfb_query _ _) fun c => ?_
    cases c
    · exact .done
    · simp only [Bool.not_true, Bool.false_eq_true, if_false]
      repeat wfb_step
  | isolate u =>
    refine WFB.bind (.read fun s0 => wfb_isoOut _ _ _ _ (.read fun s1 => wfb_isoIn _ _ _ _ (wfb_clearBoth u))) fun _ => .done

theorem wfb_un (op : Op K E) : WFB none (Sync.Un.prog false op) := by
  cases op with
  | connect u v e => exact wfb_connectBody u v e
  | tryConnect u v e =>
    refine WFB.bind (wfb_query _ _) fun c => ?_
    cases c
    · exact wfb_connectBody u v e
    · exact .done
  | disconnect u v =>
    refine WFB.bind (wfb_query _ _) fun c => ?_
    cases c
    · exact .done
    · simp only [Bool.not_true, Bool.false_eq_true, if_false]
      repeat wfb_step
  | isolate u =>
    refine WFB.bind (.read fun s0 => wfb_isoLoop _ _ _ _ (wfb_clearBoth u)) fun _ => .done

theorem di_prog_true (op : Op K E) : Sync.Di.prog true op = withMutex true (Sync.Di.prog false op) := by
  cases op <;> rfl

theorem un_prog_true (op : Op K E) : Sync.Un.prog true op = withMutex true (Sync.Un.prog false op) := by
  cases op <;> rfl

theorem wfProg_di (mx : Bool) (op : Op K E) : WFProg (Sync.Di.prog mx op) := by
  cases mx with
  | false => exact (wfb_di op).wfProg
  | true => rw [di_prog_true]; exact (wfb_di op).withMutex true

theorem wfProg_un (mx : Bool) (op : Op K E) : WFProg (Sync.Un.prog mx op) := by
  cases mx with
  | false => exact (wfb_un op).wfProg
  | true => rw [un_prog_true]; exact (wfb_un op).withMutex true

theorem wfProg_query {R : Type} (u : K) (f : Adj K E → R) : WFProg (Sync.query u f) := (wfb_query u f).wfProg
theorem wfProg_iterNext (u : K) (sel : Adj K E → List (K × E)) (pos : Nat) : WFProg (Sync.iterNext u sel pos) :=
  wfProg_query _ _
theorem wfProg_di_isOrphan (u : K) : WFProg (Sync.Di.isOrphan (E := E) u) := by
  apply WFB.wfProg
  refine WFB.bind (wfb_query _ _) fun r => ?_
  cases r
  · exact .done
  · exact wfb_query u (fun a => a.out.isEmpty)

/-! ## (B) deadlock freedom -/

theorem mem_othersHeld {R : Type} (c : Conf K E R) (i : Nat) (h : Lk K × Mode) :
    h ∈ c.othersHeld i ↔ ∃ j t, j ≠ i ∧ c.threads[j]? = some t ∧ h ∈ t.held := by
  simp only [Conf.othersHeld, List.mem_flatten, List.mem_map, List.mem_filter]
  constructor
  · rintro ⟨_, ⟨⟨t, j⟩, ⟨hm, hne⟩, rfl⟩, hh⟩
    exact ⟨j, t, by simpa using hne, List.mem_zipIdx_iff_getElem?.1 hm, hh⟩
  · rintro ⟨j, t, hne, hj, hh⟩
    exact ⟨_, ⟨(t, j), ⟨List.mem_zipIdx_iff_getElem?.2 hj, by simpa using hne⟩, rfl⟩, hh⟩

/-- one event of a thread, seen from the thread -/
inductive TStep {R : Type} (s : Store K E) (others : Held K) : Th K E R → Store K E → Th K E R → Prop where
  | acq {l : Lk K} {m : Mode} {p : Prog K E R} {held : Held K} :
      canAcquire l m held others = true → TStep s others ⟨.acq l m p, held⟩ s ⟨p, (l, m) :: held⟩
  | rel {l : Lk K} {p : Prog K E R} {held : Held K} :
      TStep s others ⟨.rel l p, held⟩ s ⟨p, held.filter fun h => !(h.1 = l)⟩
  | read {k : Store K E → Prog K E R} {held : Held K} : TStep s others ⟨.read k, held⟩ s ⟨k s, held⟩
  | write {u : Store K E → Store K E} {p : Prog K E R} {held : Held K} :
      TStep s others ⟨.write u p, held⟩ (u s) ⟨p, held⟩

theorem step_inv {R : Type} {c c' : Conf K E R} {i : Nat} (h : c.step i = some c') :
    ∃ t t', c.threads[i]? = some t ∧ TStep c.store (c.othersHeld i) t c'.store t' ∧
      c'.threads = c.threads.set i t' := by
  unfold Conf.step at h
  cases ht : c.threads[i]? with
  | none => simp [ht] at h
  | some t =>
    obtain ⟨prog, held⟩ := t
    simp only [ht] at h
    cases prog with
    | done r => simp at h
    | acq l m p =>
      simp only at h
      split at h
      · cases h
        exact ⟨_, _, rfl, .acq ‹_›, rfl⟩
      · cases h
    | rel l p => cases h; exact ⟨_, _, rfl, .rel, rfl⟩
    | read k => cases h; exact ⟨_, _, rfl, .read, rfl⟩
    | write u p => cases h; exact ⟨_, _, rfl, .write, rfl⟩

theorem step_isSome_rel {R : Type} {c : Conf K E R} {i : Nat} {t : Th K E R} {l : Lk K} {p : Prog K E R}
    (ht : c.threads[i]? = some t) (hp : t.prog = .rel l p) : (c.step i).isSome = true := by
  simp [Conf.step, ht, hp]
theorem step_isSome_read {R : Type} {c : Conf K E R} {i : Nat} {t : Th K E R} {k : Store K E → Prog K E R}
    (ht : c.threads[i]? = some t) (hp : t.prog = .read k) : (c.step i).isSome = true := by
  simp [Conf.step, ht, hp]
theorem step_isSome_write {R : Type} {c : Conf K E R} {i : Nat} {t : Th K E R} {u : Store K E → Store K E}
    {p : Prog K E R} (ht : c.threads[i]? = some t) (hp : t.prog = .write u p) : (c.step i).isSome = true := by
  simp [Conf.step, ht, hp]
theorem step_isSome_acq {R : Type} {c : Conf K E R} {i : Nat} {t : Th K E R} {l : Lk K} {m : Mode} {p : Prog K E R}
    (ht : c.threads[i]? = some t) (hp : t.prog = .acq l m p)
    (hc : canAcquire l m t.held (c.othersHeld i) = true) : (c.step i).isSome = true := by
  simp [Conf.step, ht, hp, hc]

theorem canAcquire_of_free (l : Lk K) (m : Mode) (mine others : Held K)
    (h1 : ∀ h ∈ mine, h.1 ≠ l) (h2 : ∀ h ∈ others, h.1 ≠ l) : canAcquire l m mine others = true := by
  simp only [canAcquire, Bool.and_eq_true, Bool.not_eq_true', List.any_eq_false, List.all_eq_true,
    Bool.or_eq_true, decide_eq_true_eq, decide_eq_false_iff_not]
  exact ⟨fun h hh => by simpa using h1 h hh, fun h hh => .inl (by simpa using h2 h hh)⟩

def mutexPart (m : Bool) : Held K := if m then [(.mutex, .w)] else []

def HeldIs (n : Option K) (hn : Held K) : Prop :=
  match n with
  | none => hn = []
  | some k => ∃ md, hn = [(.node k, md)]

/-- a thread runs a well-formed residual program and holds exactly the locks that `WF` says it holds -/
def ThWF {R : Type} (t : Th K E R) : Prop :=
  ∃ m n hn, WF m n t.prog ∧ HeldIs n hn ∧ t.held = hn ++ mutexPart m

theorem ThWF.step {R : Type} {s s' : Store K E} {o : Held K} {t t' : Th K E R}
    (h : ThWF t) (hs : TStep s o t s' t') : ThWF t' := by
  obtain ⟨m, n, hn, hwf, hhn, hheld⟩ := h
  cases hs with
  | @acq l md p held hc =>
    simp only at hwf hheld
    cases hwf with
    | acqM hp =>
      simp only [HeldIs] at hhn
      subst hhn
      exact ⟨true, none, [], hp, rfl, by simp [hheld, mutexPart]⟩
    | acqN hp =>
      simp only [HeldIs] at hhn
      subst hhn
      exact ⟨m, some _, [(_, md)], hp, ⟨_, rfl⟩, by simp [hheld]⟩
  | rel =>
    simp only at hwf hheld
    cases hwf with
    | relM hp =>
      simp only [HeldIs] at hhn
      subst hhn
      exact ⟨false, none, [], hp, rfl, by simp [hheld, mutexPart]⟩
    | relN hp =>
      obtain ⟨md, rfl⟩ := hhn
      refine ⟨m, none, [], hp, rfl, ?_⟩
      cases m <;> simp [hheld, mutexPart]
  | read =>
    simp only at hwf hheld
    cases hwf with
    | read hp => exact ⟨m, n, hn, hp _, hhn, hheld⟩
  | write =>
    simp only at hwf hheld
    cases hwf with
    | write hp => exact ⟨m, n, hn, hp, hhn, hheld⟩

/-- the invariant of (B) -/
def DInv {R : Type} (c : Conf K E R) : Prop := ∀ (i : Nat) (t : Th K E R), c.threads[i]? = some t → ThWF t

theorem DInv.step {R : Type} {c c' : Conf K E R} {i : Nat} (h : DInv c) (hs : c.step i = some c') : DInv c' := by
  obtain ⟨t, t', ht, hts, hth⟩ := step_inv hs
  intro j tj hj
  rw [hth, List.getElem?_set] at hj
  split at hj
  · split at hj
    · cases hj; exact (h i t ht).step hts
    · cases hj
  · exact h j tj hj

theorem DInv.runSched {R : Type} {c : Conf K E R} (h : DInv c) (sched : List Nat) : DInv (c.runSched sched) := by
  induction sched generalizing c with
  | nil => exact h
  | cons i rest ih =>
    simp only [Conf.runSched]
    cases hs : c.step i with
    | none => exact ih h
    | some c' => exact ih (h.step hs)

theorem DInv.init {R : Type} (s : Store K E) (progs : List (Prog K E R)) (hwf : ∀ p ∈ progs, WFProg p) :
    DInv ({ store := s, threads := progs.map fun p => { prog := p } } : Conf K E R) := by
  intro i t ht
  simp only [List.getElem?_map, Option.map_eq_some_iff] at ht
  obtain ⟨p, hp, rfl⟩ := ht
  exact ⟨false, none, [], hwf p (List.mem_of_getElem? hp), rfl, rfl⟩

theorem others_free {R : Type} (c : Conf K E R) (l : Lk K)
    (hno : ¬ ∃ (i : Nat) (t : Th K E R) (md : Mode), c.threads[i]? = some t ∧ (l, md) ∈ t.held) (i : Nat) :
    ∀ h ∈ c.othersHeld i, h.1 ≠ l := by
  intro h hh hl
  obtain ⟨j, t, _, hj, hm⟩ := (mem_othersHeld c i h).1 hh
  exact hno ⟨j, t, h.2, hj, by rw [← hl]; exact hm⟩

theorem progress {R : Type} (c : Conf K E R) (hinv : DInv c)
    (hex : ∃ t ∈ c.threads, t.finished = false) : ∃ i, (c.step i).isSome = true := by
  by_cases h1 : ∃ (i : Nat) (t : Th K E R) (k : K) (md : Mode), c.threads[i]? = some t ∧ (Lk.node k, md) ∈ t.held
  · -- a thread that holds a node lock is never blocked
    obtain ⟨i, t, k, md, ht, hmem⟩ := h1
    obtain ⟨m, n, hn, hwf, hhn, hheld⟩ := hinv i t ht
    refine ⟨i, ?_⟩
    cases n with
    | none =>
      simp only [HeldIs] at hhn
      subst hhn
      cases m <;> simp [hheld, mutexPart] at hmem
    | some k' =>
      generalize hp : t.prog = prog at hwf
      cases hwf with
      | relN _ => exact step_isSome_rel ht hp
      | read _ => exact step_isSome_read ht hp
      | write _ => exact step_isSome_write ht hp
  · have hnode : ∀ k, ¬ ∃ (i : Nat) (t : Th K E R) (md : Mode), c.threads[i]? = some t ∧ (Lk.node k, md) ∈ t.held :=
      fun k ⟨i, t, md, h⟩ => h1 ⟨i, t, k, md, h⟩
    have hn_none : ∀ (i : Nat) (t : Th K E R) m n hn, c.threads[i]? = some t → HeldIs n hn → t.held = hn ++ mutexPart m → n = none := by
      intro i t m n hn ht hhn hheld
      cases n with
      | none => rfl
      | some k =>
        obtain ⟨md, rfl⟩ := hhn
        exact absurd ⟨i, t, k, md, ht, by simp [hheld]⟩ h1
    by_cases h2 : ∃ (i : Nat) (t : Th K E R) (md : Mode), c.threads[i]? = some t ∧ (Lk.mutex, md) ∈ t.held
    · -- nobody holds a node lock: the holder of the mutex is not blocked
      obtain ⟨i, t, md, ht, hmem⟩ := h2
      obtain ⟨m, n, hn, hwf, hhn, hheld⟩ := hinv i t ht
      have := hn_none i t m n hn ht hhn hheld
      subst this
      simp only [HeldIs] at hhn
      subst hhn
      refine ⟨i, ?_⟩
      cases m with
      | false => simp [hheld, mutexPart] at hmem
      | true =>
        generalize hp : t.prog = prog at hwf
        cases hwf with
        | relM _ => exact step_isSome_rel ht hp
        | read _ => exact step_isSome_read ht hp
        | write _ => exact step_isSome_write ht hp
        | acqN _ =>
          refine step_isSome_acq ht hp (canAcquire_of_free _ _ _ _ ?_ (others_free c _ (hnode _) i))
          simp [hheld, mutexPart]
    · -- nobody holds anything: any unfinished thread can go on
      obtain ⟨t, htm, hfin⟩ := hex
      obtain ⟨i, ht⟩ := List.getElem?_of_mem htm
      obtain ⟨m, n, hn, hwf, hhn, hheld⟩ := hinv i t ht
      have := hn_none i t m n hn ht hhn hheld
      subst this
      simp only [HeldIs] at hhn
      subst hhn
      refine ⟨i, ?_⟩
      cases m with
      | true => exact absurd ⟨i, t, .w, ht, by simp [hheld, mutexPart]⟩ h2
      | false =>
        have hempty : t.held = [] := by simp [hheld, mutexPart]
        generalize hp : t.prog = prog at hwf
        cases hwf with
        | done => simp [Th.finished, hp] at hfin
        | read _ => exact step_isSome_read ht hp
        | write _ => exact step_isSome_write ht hp
        | acqM _ =>
          exact step_isSome_acq ht hp (canAcquire_of_free _ _ _ _ (by simp [hempty]) (others_free c _ h2 i))
        | acqN _ =>
          exact step_isSome_acq ht hp (canAcquire_of_free _ _ _ _ (by simp [hempty]) (others_free c _ (hnode _) i))

theorem deadlock_free_wf' {R : Type} (s : Store K E) (progs : List (Prog K E R)) (hwf : ∀ p ∈ progs, WFProg p)
    (sched : List Nat) :
    let c := ({ store := s, threads := progs.map fun p => { prog := p } } : Conf K E R).runSched sched
    (∃ t ∈ c.threads, t.finished = false) → ∃ i, (c.step i).isSome = true :=
  fun hex => progress _ ((DInv.init s progs hwf).runSched sched) hex

theorem deadlock_free_di' (s : Store K E) (calls : List (List (Op K E))) (sched : List Nat) :
    (∃ t ∈ (({ store := s, threads := calls.map fun ops => { prog := seqProg (ops.map (Sync.Di.prog true)) } } :
        Conf K E (List (Res E))).runSched sched).threads, t.finished = false) →
    ∃ i, ((({ store := s, threads := calls.map fun ops => { prog := seqProg (ops.map (Sync.Di.prog true)) } } :
        Conf K E (List (Res E))).runSched sched).step i).isSome = true := by
  have := deadlock_free_wf' s (calls.map fun ops => seqProg (ops.map (Sync.Di.prog true)))
    (by
      intro p hp
      obtain ⟨ops, _, rfl⟩ := List.mem_map.1 hp
      exact wfProg_seqProg _ fun q hq => by
        obtain ⟨op, _, rfl⟩ := List.mem_map.1 hq
        exact wfProg_di true op) sched
  simpa only [List.map_map, Function.comp_def] using this

theorem deadlock_free_un' (s : Store K E) (calls : List (List (Op K E))) (sched : List Nat) :
    (∃ t ∈ (({ store := s, threads := calls.map fun ops => { prog := seqProg (ops.map (Sync.Un.prog true)) } } :
        Conf K E (List (Res E))).runSched sched).threads, t.finished = false) →
    ∃ i, ((({ store := s, threads := calls.map fun ops => { prog := seqProg (ops.map (Sync.Un.prog true)) } } :
        Conf K E (List (Res E))).runSched sched).step i).isSome = true := by
  have := deadlock_free_wf' s (calls.map fun ops => seqProg (ops.map (Sync.Un.prog true)))
    (by
      intro p hp
      obtain ⟨ops, _, rfl⟩ := List.mem_map.1 hp
      exact wfProg_seqProg _ fun q hq => by
        obtain ⟨op, _, rfl⟩ := List.mem_map.1 hq
        exact wfProg_un true op) sched
  simpa only [List.map_map, Function.comp_def] using this

/-! ## (D) the negative control -/

theorem unlocked_not_serialisable' :
    ∃ sched : List Nat,
      let c := ({ store := ({} : Store Nat Nat),
                  threads := [{ prog := Sync.connect false 0 1 1 }, { prog := Sync.connect false 0 1 2 }] } :
                  Conf Nat Nat (Res Nat)).runSched sched
      (∀ t ∈ c.threads, t.finished = true) ∧ (c.store.get 0).out = [(1, 1), (1, 2)] ∧
        (c.store.get 1).inn = [(0, 2), (0, 1)] := by
  refine ⟨[0, 0, 0, 1, 1, 1, 1, 1, 1, 0, 0, 0], ?_⟩
  decide

/-! ## (C) serialisability under the mutation mutex

Generic in the sequential semantics `step` and the bodies `B` of the calls: a call `op` is the program
`withMutex true (B op)`, `B op` is a well-formed body that, run alone, computes `step`. -/

section Serial
variable (step : Store K E → Op K E → Store K E × Res E) (B : Op K E → Prog K E (Res E))

/-- the store after the committed calls -/
def foldS (s0 : Store K E) (log : List (Nat × Op K E)) : Store K E :=
  (log.map (·.2)).foldl (fun s op => (step s op).1) s0
/-- the results of thread `i` among the committed calls -/
def resOf (s0 : Store K E) (log : List (Nat × Op K E)) (i : Nat) : List (Res E) :=
  ((linResults step s0 log).filter fun x => x.1 = i).map (·.2)
/-- the committed calls of thread `i` -/
def callsOf (log : List (Nat × Op K E)) (i : Nat) : List (Op K E) :=
  (log.filter fun x => x.1 = i).map (·.2)

theorem foldS_snoc (s0 : Store K E) (log : List (Nat × Op K E)) (j : Nat) (op : Op K E) :
    foldS step s0 (log ++ [(j, op)]) = (step (foldS step s0 log) op).1 := by
  simp [foldS, List.foldl_append]

theorem linResults_snoc (s0 : Store K E) (log : List (Nat × Op K E)) (j : Nat) (op : Op K E) :
    linResults step s0 (log ++ [(j, op)]) = linResults step s0 log ++ [(j, (step (foldS step s0 log) op).2)] := by
  induction log generalizing s0 with
  | nil => simp [linResults, foldS]
  | cons x log ih =>
    obtain ⟨i, o⟩ := x
    simp only [List.cons_append, linResults, ih, foldS, List.map_cons, List.foldl_cons]

theorem resOf_snoc_self (s0 : Store K E) (log : List (Nat × Op K E)) (j : Nat) (op : Op K E) :
    resOf step s0 (log ++ [(j, op)]) j = resOf step s0 log j ++ [(step (foldS step s0 log) op).2] := by
  simp [resOf, linResults_snoc, List.filter_append]

theorem resOf_snoc_ne (s0 : Store K E) (log : List (Nat × Op K E)) (j i : Nat) (op : Op K E) (h : i ≠ j) :
    resOf step s0 (log ++ [(j, op)]) i = resOf step s0 log i := by
  simp [resOf, linResults_snoc, List.filter_append, Ne.symm h]

theorem callsOf_snoc_self (log : List (Nat × Op K E)) (j : Nat) (op : Op K E) :
    callsOf (log ++ [(j, op)]) j = callsOf log j ++ [op] := by
  simp [callsOf, List.filter_append]

theorem callsOf_snoc_ne (log : List (Nat × Op K E)) (j i : Nat) (op : Op K E) (h : i ≠ j) :
    callsOf (log ++ [(j, op)]) i = callsOf log i := by
  simp [callsOf, List.filter_append, Ne.symm h]

/-- a thread between two calls: results so far `pre`, remaining calls `rem` -/
def idle (pre : List (Res E)) (rem : List (Op K E)) : Prog K E (List (Res E)) :=
  (seqProg (rem.map fun op => withMutex true (B op))).bind fun rs => .done (pre ++ rs)

theorem idle_nil (pre : List (Res E)) : idle B pre [] = .done pre := by
  simp [idle, seqProg, Prog.bind]

theorem idle_cons (pre : List (Res E)) (op : Op K E) (rem : List (Op K E)) :
    idle B pre (op :: rem) =
      .acq .mutex .w ((B op).bind fun r => .rel .mutex (idle B (pre ++ [r]) rem)) := by
  simp only [idle, List.map_cons, seqProg, withMutex, if_true, Prog.bind, bind_assoc, List.append_assoc,
    List.singleton_append]

theorem seqProg_eq_idle (ops : List (Op K E)) :
    seqProg (ops.map fun op => withMutex true (B op)) = idle B [] ops := by
  simp only [idle, List.nil_append]
  exact (bind_done _).symm

variable (s0 : Store K E) (calls : List (List (Op K E)))

def ThIdle (log : List (Nat × Op K E)) (i : Nat) (t : Th K E (List (Res E))) : Prop :=
  ∃ rem, t.held = [] ∧ t.prog = idle B (resOf step s0 log i) rem ∧ callsOf log i ++ rem = calls.getD i []

def ThBusy (log : List (Nat × Op K E)) (i : Nat) (store : Store K E) (t : Th K E (List (Res E))) : Prop :=
  ∃ (op : Op K E) (rem : List (Op K E)) (q : Prog K E (Res E)) (n : Option K) (hn : Held K) (fuel : Nat)
    (tr tr' : List (Tok K)),
    t = ⟨q.bind (fun r => .rel .mutex (idle B (resOf step s0 log i ++ [r]) rem)), hn ++ [(.mutex, .w)]⟩ ∧
    HeldIs n hn ∧ WFB n q ∧ callsOf log i ++ op :: rem = calls.getD i [] ∧
    runSingle fuel q store hn tr' =
      some ((step (foldS step s0 log) op).1, (step (foldS step s0 log) op).2, tr)

theorem ThBusy.holds {log : List (Nat × Op K E)} {i : Nat} {store : Store K E} {t : Th K E (List (Res E))}
    (h : ThBusy step B s0 calls log i store t) : (Lk.mutex, Mode.w) ∈ t.held := by
  obtain ⟨op, rem, q, n, hn, fuel, tr, tr', rfl, _⟩ := h
  simp

theorem ThIdle.not_holds {log : List (Nat × Op K E)} {i : Nat} {t : Th K E (List (Res E))}
    (h : ThIdle step B s0 calls log i t) : (Lk.mutex, Mode.w) ∉ t.held := by
  obtain ⟨rem, hh, _⟩ := h
  simp [hh]

/-- the invariant of (C): `log` = the calls committed so far (in the order of their `rel mutex`) -/
structure SInv (c : Conf K E (List (Res E))) (log : List (Nat × Op K E)) : Prop where
  len : c.threads.length = calls.length
  bound : ∀ x ∈ log, x.1 < calls.length
  th : ∀ (i : Nat) (t : Th K E (List (Res E))), c.threads[i]? = some t →
    ThIdle step B s0 calls log i t ∨ ThBusy step B s0 calls log i c.store t
  excl : ∀ (i j : Nat) (ti tj : Th K E (List (Res E))), c.threads[i]? = some ti → c.threads[j]? = some tj →
    (Lk.mutex, Mode.w) ∈ ti.held → (Lk.mutex, Mode.w) ∈ tj.held → i = j
  quiet : (∀ (i : Nat) (t : Th K E (List (Res E))), c.threads[i]? = some t → (Lk.mutex, Mode.w) ∉ t.held) →
    c.store = foldS step s0 log

variable {step B s0 calls}

/-- while thread `j` holds the mutex every other thread is between two calls -/
theorem SInv.others_idle {c : Conf K E (List (Res E))} {log : List (Nat × Op K E)} (h : SInv step B s0 calls c log)
    {j : Nat} {t : Th K E (List (Res E))} (ht : c.threads[j]? = some t) (hm : (Lk.mutex, Mode.w) ∈ t.held)
    {i : Nat} {ti : Th K E (List (Res E))} (hti : c.threads[i]? = some ti) (hne : i ≠ j) :
    ThIdle step B s0 calls log i ti := by
  rcases h.th i ti hti with hi | hb
  · exact hi
  · exact absurd (h.excl i j ti t hti ht hb.holds hm) hne

theorem getElem?_set_cases {α : Type} {l : List α} {j i : Nat} {a x : α} (h : (l.set j a)[i]? = some x) :
    (i = j ∧ x = a ∧ j < l.length) ∨ (i ≠ j ∧ l[i]? = some x) := by
  rw [List.getElem?_set] at h
  split at h
  · split at h
    · cases h; exact .inl ⟨by omega, rfl, by assumption⟩
    · cases h
  · exact .inr ⟨by omega, h⟩

/-- a step of the mutex holder that keeps the mutex -/
theorem SInv.busy_step {c c' : Conf K E (List (Res E))} {log : List (Nat × Op K E)} (h : SInv step B s0 calls c log)
    {j : Nat} {t t' : Th K E (List (Res E))} (ht : c.threads[j]? = some t) (hm : (Lk.mutex, Mode.w) ∈ t.held)
    (hth : c'.threads = c.threads.set j t') (hb : ThBusy step B s0 calls log j c'.store t') :
    SInv step B s0 calls c' log := by
  have hj : j < c.threads.length := (List.getElem?_eq_some_iff.1 ht).1
  have hj' : c'.threads[j]? = some t' := by rw [hth]; simp [hj]
  refine ⟨by rw [hth, List.length_set]; exact h.len, h.bound, ?_, ?_, ?_⟩
  · intro i ti hti
    rw [hth] at hti
    rcases getElem?_set_cases hti with ⟨rfl, rfl, _⟩ | ⟨hne, hti⟩
    · exact .inr hb
    · exact .inl (h.others_idle ht hm hti hne)
  · intro i k ti tk hti htk hmi hmk
    rw [hth] at hti htk
    rcases getElem?_set_cases hti with ⟨rfl, rfl, _⟩ | ⟨hne, hti⟩
    · rcases getElem?_set_cases htk with ⟨rfl, rfl, _⟩ | ⟨hne', htk⟩
      · rfl
      · exact absurd hmk (h.others_idle ht hm htk hne').not_holds
    · exact absurd hmi (h.others_idle ht hm hti hne).not_holds
  · intro hq
    exact absurd hb.holds (hq j t' hj')

theorem canAcquire_w {l : Lk K} {mine others : Held K} (h : canAcquire l .w mine others = true) :
    ∀ x ∈ others, x.1 ≠ l := by
  simp only [canAcquire, Bool.and_eq_true, List.all_eq_true, Bool.or_eq_true, Bool.not_eq_true',
    decide_eq_false_iff_not, decide_eq_true_eq] at h
  intro x hx
  rcases h.2 x hx with h' | h'
  · exact h'
  · simp at h'

/-- one event of a thread inside a call is one step of the single-thread interpreter -/
theorem busy_local {R S : Type} {q : Prog K E R} {f : R → Prog K E S} {n : Option K} {hn : Held K} {fuel : Nat}
    {tr' : List (Tok K)} {X : Store K E × R × List (Tok K)} {s s' : Store K E} {o : Held K} {t' : Th K E S}
    (hw : WFB n q) (hh : HeldIs n hn) (hr : runSingle fuel q s hn tr' = some X)
    (hs : TStep s o ⟨q.bind f, hn ++ [(.mutex, .w)]⟩ s' t') :
    (∃ r, q = .done r) ∨
    ∃ (q' : Prog K E R) (n' : Option K) (hn' : Held K) (fuel' : Nat) (tr'' : List (Tok K)),
      t' = ⟨q'.bind f, hn' ++ [(.mutex, .w)]⟩ ∧ HeldIs n' hn' ∧ WFB n' q' ∧
      runSingle fuel' q' s' hn' tr'' = some X := by
  cases fuel with
  | zero => simp [runSingle] at hr
  | succ fuel =>
    cases hw with
    | done => exact .inl ⟨_, rfl⟩
    | @acqN k md p hp =>
      right
      simp only [HeldIs] at hh
      subst hh
      simp only [Prog.bind] at hs
      cases hs
      simp only [runSingle] at hr
      split at hr
      · exact ⟨p, some k, [(.node k, md)], fuel, _, rfl, ⟨md, rfl⟩, hp, hr⟩
      · cases hr
    | @relN k p hp =>
      right
      obtain ⟨md, rfl⟩ := hh
      simp only [Prog.bind] at hs
      cases hs
      simp only [runSingle] at hr
      refine ⟨p, none, [], fuel, tr', ?_, rfl, hp, ?_⟩
      · simp
      · simpa using hr
    | @read n c hc =>
      right
      simp only [Prog.bind] at hs
      cases hs
      simp only [runSingle] at hr
      exact ⟨c s, n, hn, fuel, _, rfl, hh, hc s, hr⟩
    | @write n u p hp =>
      right
      simp only [Prog.bind] at hs
      cases hs
      simp only [runSingle] at hr
      exact ⟨p, n, hn, fuel, _, rfl, hh, hp, hr⟩

end Serial

section Serial2
variable {step : Store K E → Op K E → Store K E × Res E} {B : Op K E → Prog K E (Res E)}
  {s0 : Store K E} {calls : List (List (Op K E))}

theorem SInv.preserved (hB : ∀ op, WFB none (B op))
    (href : ∀ op s, ∃ n tr, runSingle n (B op) s [] [] = some ((step s op).1, (step s op).2, tr))
    {c c' : Conf K E (List (Res E))} {log : List (Nat × Op K E)} (h : SInv step B s0 calls c log)
    {j : Nat} (hs : c.step j = some c') : ∃ log', SInv step B s0 calls c' log' := by
  obtain ⟨t, t', ht, hts, hth⟩ := step_inv hs
  have hj : j < c.threads.length := (List.getElem?_eq_some_iff.1 ht).1
  obtain ⟨st', ths'⟩ := c'
  simp only at hts hth
  subst hth
  rcases h.th j t ht with hi | hb
  · -- between two calls: the only event is `acq mutex`
    obtain ⟨rem, hheld, hprog, hcalls⟩ := hi
    obtain ⟨prog, held⟩ := t
    simp only at hheld hprog
    subst hheld
    cases rem with
    | nil => rw [idle_nil] at hprog; subst hprog; cases hts
    | cons op rem =>
      rw [idle_cons] at hprog
      subst hprog
      cases hts with
      | acq hc =>
        have hfree : ∀ (i : Nat) (ti : Th K E (List (Res E))), c.threads[i]? = some ti →
            (Lk.mutex, Mode.w) ∉ ti.held := by
          intro i ti hti hmem
          by_cases hij : i = j
          · subst hij; rw [ht] at hti; cases hti; simp at hmem
          · exact canAcquire_w hc _ ((mem_othersHeld c j _).2 ⟨i, ti, hij, hti, hmem⟩) rfl
        have hstore := h.quiet hfree
        obtain ⟨n, tr, hrun⟩ := href op c.store
        refine ⟨log, ⟨by simp [h.len], h.bound, ?_, ?_, ?_⟩⟩
        · intro i ti hti
          rcases getElem?_set_cases hti with ⟨rfl, rfl, _⟩ | ⟨hne, hti⟩
          · right
            exact ⟨op, rem, B op, none, [], n, tr, [], rfl, rfl, hB op, hcalls, by rw [← hstore]; exact hrun⟩
          · rcases h.th i ti hti with hi | hb
            · exact .inl hi
            · exact absurd hb.holds (hfree i ti hti)
        · intro i k ti tk hti htk hmi hmk
          rcases getElem?_set_cases hti with ⟨rfl, rfl, _⟩ | ⟨hne, hti⟩
          · rcases getElem?_set_cases htk with ⟨rfl, rfl, _⟩ | ⟨hne', htk⟩
            · rfl
            · exact absurd hmk (hfree _ _ htk)
          · exact absurd hmi (hfree _ _ hti)
        · intro hq
          exact (hq j _ (List.getElem?_set_self hj) (by simp)).elim
  · -- inside a call
    obtain ⟨op, rem, q, n, hn, fuel, tr, tr', rfl, hhn, hwq, hcalls, hrun⟩ := hb
    rcases busy_local hwq hhn hrun hts with ⟨r, rfl⟩ | ⟨q', n', hn', fuel', tr'', rfl, hhn', hwq', hrun'⟩
    · -- `rel mutex`: the call is committed
      cases hwq
      simp only [HeldIs] at hhn
      subst hhn
      simp only [Prog.bind] at hts
      cases hts
      cases fuel with
      | zero => simp [runSingle] at hrun
      | succ fuel =>
        simp only [runSingle, Option.some.injEq, Prod.mk.injEq] at hrun
        obtain ⟨hst, hr, _⟩ := hrun
        refine ⟨log ++ [(j, op)], ⟨by simp [h.len], ?_, ?_, ?_, ?_⟩⟩
        · intro x hx
          rcases List.mem_append.1 hx with hx | hx
          · exact h.bound x hx
          · simp only [List.mem_singleton] at hx
            subst hx
            rw [← h.len]; exact hj
        · intro i ti hti
          rcases getElem?_set_cases hti with ⟨rfl, rfl, _⟩ | ⟨hne, hti⟩
          · left
            refine ⟨rem, by simp, ?_, ?_⟩
            · simp only
              rw [resOf_snoc_self, ← hr]
            · rw [callsOf_snoc_self, List.append_assoc]; exact hcalls
          · obtain ⟨rem', h1, h2, h3⟩ := h.others_idle ht (by simp) hti hne
            exact .inl ⟨rem', h1, by rw [resOf_snoc_ne (h := hne)]; exact h2,
              by rw [callsOf_snoc_ne (h := hne)]; exact h3⟩
        · intro i k ti tk hti htk hmi hmk
          rcases getElem?_set_cases hti with ⟨rfl, rfl, _⟩ | ⟨hne, hti⟩
          · simp at hmi
          · exact absurd hmi (h.others_idle ht (by simp) hti hne).not_holds
        · intro _
          rw [foldS_snoc]; exact hst
    · exact ⟨log, h.busy_step ht (by simp) rfl
        ⟨op, rem, q', n', hn', fuel', tr, tr'', rfl, hhn', hwq', hcalls, hrun'⟩⟩

theorem SInv.runSched (hB : ∀ op, WFB none (B op))
    (href : ∀ op s, ∃ n tr, runSingle n (B op) s [] [] = some ((step s op).1, (step s op).2, tr))
    {c : Conf K E (List (Res E))} {log : List (Nat × Op K E)} (h : SInv step B s0 calls c log)
    (sched : List Nat) : ∃ log', SInv step B s0 calls (c.runSched sched) log' := by
  induction sched generalizing c log with
  | nil => exact ⟨log, h⟩
  | cons i rest ih =>
    simp only [Conf.runSched]
    cases hs : c.step i with
    | none => exact ih h
    | some c' =>
      obtain ⟨log', h'⟩ := h.preserved hB href hs
      exact ih h'

theorem SInv.init (step : Store K E → Op K E → Store K E × Res E) (B : Op K E → Prog K E (Res E))
    (s0 : Store K E) (calls : List (List (Op K E))) :
    SInv step B s0 calls
      { store := s0, threads := calls.map fun ops => { prog := seqProg (ops.map fun op => withMutex true (B op)) } }
      [] := by
  refine ⟨by simp, by simp, ?_, ?_, fun _ => rfl⟩
  · intro i t ht
    simp only [List.getElem?_map, Option.map_eq_some_iff] at ht
    obtain ⟨ops, hops, rfl⟩ := ht
    left
    refine ⟨ops, rfl, ?_, ?_⟩
    · simp only [resOf, linResults, List.filter_nil, List.map_nil]
      exact seqProg_eq_idle B ops
    · simp [callsOf, List.getD_eq_getElem?_getD, hops]
  · intro i j ti tj hti _ hmi _
    simp only [List.getElem?_map, Option.map_eq_some_iff] at hti
    obtain ⟨ops, _, rfl⟩ := hti
    simp at hmi

theorem not_finished_bind_rel {R S : Type} (q : Prog K E R) (l : Lk K) (g : R → Prog K E S) (held : Held K) :
    Th.finished ⟨q.bind fun r => .rel l (g r), held⟩ = false := by
  cases q <;> simp [Prog.bind, Th.finished]

/-- serialisability, generic in the flavour -/
theorem serialisable_gen (hB : ∀ op, WFB none (B op))
    (href : ∀ op s, ∃ n tr, runSingle n (B op) s [] [] = some ((step s op).1, (step s op).2, tr))
    (s0 : Store K E) (calls : List (List (Op K E))) (sched : List Nat)
    (c : Conf K E (List (Res E)))
    (hc : c = ({ store := s0, threads := calls.map fun ops =>
      { prog := seqProg (ops.map fun op => withMutex true (B op)) } } : Conf K E (List (Res E))).runSched sched)
    (hdone : ∀ t ∈ c.threads, t.finished = true) :
    ∃ lin : List (Nat × Op K E),
      (∀ i, callsOf lin i = calls.getD i []) ∧ c.store = foldS step s0 lin ∧
      ∀ i, i < calls.length → (c.threads[i]?).bind Th.result = some (resOf step s0 lin i) := by
  obtain ⟨log, h⟩ := (SInv.init step B s0 calls).runSched hB href sched
  rw [← hc] at h
  have hidle : ∀ (i : Nat) (t : Th K E (List (Res E))), c.threads[i]? = some t →
      t.held = [] ∧ t.prog = .done (resOf step s0 log i) ∧ callsOf log i = calls.getD i [] := by
    intro i t ht
    have hfin := hdone t (List.mem_of_getElem? ht)
    rcases h.th i t ht with ⟨rem, h1, h2, h3⟩ | ⟨op, rem, q, n, hn, fuel, tr, tr', rfl, _⟩
    · cases rem with
      | nil => exact ⟨h1, by rw [h2, idle_nil], by simpa using h3⟩
      | cons op rem =>
        rw [idle_cons] at h2
        simp [Th.finished, h2] at hfin
    · rw [not_finished_bind_rel] at hfin
      cases hfin
  refine ⟨log, ?_, ?_, ?_⟩
  · intro i
    by_cases hi : i < calls.length
    · obtain ⟨t, ht⟩ : ∃ t, c.threads[i]? = some t := by
        rw [← h.len] at hi
        exact ⟨_, List.getElem?_eq_getElem hi⟩
      exact (hidle i t ht).2.2
    · have : callsOf log i = [] := by
        simp only [callsOf, List.map_eq_nil_iff, List.filter_eq_nil_iff, decide_eq_true_eq]
        intro x hx hxi
        exact hi (hxi ▸ h.bound x hx)
      rw [this, List.getD_eq_getElem?_getD, List.getElem?_eq_none (by omega)]
      rfl
  · exact h.quiet fun i t ht => by simp [(hidle i t ht).1]
  · intro i hi
    rw [← h.len] at hi
    rw [List.getElem?_eq_getElem hi]
    have := (hidle i _ (List.getElem?_eq_getElem hi)).2.1
    simp [Th.result, this]

end Serial2

theorem serialisable_di' (s : Store K E) (calls : List (List (Op K E))) (sched : List Nat)
    (hdone : ∀ t ∈ (({ store := s, threads := calls.map fun ops =>
        { prog := seqProg (ops.map (Sync.Di.prog true)) } } : Conf K E (List (Res E))).runSched sched).threads,
      t.finished = true) :
    ∃ lin : List (Nat × Op K E),
      (∀ i, (lin.filter fun x => x.1 = i).map (·.2) = calls.getD i []) ∧
      (({ store := s, threads := calls.map fun ops =>
        { prog := seqProg (ops.map (Sync.Di.prog true)) } } : Conf K E (List (Res E))).runSched sched).store =
          (lin.map (·.2)).foldl (fun s op => (Di.step s op).1) s ∧
      ∀ i, i < calls.length →
        ((({ store := s, threads := calls.map fun ops =>
          { prog := seqProg (ops.map (Sync.Di.prog true)) } } : Conf K E (List (Res E))).runSched sched).threads[i]?).bind
            Th.result =
          some (((linResults Di.step s lin).filter fun x => x.1 = i).map (·.2)) := by
  have hfun : (Sync.Di.prog true : Op K E → _) = fun op => withMutex true (Sync.Di.prog false op) :=
    funext di_prog_true
  rw [hfun] at hdone ⊢
  exact serialisable_gen (step := Di.step) (B := Sync.Di.prog false) wfb_di
    (fun op s => by
      obtain ⟨n, tr, h⟩ := Sync.Di.body_refines op s
      exact ⟨n, tr, h n (Nat.le_refl n)⟩) s calls sched _ rfl hdone

theorem serialisable_un' (s : Store K E) (calls : List (List (Op K E))) (sched : List Nat)
    (hdone : ∀ t ∈ (({ store := s, threads := calls.map fun ops =>
        { prog := seqProg (ops.map (Sync.Un.prog true)) } } : Conf K E (List (Res E))).runSched sched).threads,
      t.finished = true) :
    ∃ lin : List (Nat × Op K E),
      (∀ i, (lin.filter fun x => x.1 = i).map (·.2) = calls.getD i []) ∧
      (({ store := s, threads := calls.map fun ops =>
        { prog := seqProg (ops.map (Sync.Un.prog true)) } } : Conf K E (List (Res E))).runSched sched).store =
          (lin.map (·.2)).foldl (fun s op => (Un.step s op).1) s ∧
      ∀ i, i < calls.length →
        ((({ store := s, threads := calls.map fun ops =>
          { prog := seqProg (ops.map (Sync.Un.prog true)) } } : Conf K E (List (Res E))).runSched sched).threads[i]?).bind
            Th.result =
          some (((linResults Un.step s lin).filter fun x => x.1 = i).map (·.2)) := by
  have hfun : (Sync.Un.prog true : Op K E → _) = fun op => withMutex true (Sync.Un.prog false op) :=
    funext un_prog_true
  rw [hfun] at hdone ⊢
  exact serialisable_gen (step := Un.step) (B := Sync.Un.prog false) wfb_un
    (fun op s => by
      obtain ⟨n, tr, h⟩ := Sync.Un.body_refines op s
      exact ⟨n, tr, h n (Nat.le_refl n)⟩) s calls sched _ rfl hdone

theorem quiescent_mirror_di' (s : Store K E) (hm : Mirror s) (calls : List (List (Op K E))) (sched : List Nat)
    (hdone : ∀ t ∈ (({ store := s, threads := calls.map fun ops =>
        { prog := seqProg (ops.map (Sync.Di.prog true)) } } : Conf K E (List (Res E))).runSched sched).threads,
      t.finished = true) :
    Mirror (({ store := s, threads := calls.map fun ops =>
        { prog := seqProg (ops.map (Sync.Di.prog true)) } } : Conf K E (List (Res E))).runSched sched).store := by
  obtain ⟨lin, _, hst, _⟩ := serialisable_di' s calls sched hdone
  rw [hst]
  exact Di.foldl_mirror _ s hm

theorem quiescent_mirror_un' (s : Store K E) (hm : Mirror s) (calls : List (List (Op K E))) (sched : List Nat)
    (hdone : ∀ t ∈ (({ store := s, threads := calls.map fun ops =>
        { prog := seqProg (ops.map (Sync.Un.prog true)) } } : Conf K E (List (Res E))).runSched sched).threads,
      t.finished = true) :
    Mirror (({ store := s, threads := calls.map fun ops =>
        { prog := seqProg (ops.map (Sync.Un.prog true)) } } : Conf K E (List (Res E))).runSched sched).store := by
  obtain ⟨lin, _, hst, _⟩ := serialisable_un' s calls sched hdone
  rw [hst]
  exact Un.foldl_mirror _ s hm

end Conc
end G

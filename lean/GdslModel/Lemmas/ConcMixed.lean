import GdslModel.Lemmas.Conc
import GdslModel.Lemmas.Reads
/-!
# Readers and traversals running concurrently with mutators (C17, core Lean only)

(1) the traversal lock programs are write-free and well formed;
(2) deadlock freedom of mutators mixed with well-formed readers;
(3) serialisability of mutators mixed with write-free readers, by a simulation: the projection of a
    mixed run onto its first `n` (mutator) threads is a run of the mutator-only configuration under
    some schedule (the reader events and the blocked events erased), with the same store.
-/
set_option linter.unusedSectionVars false
namespace G
variable {K E : Type} [DecidableEq K]

namespace Conc

/-! ## (1) traversals -/

theorem bfs_write_free_wf (sel : Adj K E → List (K × E)) (tgt : Option K) (fuel : Nat) :
    ∀ (cur : Option (K × Nat)) (q vis : List K),
      NoWrite (Sync.bfsProg sel tgt fuel cur q vis) ∧ WFProg (Sync.bfsProg sel tgt fuel cur q vis) := by
  induction fuel with
  | zero =>
    intro cur q vis
    simp only [Sync.bfsProg]
    exact ⟨.done, .done⟩
  | succ fuel ih =>
    intro cur q vis
    cases cur with
    | none =>
      cases q with
      | nil => simp only [Sync.bfsProg]; exact ⟨.done, .done⟩
      | cons u q => simp only [Sync.bfsProg]; exact ih _ _ _
    | some p =>
      obtain ⟨u, pos⟩ := p
      simp only [Sync.bfsProg]
      refine ⟨NoWrite.bind (noWrite_iterNext u sel pos) fun x => ?_,
        WF.bind (wfProg_iterNext u sel pos) fun x => ?_⟩
      · cases x with
        | none => exact (ih _ _ _).1
        | some y =>
          obtain ⟨v, e⟩ := y
          simp only
          split
          · exact (ih _ _ _).1
          · split
            · exact .done
            · exact (ih _ _ _).1
      · cases x with
        | none => exact (ih _ _ _).2
        | some y =>
          obtain ⟨v, e⟩ := y
          simp only
          split
          · exact (ih _ _ _).2
          · split
            · exact .done
            · exact (ih _ _ _).2

theorem dfs_write_free_wf (sel : Adj K E → List (K × E)) (tgt : Option K) (fuel : Nat) :
    ∀ (stack : List (K × Nat)) (vis : List K),
      NoWrite (Sync.dfsProg sel tgt fuel stack vis) ∧ WFProg (Sync.dfsProg sel tgt fuel stack vis) := by
  induction fuel with
  | zero =>
    intro stack vis
    simp only [Sync.dfsProg]
    exact ⟨.done, .done⟩
  | succ fuel ih =>
    intro stack vis
    cases stack with
    | nil => simp only [Sync.dfsProg]; exact ⟨.done, .done⟩
    | cons p stack =>
      obtain ⟨u, pos⟩ := p
      simp only [Sync.dfsProg]
      refine ⟨NoWrite.bind (noWrite_iterNext u sel pos) fun x => ?_,
        WF.bind (wfProg_iterNext u sel pos) fun x => ?_⟩
      · cases x with
        | none => exact (ih _ _).1
        | some y =>
          obtain ⟨v, e⟩ := y
          simp only
          split
          · exact (ih _ _).1
          · split
            · exact .done
            · exact (ih _ _).1
      · cases x with
        | none => exact (ih _ _).2
        | some y =>
          obtain ⟨v, e⟩ := y
          simp only
          split
          · exact (ih _ _).2
          · split
            · exact .done
            · exact (ih _ _).2

theorem pre_write_free_wf (sel : Adj K E → List (K × E)) (fuel : Nat) :
    ∀ (stack : List (K × Nat)) (vis acc : List K),
      NoWrite (Sync.preProg sel fuel stack vis acc) ∧ WFProg (Sync.preProg sel fuel stack vis acc) := by
  induction fuel with
  | zero =>
    intro stack vis acc
    simp only [Sync.preProg]
    exact ⟨.done, .done⟩
  | succ fuel ih =>
    intro stack vis acc
    cases stack with
    | nil => simp only [Sync.preProg]; exact ⟨.done, .done⟩
    | cons p stack =>
      obtain ⟨u, pos⟩ := p
      simp only [Sync.preProg]
      refine ⟨NoWrite.bind (noWrite_iterNext u sel pos) fun x => ?_,
        WF.bind (wfProg_iterNext u sel pos) fun x => ?_⟩
      · cases x with
        | none => exact (ih _ _ _).1
        | some y =>
          obtain ⟨v, e⟩ := y
          simp only
          split
          · exact (ih _ _ _).1
          · exact (ih _ _ _).1
      · cases x with
        | none => exact (ih _ _ _).2
        | some y =>
          obtain ⟨v, e⟩ := y
          simp only
          split
          · exact (ih _ _ _).2
          · exact (ih _ _ _).2

theorem traversals_write_free_wf' (sel : Adj K E → List (K × E)) (tgt : Option K) (fuel : Nat)
    (cur : Option (K × Nat)) (q vis acc : List K) (stack : List (K × Nat)) :
    (NoWrite (Sync.bfsProg sel tgt fuel cur q vis) ∧ WFProg (Sync.bfsProg sel tgt fuel cur q vis)) ∧
    (NoWrite (Sync.dfsProg sel tgt fuel stack vis) ∧ WFProg (Sync.dfsProg sel tgt fuel stack vis)) ∧
    (NoWrite (Sync.preProg sel fuel stack vis acc) ∧ WFProg (Sync.preProg sel fuel stack vis acc)) :=
  ⟨bfs_write_free_wf sel tgt fuel cur q vis, dfs_write_free_wf sel tgt fuel stack vis,
   pre_write_free_wf sel fuel stack vis acc⟩

/-! ## (2) deadlock freedom with readers in the mix -/

theorem wfProg_di_seq (ops : List (Op K E)) : WFProg (seqProg (ops.map (Sync.Di.prog (K := K) (E := E) true))) :=
  wfProg_seqProg _ fun q hq => by
    obtain ⟨op, _, rfl⟩ := List.mem_map.1 hq
    exact wfProg_di true op

theorem wfProg_un_seq (ops : List (Op K E)) : WFProg (seqProg (ops.map (Sync.Un.prog (K := K) (E := E) true))) :=
  wfProg_seqProg _ fun q hq => by
    obtain ⟨op, _, rfl⟩ := List.mem_map.1 hq
    exact wfProg_un true op

theorem deadlock_free_mixed_di' (s : Store K E) (calls : List (List (Op K E)))
    (readers : List (Prog K E (List (Res E)))) (hr : ∀ p ∈ readers, WFProg p) (sched : List Nat) :
    (∃ t ∈ (({ store := s, threads := (calls.map fun ops => { prog := seqProg (ops.map (Sync.Di.prog true)) }) ++
        (readers.map fun p => { prog := p }) } : Conf K E (List (Res E))).runSched sched).threads,
      t.finished = false) →
    ∃ i, ((({ store := s, threads := (calls.map fun ops => { prog := seqProg (ops.map (Sync.Di.prog true)) }) ++
        (readers.map fun p => { prog := p }) } : Conf K E (List (Res E))).runSched sched).step i).isSome = true := by
  have := deadlock_free_wf' s ((calls.map fun ops => seqProg (ops.map (Sync.Di.prog true))) ++ readers)
    (by
      intro p hp
      rcases List.mem_append.1 hp with hp | hp
      · obtain ⟨ops, _, rfl⟩ := List.mem_map.1 hp
        exact wfProg_di_seq ops
      · exact hr p hp) sched
  simpa only [List.map_append, List.map_map, Function.comp_def] using this

theorem deadlock_free_mixed_un' (s : Store K E) (calls : List (List (Op K E)))
    (readers : List (Prog K E (List (Res E)))) (hr : ∀ p ∈ readers, WFProg p) (sched : List Nat) :
    (∃ t ∈ (({ store := s, threads := (calls.map fun ops => { prog := seqProg (ops.map (Sync.Un.prog true)) }) ++
        (readers.map fun p => { prog := p }) } : Conf K E (List (Res E))).runSched sched).threads,
      t.finished = false) →
    ∃ i, ((({ store := s, threads := (calls.map fun ops => { prog := seqProg (ops.map (Sync.Un.prog true)) }) ++
        (readers.map fun p => { prog := p }) } : Conf K E (List (Res E))).runSched sched).step i).isSome = true := by
  have := deadlock_free_wf' s ((calls.map fun ops => seqProg (ops.map (Sync.Un.prog true))) ++ readers)
    (by
      intro p hp
      rcases List.mem_append.1 hp with hp | hp
      · obtain ⟨ops, _, rfl⟩ := List.mem_map.1 hp
        exact wfProg_un_seq ops
      · exact hr p hp) sched
  simpa only [List.map_append, List.map_map, Function.comp_def] using this

/-! ## (3) the projection of a mixed run onto the mutator threads -/

/-- the first `n` threads of a configuration, same store -/
def proj {R : Type} (n : Nat) (c : Conf K E R) : Conf K E R := { store := c.store, threads := c.threads.take n }

/-- fewer locks held by the others: the event stays enabled -/
theorem canAcquire_mono {l : Lk K} {m : Mode} {mine o o' : Held K} (hsub : ∀ x ∈ o', x ∈ o)
    (h : canAcquire l m mine o = true) : canAcquire l m mine o' = true := by
  simp only [canAcquire, Bool.and_eq_true, List.all_eq_true] at h ⊢
  exact ⟨h.1, fun x hx => h.2 x (hsub x hx)⟩

theorem TStep.mono {R : Type} {s s' : Store K E} {o o' : Held K} {t t' : Th K E R} (hsub : ∀ x ∈ o', x ∈ o)
    (h : TStep s o t s' t') : TStep s o' t s' t' := by
  cases h with
  | acq hc => exact .acq (canAcquire_mono hsub hc)
  | rel => exact .rel
  | read => exact .read
  | write => exact .write

/-- the converse of `step_inv` -/
theorem step_of_tstep {R : Type} {c : Conf K E R} {i : Nat} {t t' : Th K E R} {s' : Store K E}
    (ht : c.threads[i]? = some t) (h : TStep c.store (c.othersHeld i) t s' t') :
    c.step i = some { store := s', threads := c.threads.set i t' } := by
  cases h with
  | acq hc => simp [Conf.step, ht, hc]
  | rel => simp [Conf.step, ht]
  | read => simp [Conf.step, ht]
  | write => simp [Conf.step, ht]

theorem proj_getElem? {R : Type} (n : Nat) (c : Conf K E R) {i : Nat} (hi : i < n) :
    (proj n c).threads[i]? = c.threads[i]? := by
  simp [proj, hi]

theorem proj_othersHeld_sub {R : Type} (n : Nat) (c : Conf K E R) (i : Nat) :
    ∀ x ∈ (proj n c).othersHeld i, x ∈ c.othersHeld i := by
  intro x hx
  obtain ⟨j, t, hne, hj, hm⟩ := (mem_othersHeld _ i x).1 hx
  refine (mem_othersHeld c i x).2 ⟨j, t, hne, ?_, hm⟩
  simp only [proj, List.getElem?_take] at hj
  split at hj
  · exact hj
  · cases hj

/-- an event of one of the first `n` threads is also an event of the projection -/
theorem proj_step_lt {R : Type} (n : Nat) {c c' : Conf K E R} {i : Nat} (hi : i < n) (hs : c.step i = some c') :
    (proj n c).step i = some (proj n c') := by
  obtain ⟨t, t', ht, hts, hth⟩ := step_inv hs
  have ht' : (proj n c).threads[i]? = some t := by rw [proj_getElem? n c hi]; exact ht
  have hts' : TStep (proj n c).store ((proj n c).othersHeld i) t c'.store t' :=
    TStep.mono (proj_othersHeld_sub n c i) hts
  rw [step_of_tstep ht' hts']
  simp only [proj, hth, List.take_set]

/-- an event of a write-free thread beyond the first `n` is invisible in the projection -/
theorem proj_step_ge {R : Type} (n : Nat) {c c' : Conf K E R} {i : Nat} (hi : n ≤ i)
    (hr : ∀ (j : Nat) (t : Th K E R), n ≤ j → c.threads[j]? = some t → NoWrite t.prog)
    (hs : c.step i = some c') :
    proj n c' = proj n c ∧ ∀ (j : Nat) (t : Th K E R), n ≤ j → c'.threads[j]? = some t → NoWrite t.prog := by
  obtain ⟨t, _, ht, _, _⟩ := step_inv hs
  obtain ⟨hst, t', hth, hnw⟩ := reads_inert' c c' i t ht (hr i t hi ht) hs
  refine ⟨?_, ?_⟩
  · simp only [proj, hst, hth, List.take_set_of_le hi]
  · intro j tj hj htj
    rw [hth] at htj
    rcases getElem?_set_cases htj with ⟨_, rfl, _⟩ | ⟨_, htj⟩
    · exact hnw
    · exact hr j tj hj htj

theorem step_threads_ge {R : Type} (n : Nat) {c c' : Conf K E R} {i : Nat} (hi : i < n)
    (hr : ∀ (j : Nat) (t : Th K E R), n ≤ j → c.threads[j]? = some t → NoWrite t.prog)
    (hs : c.step i = some c') :
    ∀ (j : Nat) (t : Th K E R), n ≤ j → c'.threads[j]? = some t → NoWrite t.prog := by
  obtain ⟨t, t', ht, _, hth⟩ := step_inv hs
  intro j tj hj htj
  rw [hth] at htj
  rcases getElem?_set_cases htj with ⟨rfl, _, _⟩ | ⟨_, htj⟩
  · omega
  · exact hr j tj hj htj

/-- the simulation: the projection of a run is a run of the projection -/
theorem proj_runSched {R : Type} (n : Nat) (c : Conf K E R)
    (hr : ∀ (j : Nat) (t : Th K E R), n ≤ j → c.threads[j]? = some t → NoWrite t.prog) (sched : List Nat) :
    ∃ sched', (proj n c).runSched sched' = proj n (c.runSched sched) := by
  induction sched generalizing c with
  | nil => exact ⟨[], rfl⟩
  | cons i rest ih =>
    simp only [Conf.runSched]
    cases hs : c.step i with
    | none => exact ih c hr
    | some c' =>
      simp only [Option.getD_some]
      by_cases hi : i < n
      · obtain ⟨sched', h⟩ := ih c' (step_threads_ge n hi hr hs)
        refine ⟨i :: sched', ?_⟩
        simp only [Conf.runSched, proj_step_lt n hi hs, Option.getD_some]
        exact h
      · obtain ⟨hp, hr'⟩ := proj_step_ge n (Nat.le_of_not_lt hi) hr hs
        obtain ⟨sched', h⟩ := ih c' hr'
        exact ⟨sched', by rw [← hp]; exact h⟩

/-- the initial mixed configuration: its projection is the mutator-only configuration, and the threads beyond
    the mutators are the readers -/
theorem mixed_init {R : Type} (s : Store K E) (ms readers : List (Prog K E R)) (hr : ∀ p ∈ readers, NoWrite p) :
    proj ms.length ({ store := s, threads := (ms.map fun p => { prog := p }) ++ (readers.map fun p => { prog := p }) } :
        Conf K E R) = { store := s, threads := ms.map fun p => { prog := p } } ∧
    ∀ (j : Nat) (t : Th K E R), ms.length ≤ j →
      ({ store := s, threads := (ms.map fun p => { prog := p }) ++ (readers.map fun p => { prog := p }) } :
        Conf K E R).threads[j]? = some t → NoWrite t.prog := by
  refine ⟨?_, ?_⟩
  · simp only [proj]
    rw [List.take_left' (by simp)]
  · intro j t hj ht
    simp only at ht
    rw [List.getElem?_append_right (by simpa using hj)] at ht
    simp only [List.getElem?_map, Option.map_eq_some_iff] at ht
    obtain ⟨p, hp, rfl⟩ := ht
    exact hr p (List.mem_of_getElem? hp)

/-- generic form: whatever holds of every complete run of the mutator-only configuration (as a property of the
    store and of the mutator threads) holds of every complete mixed run -/
theorem mixed_sim {R : Type} (s : Store K E) (ms readers : List (Prog K E R)) (hr : ∀ p ∈ readers, NoWrite p)
    (sched : List Nat) :
    ∃ sched',
      (({ store := s, threads := ms.map fun p => { prog := p } } : Conf K E R).runSched sched').store =
        (({ store := s, threads := (ms.map fun p => { prog := p }) ++ (readers.map fun p => { prog := p }) } :
          Conf K E R).runSched sched).store ∧
      (({ store := s, threads := ms.map fun p => { prog := p } } : Conf K E R).runSched sched').threads =
        (({ store := s, threads := (ms.map fun p => { prog := p }) ++ (readers.map fun p => { prog := p }) } :
          Conf K E R).runSched sched).threads.take ms.length := by
  obtain ⟨h1, h2⟩ := mixed_init s ms readers hr
  obtain ⟨sched', h⟩ := proj_runSched ms.length _ h2 sched
  rw [h1] at h
  exact ⟨sched', by rw [h]; rfl, by rw [h]; rfl⟩

theorem serialisable_mixed_di' (s : Store K E) (calls : List (List (Op K E)))
    (readers : List (Prog K E (List (Res E)))) (hr : ∀ p ∈ readers, NoWrite p ∧ WFProg p) (sched : List Nat)
    (hdone : ∀ t ∈ (({ store := s, threads := (calls.map fun ops => { prog := seqProg (ops.map (Sync.Di.prog true)) }) ++
        (readers.map fun p => { prog := p }) } : Conf K E (List (Res E))).runSched sched).threads,
      t.finished = true) :
    ∃ lin : List (Nat × Op K E),
      (∀ i, (lin.filter fun x => x.1 = i).map (·.2) = calls.getD i []) ∧
      (({ store := s, threads := (calls.map fun ops => { prog := seqProg (ops.map (Sync.Di.prog true)) }) ++
        (readers.map fun p => { prog := p }) } : Conf K E (List (Res E))).runSched sched).store =
          (lin.map (·.2)).foldl (fun s op => (Di.step s op).1) s ∧
      ∀ i, i < calls.length →
        ((({ store := s, threads := (calls.map fun ops => { prog := seqProg (ops.map (Sync.Di.prog true)) }) ++
          (readers.map fun p => { prog := p }) } : Conf K E (List (Res E))).runSched sched).threads[i]?).bind
            Th.result =
          some (((linResults Di.step s lin).filter fun x => x.1 = i).map (·.2)) := by
  obtain ⟨sched', hst, hth⟩ := mixed_sim s (calls.map fun ops => seqProg (ops.map (Sync.Di.prog true))) readers
    (fun p hp => (hr p hp).1) sched
  simp only [List.map_map, Function.comp_def, List.length_map] at hst hth
  obtain ⟨lin, h1, h2, h3⟩ := serialisable_di' s calls sched' (by
    intro t ht
    rw [hth] at ht
    exact hdone t (List.mem_of_mem_take ht))
  refine ⟨lin, h1, by rw [← hst]; exact h2, ?_⟩
  intro i hi
  have := h3 i hi
  rw [hth, List.getElem?_take, if_pos hi] at this
  exact this

theorem serialisable_mixed_un' (s : Store K E) (calls : List (List (Op K E)))
    (readers : List (Prog K E (List (Res E)))) (hr : ∀ p ∈ readers, NoWrite p ∧ WFProg p) (sched : List Nat)
    (hdone : ∀ t ∈ (({ store := s, threads := (calls.map fun ops => { prog := seqProg (ops.map (Sync.Un.prog true)) }) ++
        (readers.map fun p => { prog := p }) } : Conf K E (List (Res E))).runSched sched).threads,
      t.finished = true) :
    ∃ lin : List (Nat × Op K E),
      (∀ i, (lin.filter fun x => x.1 = i).map (·.2) = calls.getD i []) ∧
      (({ store := s, threads := (calls.map fun ops => { prog := seqProg (ops.map (Sync.Un.prog true)) }) ++
        (readers.map fun p => { prog := p }) } : Conf K E (List (Res E))).runSched sched).store =
          (lin.map (·.2)).foldl (fun s op => (Un.step s op).1) s ∧
      ∀ i, i < calls.length →
        ((({ store := s, threads := (calls.map fun ops => { prog := seqProg (ops.map (Sync.Un.prog true)) }) ++
          (readers.map fun p => { prog := p }) } : Conf K E (List (Res E))).runSched sched).threads[i]?).bind
            Th.result =
          some (((linResults Un.step s lin).filter fun x => x.1 = i).map (·.2)) := by
  obtain ⟨sched', hst, hth⟩ := mixed_sim s (calls.map fun ops => seqProg (ops.map (Sync.Un.prog true))) readers
    (fun p hp => (hr p hp).1) sched
  simp only [List.map_map, Function.comp_def, List.length_map] at hst hth
  obtain ⟨lin, h1, h2, h3⟩ := serialisable_un' s calls sched' (by
    intro t ht
    rw [hth] at ht
    exact hdone t (List.mem_of_mem_take ht))
  refine ⟨lin, h1, by rw [← hst]; exact h2, ?_⟩
  intro i hi
  have := h3 i hi
  rw [hth, List.getElem?_take, if_pos hi] at this
  exact this

end Conc
end G

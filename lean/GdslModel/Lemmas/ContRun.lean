import GdslModel.Lemmas.Serde
/-!
# Histories of container operations against the abstract key set (core Lean only)
-/
namespace G
variable {K : Type} [DecidableEq K]

/-- the two operations of a `Graph` container that change its member set -/
inductive ContOp (K : Type) where
  | insert (k : K)
  | remove (k : K)

def Cont.step (g : Cont K) : ContOp K → Cont K × Bool
  | .insert k => g.insert k
  | .remove k => g.remove k

/-- a history: the container it leaves and the value every call returned -/
def Cont.runOuts (g : Cont K) : List (ContOp K) → Cont K × List Bool
  | [] => (g, [])
  | op :: t => (((g.step op).1.runOuts t).1, (g.step op).2 :: ((g.step op).1.runOuts t).2)

/-- the specification: a set of keys as its membership function -/
def SetSpec.step (m : K → Bool) : ContOp K → (K → Bool) × Bool
  | .insert k => (fun j => m j || decide (j = k), !m k)
  | .remove k => (fun j => m j && !decide (j = k), m k)

def SetSpec.runOuts (m : K → Bool) : List (ContOp K) → (K → Bool) × List Bool
  | [] => (m, [])
  | op :: t => ((SetSpec.runOuts (SetSpec.step m op).1 t).1, (SetSpec.step m op).2 :: (SetSpec.runOuts (SetSpec.step m op).1 t).2)

theorem Cont.step_refines (g : Cont K) (m : K → Bool) (h : ∀ j, g.contains j = m j) (op : ContOp K) :
    (g.step op).2 = (SetSpec.step m op).2 ∧ ∀ j, (g.step op).1.contains j = (SetSpec.step m op).1 j := by
  cases op with
  | insert k =>
    have := Cont.insert_spec' g k
    simp only [Cont.step, SetSpec.step]
    refine ⟨by rw [this.1, h], fun j => by rw [this.2.1, h]⟩
  | remove k =>
    have := Cont.remove_spec' g k
    simp only [Cont.step, SetSpec.step]
    refine ⟨by rw [this.1, h], fun j => by rw [this.2, h]⟩

theorem Cont.run_refines' (g : Cont K) (m : K → Bool) (h : ∀ j, g.contains j = m j) (ops : List (ContOp K)) :
    (g.runOuts ops).2 = (SetSpec.runOuts m ops).2 ∧
    ∀ j, (g.runOuts ops).1.contains j = (SetSpec.runOuts m ops).1 j := by
  induction ops generalizing g m with
  | nil => exact ⟨rfl, h⟩
  | cons op t ih =>
    have hs := Cont.step_refines g m h op
    have := ih (g.step op).1 (SetSpec.step m op).1 hs.2
    simp only [Cont.runOuts, SetSpec.runOuts]
    exact ⟨by rw [hs.1, this.1], this.2⟩

theorem Cont.run_nodup' (g : Cont K) (h : g.members.Nodup) (ops : List (ContOp K)) :
    (g.runOuts ops).1.members.Nodup := by
  induction ops generalizing g with
  | nil => exact h
  | cons op t ih =>
    simp only [Cont.runOuts]
    apply ih
    cases op with
    | insert k => exact Cont.nodup_insert' g k h
    | remove k => exact Cont.nodup_remove' g k h

end G

import GdslModel.Lemmas.Serde
/-!
# Histories of container operations against the abstract key set (core Lean only)
-/
namespace G
variable {K : Type} [DecidableEq K]

/-- the two operations of a `Graph` container that change its member set -/
inductive ContOp (K : Type) where
  | insert (k : K)
  | remove (k : K)

def Cont.step (g : Cont K) : ContOp K → Cont K × Bool
  | .insert k => g.insert k
  | .remove k => g.remove k

/-- a history: the container it leaves and the value every call returned -/
def Cont.runOuts (g : Cont K) : List (ContOp K) → Cont K × List Bool
  | [] => (g, [])
  | op :: t => (((g.step op).1.runOuts t).1, (g.step op).2 :: ((g.step op).1.runOuts t).2)

/-- the specification: a set of keys as its membership function -/
def SetSpec.step (m : K → Bool) : ContOp K → (K → Bool) × Bool
  | .insert k => (fun j => m j || decide (j = k), !m k)
  | .remove k => (fun j => m j && !decide (j = k), m k)

def SetSpec.runOuts (m : K → Bool) : List (ContOp K) → (K → Bool) × List Bool
  | [] => (m, [])
  | op :: t => ((SetSpec.runOuts (SetSpec.step m op).1 t).1, (SetSpec.step m op).2 :: (SetSpec.runOuts (SetSpec.step m op).1 t).2)

theorem Cont.step_refines (g : Cont K) (m : K → Bool) (h : ∀ j, g.contains j = m j) (op : ContOp K) :
    (g.step op).2 = (SetSpec.step m op).2 ∧ ∀ j, (g.step op).1.contains j = (SetSpec.step m op).1 j := by
  cases op with
  | insert k =>
    have := Cont.insert_spec' g k
    simp only [Cont.step, SetSpec.step]
    refine ⟨by rw [this.1, h], fun j => by rw [this.2.1, h]⟩
  | remove k =>
    have := Cont.remove_spec' g k
    simp only [Cont.step, SetSpec.step]
    refine ⟨by rw [this.1, h], fun j => by rw [this.2, h]⟩

theorem Cont.run_refines' (g : Cont K) (m : K → Bool) (h : ∀ j, g.contains j = m j) (ops : List (ContOp K)) :
    (g.runOuts ops).2 = (SetSpec.runOuts m ops).2 ∧
    ∀ j, (g.runOuts ops).1.contains j = (SetSpec.runOuts m ops).1 j := by
  induction ops generalizing g m with
  | nil => exact ⟨rfl, h⟩
  | cons op t ih =>
    have hs := Cont.step_refines g m h op
    have := ih (g.step op).1 (SetSpec.step m op).1 hs.2
    simp only [Cont.runOuts, SetSpec.runOuts]
    exact ⟨by rw [hs.1, this.1], this.2⟩

theorem Cont.run_nodup' (g : Cont K) (h : g.members.Nodup) (ops : List (ContOp K)) :
    (g.runOuts ops).1.members.Nodup := by
  induction ops generalizing g with
  | nil => exact h
  | cons op t ih =>
    simp only [Cont.runOuts]
    apply ih
    cases op with
    | insert k => exact Cont.nodup_insert' g k h
    | remove k => exact Cont.nodup_remove' g k h


/-- how many `insert` (`ins = true`) resp. `remove` calls of a history returned `true` -/
def countOk (ins : Bool) : List (ContOp K) → List Bool → Nat
  | .insert _ :: t, b :: bs => (if ins && b then 1 else 0) + countOk ins t bs
  | .remove _ :: t, b :: bs => (if !ins && b then 1 else 0) + countOk ins t bs
  | _, _ => 0

theorem Cont.len_pos_of_contains (g : Cont K) (k : K) (h : g.contains k = true) : 0 < g.len := by
  unfold Cont.contains at h; unfold Cont.len
  cases hm : g.members with
  | nil => rw [hm] at h; simp at h
  | cons a t => simp

theorem Cont.run_len' (g : Cont K) (h : g.members.Nodup) (ops : List (ContOp K)) :
    (g.runOuts ops).1.len + countOk false ops (g.runOuts ops).2 = g.len + countOk true ops (g.runOuts ops).2 := by
  induction ops generalizing g with
  | nil => simp [Cont.runOuts, countOk]
  | cons op t ih =>
    cases op with
    | insert k =>
      have hn := Cont.nodup_insert' g k h
      have hl := Cont.len_insert' g k
      have hr := (Cont.insert_spec' g k).1
      have := ih (g.insert k).1 hn
      simp only [Cont.runOuts, Cont.step, countOk, Bool.true_and, Bool.false_and] at this ⊢
      rw [hr]
      cases hc : g.contains k <;> simp [hc] at hl ⊢ <;> omega
    | remove k =>
      have hn := Cont.nodup_remove' g k h
      have hl := Cont.len_remove' g k h
      have hr := (Cont.remove_spec' g k).1
      have := ih (g.remove k).1 hn
      simp only [Cont.runOuts, Cont.step, countOk, Bool.true_and, Bool.not_true, Bool.false_and, Bool.not_false] at this ⊢
      rw [hr]
      cases hc : g.contains k
      · simp [hc] at hl ⊢; omega
      · have hp := Cont.len_pos_of_contains g k hc
        simp [hc] at hl ⊢; omega
end G

import GdslModel.Model.Container
import GdslModel.Model.Spec
import GdslModel.Lemmas.Store
import GdslModel.Lemmas.Di
/-!
# Lemmas for containers, serde reconstruction, construction macros and DOT (C12, C13, C14, C18)
Core Lean only.
-/
namespace G
variable {K E N : Type} [DecidableEq K]

/-! ## containers (C18) -/

theorem Cont.insert_spec' (g : Cont K) (k : K) :
    (g.insert k).2 = !g.contains k ∧
    (∀ j, (g.insert k).1.contains j = (g.contains j || decide (j = k))) ∧
    (g.contains k = true → (g.insert k).1 = g) := by
  unfold Cont.insert
  by_cases h : g.contains k = true
  · simp only [h, if_true, Bool.not_true, true_and]
    refine ⟨fun j => ?_, fun _ => trivial⟩
    by_cases hj : j = k
    · subst hj; simp [h]
    · simp [hj]
  · simp only [h, Bool.false_eq_true, if_false]
    refine ⟨by simp, fun j => ?_, fun hc => nomatch hc⟩
    simp [Cont.contains, List.contains_eq_mem, List.mem_append, Bool.decide_or]

theorem Cont.remove_spec' (g : Cont K) (k : K) :
    (g.remove k).2 = g.contains k ∧
    (∀ j, (g.remove k).1.contains j = (g.contains j && !decide (j = k))) := by
  unfold Cont.remove
  by_cases h : g.contains k = true
  · simp only [h, if_true, true_and]
    intro j
    simp [Cont.contains, List.contains_eq_mem, List.mem_filter, Bool.decide_and]
  · simp only [h, Bool.false_eq_true, if_false]
    refine ⟨by simp, fun j => ?_⟩
    by_cases hj : j = k
    · subst hj; simp [h]
    · simp [hj]

theorem Cont.nodup_insert' (g : Cont K) (k : K) (h : g.members.Nodup) : (g.insert k).1.members.Nodup := by
  unfold Cont.insert
  by_cases hc : g.contains k = true
  · simpa [hc] using h
  · simp only [hc, Bool.false_eq_true, if_false]
    have hk : k ∉ g.members := by simpa [Cont.contains] using hc
    rw [List.nodup_append]
    refine ⟨h, by simp, ?_⟩
    intro a ha b hb
    simp at hb
    subst hb
    intro hab; subst hab; exact hk ha

theorem Cont.nodup_remove' (g : Cont K) (k : K) (h : g.members.Nodup) : (g.remove k).1.members.Nodup := by
  unfold Cont.remove
  by_cases hc : g.contains k = true
  · simp only [hc, if_true]
    exact h.filter _
  · simpa [hc] using h

theorem Cont.len_insert' (g : Cont K) (k : K) :
    (g.insert k).1.len = if g.contains k then g.len else g.len + 1 := by
  unfold Cont.insert
  by_cases hc : g.contains k = true <;> simp [hc, Cont.len]

theorem filter_ne_eq_self (l : List K) (k : K) (hk : k ∉ l) : l.filter (fun x => ¬ (x = k)) = l := by
  rw [List.filter_eq_self]
  intro x hx
  have : x ≠ k := fun hxa => hk (hxa ▸ hx)
  simpa using this

theorem length_filter_ne_of_nodup (l : List K) (k : K) (h : l.Nodup) (hk : k ∈ l) :
    (l.filter (fun x => ¬ (x = k))).length + 1 = l.length := by
  induction l with
  | nil => simp at hk
  | cons a t ih =>
    rw [List.nodup_cons] at h
    by_cases hak : a = k
    · subst hak
      rw [List.filter_cons_of_neg (by simp), filter_ne_eq_self t a h.1]
      rfl
    · have hkt : k ∈ t := by
        rcases List.mem_cons.mp hk with h1 | h1
        · exact absurd h1.symm hak
        · exact h1
      rw [List.filter_cons_of_pos (by simpa using hak)]
      simp only [List.length_cons]
      rw [ih h.2 hkt]

theorem Cont.len_remove' (g : Cont K) (k : K) (h : g.members.Nodup) :
    (g.remove k).1.len = if g.contains k then g.len - 1 else g.len := by
  unfold Cont.remove
  by_cases hc : g.contains k = true
  · simp only [hc, if_true, Cont.len]
    have := length_filter_ne_of_nodup g.members k h (by simpa [Cont.contains] using hc)
    omega
  · simp [hc, Cont.len]

theorem eraseDups_length_le (n : Nat) (l : List K) (hn : l.length ≤ n) : l.eraseDups.length ≤ l.length := by
  induction n generalizing l with
  | zero =>
    have : l = [] := List.eq_nil_of_length_eq_zero (Nat.le_zero.mp hn)
    subst this; simp
  | succ n ih =>
    cases l with
    | nil => simp
    | cons a t =>
      rw [List.eraseDups_cons]
      have h1 := List.length_filter_le (fun b => !b == a) t
      have h2 := ih (t.filter (fun b => !b == a)) (by simp at hn; omega)
      simp only [List.length_cons]
      omega

theorem nodup_of_eraseDups_length (n : Nat) (l : List K) (hn : l.length ≤ n)
    (h : l.eraseDups.length = l.length) : l.Nodup := by
  induction n generalizing l with
  | zero =>
    have : l = [] := List.eq_nil_of_length_eq_zero (Nat.le_zero.mp hn)
    subst this; simp
  | succ n ih =>
    cases l with
    | nil => simp
    | cons a t =>
      rw [List.eraseDups_cons] at h
      simp only [List.length_cons] at h hn
      have h1 := List.length_filter_le (fun b => !b == a) t
      have h2 := eraseDups_length_le _ (t.filter (fun b => !b == a)) (Nat.le_refl _)
      have hlen : (t.filter (fun b => !b == a)).length = t.length := by omega
      have hall := List.length_filter_eq_length_iff.mp hlen
      have hfe : t.filter (fun b => !b == a) = t := List.filter_eq_self.mpr hall
      rw [hfe] at h
      rw [List.nodup_cons]
      refine ⟨fun hat => ?_, ih t (by omega) (by omega)⟩
      have := hall a hat
      simp at this

theorem Cont.order_spec' (g : Cont K) (π : List K) (_hg : g.members.Nodup) (h : isOrderOf π g = true) :
    π.Nodup ∧ ∀ k, k ∈ π ↔ g.contains k = true := by
  unfold isOrderOf at h
  simp only [Bool.and_eq_true, beq_iff_eq, List.all_eq_true, List.contains_eq_mem, decide_eq_true_eq] at h
  obtain ⟨⟨⟨_, h2⟩, h3⟩, h4⟩ := h
  refine ⟨nodup_of_eraseDups_length _ π (Nat.le_refl _) h4, fun k => ?_⟩
  simp only [Cont.contains, List.contains_eq_mem, decide_eq_true_eq]
  exact ⟨h3 k, h2 k⟩

theorem Cont.views' (s : Store K E) (π : List K) (k : K) :
    (k ∈ rootsOf s π ↔ k ∈ π ∧ (s.get k).inn = []) ∧
    (k ∈ leavesOf s π ↔ k ∈ π ∧ (s.get k).out = []) ∧
    (k ∈ orphansOf s π ↔ k ∈ π ∧ (s.get k).inn = [] ∧ (s.get k).out = []) := by
  simp [rootsOf, leavesOf, orphansOf, List.mem_filter, List.isEmpty_iff]

theorem Cont.root_iff_no_member_edge' (s : Store K E) (hm : Mirror s) (π : List K)
    (hclosed : ∀ k ∈ π, ∀ p ∈ (s.get k).inn, p.1 ∈ π) (k : K) (hk : k ∈ π) :
    k ∈ rootsOf s π ↔ ∀ u ∈ π, vals (s.get u).out k = [] := by
  rw [(Cont.views' s π k).1]
  constructor
  · rintro ⟨_, h⟩ u _
    rw [hm u k, h]; rfl
  · intro h
    refine ⟨hk, eq_nil_of_vals_nil _ fun u => ?_⟩
    by_cases hu : u ∈ π
    · rw [← hm u k]; exact h u hu
    · rw [vals_eq_nil_iff]
      intro p hp hpu
      exact hu (hpu ▸ hclosed k hk p hp)

set_option linter.unusedSectionVars false in
theorem Cont.dot_lines' (adj : K → List (K × E)) (π : List K) :
    (dotPlain adj π).map (·.1) = π ∧
    (∀ x ∈ dotPlain adj π, x.2 = (adj x.1).map (·.1)) ∧
    dotEdges adj π = π.flatMap (edgesOf adj) := by
  refine ⟨?_, ?_, rfl⟩
  · simp [dotPlain, Function.comp_def]
  · intro x hx
    simp only [dotPlain, List.mem_map] at hx
    obtain ⟨k, _, rfl⟩ := hx
    rfl

/-! ## connecting a list of edges -/

/-- connect every listed edge, in list order -/
def connectAll (edges : List (K × K × E)) (s : Store K E) : Store K E :=
  edges.foldl (fun s x => connect s x.1 x.2.1 x.2.2) s

theorem connectAll_nil (s : Store K E) : connectAll ([] : List (K × K × E)) s = s := rfl

theorem connectAll_cons (x : K × K × E) (rest : List (K × K × E)) (s : Store K E) :
    connectAll (x :: rest) s = connectAll rest (connect s x.1 x.2.1 x.2.2) := rfl

theorem connectAll_append (l₁ l₂ : List (K × K × E)) (s : Store K E) :
    connectAll (l₁ ++ l₂) s = connectAll l₂ (connectAll l₁ s) := by
  simp [connectAll, List.foldl_append]

theorem connectAll_mirror (edges : List (K × K × E)) (s : Store K E) (h : Mirror s) :
    Mirror (connectAll edges s) := by
  induction edges generalizing s with
  | nil => exact h
  | cons x rest ih => rw [connectAll_cons]; exact ih _ (connect_mirror s _ _ _ h)

theorem connectAll_out (edges : List (K × K × E)) (s : Store K E) (k : K) :
    ((connectAll edges s).get k).out =
      (s.get k).out ++ (edges.filter (fun x => x.1 = k)).map (fun x => (x.2.1, x.2.2)) := by
  induction edges generalizing s with
  | nil => simp [connectAll_nil]
  | cons x rest ih =>
    rw [connectAll_cons, ih, (connect_spec' s x.1 x.2.1 x.2.2 k).1]
    by_cases hk : x.1 = k
    · subst hk; simp
    · have hk' : ¬ k = x.1 := fun h => hk h.symm
      simp [hk, hk']

theorem connectAll_inn (edges : List (K × K × E)) (s : Store K E) (k : K) :
    ((connectAll edges s).get k).inn =
      (s.get k).inn ++ (edges.filter (fun x => x.2.1 = k)).map (fun x => (x.1, x.2.2)) := by
  induction edges generalizing s with
  | nil => simp [connectAll_nil]
  | cons x rest ih =>
    rw [connectAll_cons, ih, (connect_spec' s x.1 x.2.1 x.2.2 k).2]
    by_cases hk : x.2.1 = k
    · subst hk; simp
    · have hk' : ¬ k = x.2.1 := fun h => hk h.symm
      simp [hk, hk']

/-! ## `rebuildEdges` and `macroConnect` -/

theorem rebuildEdges_of_all (declared : List K) (edges : List (K × K × E)) (s : Store K E)
    (h : ∀ x ∈ edges, x.1 ∈ declared ∧ x.2.1 ∈ declared) :
    rebuildEdges declared edges s = some (connectAll edges s) := by
  induction edges generalizing s with
  | nil => rfl
  | cons x rest ih =>
    obtain ⟨u, v, e⟩ := x
    have hx := h (u, v, e) (by simp)
    simp only [rebuildEdges, List.contains_eq_mem, hx.1, hx.2, decide_true, Bool.and_self, if_true]
    rw [ih _ (fun y hy => h y (List.mem_cons_of_mem _ hy))]
    rfl

theorem rebuildEdges_eq_none_iff (declared : List K) (edges : List (K × K × E)) (s : Store K E) :
    rebuildEdges declared edges s = none ↔ ∃ x ∈ edges, x.1 ∉ declared ∨ x.2.1 ∉ declared := by
  induction edges generalizing s with
  | nil => simp [rebuildEdges]
  | cons x rest ih =>
    obtain ⟨u, v, e⟩ := x
    by_cases hx : u ∈ declared ∧ v ∈ declared
    · simp only [rebuildEdges, List.contains_eq_mem, hx.1, hx.2, decide_true, Bool.and_self, if_true, ih]
      simp [hx.1, hx.2]
    · have hc : (declared.contains u && declared.contains v) = false := by
        simp only [List.contains_eq_mem, Bool.and_eq_false_iff, decide_eq_false_iff_not]
        by_cases hu : u ∈ declared
        · exact Or.inr fun hv => hx ⟨hu, hv⟩
        · exact Or.inl hu
      simp only [rebuildEdges, hc, Bool.false_eq_true, if_false, true_iff]
      refine ⟨(u, v, e), by simp, ?_⟩
      by_cases hu : u ∈ declared
      · exact Or.inr fun hv => hx ⟨hu, hv⟩
      · exact Or.inl hu

theorem rebuildEdges_some (declared : List K) (edges : List (K × K × E)) (s s' : Store K E)
    (h : rebuildEdges declared edges s = some s') :
    (∀ x ∈ edges, x.1 ∈ declared ∧ x.2.1 ∈ declared) ∧ s' = connectAll edges s := by
  have hall : ∀ x ∈ edges, x.1 ∈ declared ∧ x.2.1 ∈ declared := by
    intro x hx
    have hn : ¬ (rebuildEdges declared edges s = none) := by rw [h]; simp
    rw [rebuildEdges_eq_none_iff] at hn
    constructor
    · exact Classical.byContradiction fun hc => hn ⟨x, hx, Or.inl hc⟩
    · exact Classical.byContradiction fun hc => hn ⟨x, hx, Or.inr hc⟩
  refine ⟨hall, ?_⟩
  rw [rebuildEdges_of_all declared edges s hall] at h
  exact (Option.some.inj h).symm

theorem macroConnect_of_all (declared : List K) (edges : List (K × K × E)) (s : Store K E)
    (h : ∀ x ∈ edges, x.1 ∈ declared ∧ x.2.1 ∈ declared) :
    macroConnect declared edges s = .inr (connectAll edges s) := by
  induction edges generalizing s with
  | nil => rfl
  | cons x rest ih =>
    obtain ⟨u, v, e⟩ := x
    have hx := h (u, v, e) (by simp)
    simp only [macroConnect, List.contains_eq_mem, hx.1, hx.2, decide_true, Bool.not_true,
      Bool.false_eq_true, if_false]
    rw [ih _ (fun y hy => h y (List.mem_cons_of_mem _ hy))]
    rfl

theorem macroConnect_first_missing (declared : List K) (pre post : List (K × K × E)) (x : K × K × E)
    (s : Store K E) (hpre : ∀ y ∈ pre, y.1 ∈ declared ∧ y.2.1 ∈ declared)
    (hx : x.1 ∉ declared ∨ x.2.1 ∉ declared) :
    macroConnect declared (pre ++ x :: post) s = .inl (if x.1 ∉ declared then x.1 else x.2.1) := by
  induction pre generalizing s with
  | nil =>
    obtain ⟨u, v, e⟩ := x
    by_cases hu : u ∈ declared
    · have hv : v ∉ declared := by
        rcases hx with h | h
        · exact absurd hu h
        · exact h
      simp [macroConnect, hu, hv]
    · simp [macroConnect, hu]
  | cons y rest ih =>
    obtain ⟨a, b, c⟩ := y
    have hy := hpre (a, b, c) (by simp)
    simp only [List.cons_append, macroConnect, List.contains_eq_mem, hy.1, hy.2, decide_true, Bool.not_true,
      Bool.false_eq_true, if_false]
    exact ih _ (fun z hz => hpre z (List.mem_cons_of_mem _ hz))

/-! ## `rebuildNodes` -/

theorem any_key_iff (acc : List (K × N)) (k : K) :
    acc.any (fun p => decide (p.1 = k)) = true ↔ k ∈ acc.map (·.1) := by
  simp only [List.any_eq_true, decide_eq_true_eq, List.mem_map]

theorem rebuildNodes_keys (nodes acc : List (K × N)) (k : K) :
    k ∈ (rebuildNodes nodes acc).map (·.1) ↔ k ∈ acc.map (·.1) ∨ k ∈ nodes.map (·.1) := by
  induction nodes generalizing acc with
  | nil => simp [rebuildNodes]
  | cons x rest ih =>
    obtain ⟨k', v⟩ := x
    unfold rebuildNodes
    by_cases hany : acc.any (fun p => decide (p.1 = k')) = true
    · simp only [hany, if_true, ih, List.map_cons, List.mem_cons]
      rw [any_key_iff] at hany
      constructor
      · rintro (h | h)
        · exact Or.inl h
        · exact Or.inr (Or.inr h)
      · rintro (h | h | h)
        · exact Or.inl h
        · exact Or.inl (h ▸ hany)
        · exact Or.inr h
    · simp only [hany, Bool.false_eq_true, if_false, ih, List.map_append, List.map_cons, List.map_nil,
        List.mem_append, List.mem_cons, List.not_mem_nil, or_false]
      constructor
      · rintro ((h | h) | h)
        · exact Or.inl h
        · exact Or.inr (Or.inl h)
        · exact Or.inr (Or.inr h)
      · rintro (h | h | h)
        · exact Or.inl (Or.inl h)
        · exact Or.inl (Or.inr h)
        · exact Or.inr h

theorem rebuildNodes_nodup (nodes acc : List (K × N)) (h : (acc.map (·.1)).Nodup) :
    ((rebuildNodes nodes acc).map (·.1)).Nodup := by
  induction nodes generalizing acc with
  | nil => simpa [rebuildNodes] using h
  | cons x rest ih =>
    obtain ⟨k', v⟩ := x
    unfold rebuildNodes
    by_cases hany : acc.any (fun p => decide (p.1 = k')) = true
    · simp only [hany, if_true]; exact ih acc h
    · simp only [hany, Bool.false_eq_true, if_false]
      apply ih
      rw [any_key_iff] at hany
      rw [List.map_append, List.nodup_append]
      refine ⟨h, by simp, ?_⟩
      intro a ha b hb
      simp at hb
      subst hb
      intro hab; subst hab; exact hany ha

theorem rebuildNodes_mem (nodes acc : List (K × N)) (p : K × N) (h : p ∈ rebuildNodes nodes acc) :
    p ∈ acc ∨ p ∈ nodes := by
  induction nodes generalizing acc with
  | nil => exact Or.inl (by simpa [rebuildNodes] using h)
  | cons x rest ih =>
    obtain ⟨k', v⟩ := x
    unfold rebuildNodes at h
    by_cases hany : acc.any (fun p => decide (p.1 = k')) = true
    · simp only [hany, if_true] at h
      rcases ih acc h with h1 | h1
      · exact Or.inl h1
      · exact Or.inr (List.mem_cons_of_mem _ h1)
    · simp only [hany, Bool.false_eq_true, if_false] at h
      rcases ih _ h with h1 | h1
      · rcases List.mem_append.mp h1 with h2 | h2
        · exact Or.inl h2
        · simp at h2; subst h2; exact Or.inr (by simp)
      · exact Or.inr (List.mem_cons_of_mem _ h1)

theorem rebuildNodes_find (nodes acc : List (K × N)) (k : K) :
    (rebuildNodes nodes acc).find? (fun p => p.1 = k) = (acc ++ nodes).find? (fun p => p.1 = k) := by
  induction nodes generalizing acc with
  | nil => simp [rebuildNodes]
  | cons x rest ih =>
    obtain ⟨k', v⟩ := x
    unfold rebuildNodes
    by_cases hany : acc.any (fun p => decide (p.1 = k')) = true
    · simp only [hany, if_true, ih, List.find?_append]
      by_cases hk : k' = k
      · subst hk
        obtain ⟨q, hq, hqk⟩ := List.any_eq_true.mp hany
        have : (acc.find? (fun p => decide (p.1 = k'))).isSome := by
          rw [List.find?_isSome]; exact ⟨q, hq, hqk⟩
        obtain ⟨r, hr⟩ := Option.isSome_iff_exists.mp this
        simp [hr]
      · simp [hk]
    · simp only [hany, Bool.false_eq_true, if_false, ih]
      simp [List.append_assoc]

theorem rebuildNodes_of_nodup (nodes acc : List (K × N)) (h : ((acc ++ nodes).map (·.1)).Nodup) :
    rebuildNodes nodes acc = acc ++ nodes := by
  induction nodes generalizing acc with
  | nil => simp [rebuildNodes]
  | cons x rest ih =>
    obtain ⟨k', v⟩ := x
    unfold rebuildNodes
    have hany : ¬ (acc.any (fun p => decide (p.1 = k')) = true) := by
      rw [any_key_iff]
      intro hk
      rw [List.map_append, List.nodup_append] at h
      exact h.2.2 k' hk k' (by simp) rfl
    simp only [hany, Bool.false_eq_true, if_false]
    rw [ih _ (by simpa [List.append_assoc] using h)]
    simp [List.append_assoc]

/-! ## `rebuild` (C13) -/

theorem rebuild_eq_some (nodes : List (K × N)) (edges : List (K × K × E)) (ns : List (K × N)) (s : Store K E)
    (h : rebuild nodes edges = some (ns, s)) :
    ns = rebuildNodes nodes [] ∧ rebuildEdges (ns.map (·.1)) edges {} = some s := by
  unfold rebuild at h
  simp only [Option.map_eq_some_iff, Prod.mk.injEq] at h
  obtain ⟨s0, hs0, hns, rfl⟩ := h
  subst hns
  exact ⟨rfl, hs0⟩

theorem rebuildNodes_keys_nil (nodes : List (K × N)) (k : K) :
    k ∈ (rebuildNodes nodes []).map (·.1) ↔ k ∈ nodes.map (·.1) := by
  rw [rebuildNodes_keys]; simp

theorem Serde.undeclared_is_error' (nodes : List (K × N)) (edges : List (K × K × E)) :
    rebuild nodes edges = none ↔
      ∃ x ∈ edges, (x.1 ∉ nodes.map (·.1)) ∨ (x.2.1 ∉ nodes.map (·.1)) := by
  unfold rebuild
  simp only [Option.map_eq_none_iff, rebuildEdges_eq_none_iff, rebuildNodes_keys_nil]

theorem Serde.first_key_wins' (nodes : List (K × N)) (edges : List (K × K × E)) (ns : List (K × N)) (s : Store K E)
    (h : rebuild nodes edges = some (ns, s)) :
    (ns.map (·.1)).Nodup ∧ (∀ k, k ∈ ns.map (·.1) ↔ k ∈ nodes.map (·.1)) ∧
    ∀ k, ns.find? (fun p => p.1 = k) = nodes.find? (fun p => p.1 = k) := by
  obtain ⟨rfl, _⟩ := rebuild_eq_some nodes edges ns s h
  refine ⟨rebuildNodes_nodup nodes [] (by simp), rebuildNodes_keys_nil nodes, fun k => ?_⟩
  rw [rebuildNodes_find]; simp

theorem Serde.ok_is_wellformed' (nodes : List (K × N)) (edges : List (K × K × E)) (ns : List (K × N)) (s : Store K E)
    (h : rebuild nodes edges = some (ns, s)) :
    Mirror s ∧ (∀ p ∈ ns, p ∈ nodes) ∧
    (∀ k, (s.get k).out = (edges.filter (fun x => x.1 = k)).map (fun x => (x.2.1, x.2.2))) ∧
    (∀ k, (s.get k).inn = (edges.filter (fun x => x.2.1 = k)).map (fun x => (x.1, x.2.2))) := by
  obtain ⟨rfl, he⟩ := rebuild_eq_some nodes edges ns s h
  obtain ⟨_, rfl⟩ := rebuildEdges_some _ edges {} s he
  refine ⟨connectAll_mirror edges {} mirror_empty', fun p hp => ?_, fun k => ?_, fun k => ?_⟩
  · rcases rebuildNodes_mem nodes [] p hp with h1 | h1
    · simp at h1
    · exact h1
  · rw [connectAll_out]; simp
  · rw [connectAll_inn]; simp

/-! ## round trip (C12) -/

/-- the edge list `decompose` writes -/
def docEdges (adj : K → List (K × E)) (π : List K) : List (K × K × E) :=
  π.flatMap (fun k => (adj k).map (fun p => (k, p.1, p.2)))

theorem docEdges_filter_other (adj : K → List (K × E)) (k' k : K) (h : k' ≠ k) :
    ((adj k').map (fun p => ((k', p.1, p.2) : K × K × E))).filter (fun x => x.1 = k) = [] := by
  rw [List.filter_eq_nil_iff]
  intro x hx
  obtain ⟨p, _, rfl⟩ := List.mem_map.mp hx
  simpa using h

theorem docEdges_filter_same (adj : K → List (K × E)) (k : K) :
    (((adj k).map (fun p => ((k, p.1, p.2) : K × K × E))).filter (fun x => x.1 = k)).map
      (fun x => (x.2.1, x.2.2)) = adj k := by
  have : ((adj k).map (fun p => ((k, p.1, p.2) : K × K × E))).filter (fun x => x.1 = k) =
      (adj k).map (fun p => ((k, p.1, p.2) : K × K × E)) := by
    rw [List.filter_eq_self]
    intro x hx
    obtain ⟨p, _, rfl⟩ := List.mem_map.mp hx
    simp
  rw [this, List.map_map]
  simp [Function.comp_def]

theorem docEdges_out_not_mem (adj : K → List (K × E)) (π : List K) (k : K) (hk : k ∉ π) :
    (docEdges adj π).filter (fun x => x.1 = k) = [] := by
  induction π with
  | nil => rfl
  | cons a t ih =>
    simp only [List.mem_cons, not_or] at hk
    unfold docEdges at ih ⊢
    rw [List.flatMap_cons, List.filter_append, ih hk.2,
      docEdges_filter_other adj a k (fun h => hk.1 h.symm)]
    rfl

theorem docEdges_out_mem (adj : K → List (K × E)) (π : List K) (hnd : π.Nodup) (k : K) (hk : k ∈ π) :
    ((docEdges adj π).filter (fun x => x.1 = k)).map (fun x => (x.2.1, x.2.2)) = adj k := by
  induction π with
  | nil => simp at hk
  | cons a t ih =>
    rw [List.nodup_cons] at hnd
    have hcons : docEdges adj (a :: t) = (adj a).map (fun p => (a, p.1, p.2)) ++ docEdges adj t := by
      unfold docEdges; rw [List.flatMap_cons]
    rw [hcons, List.filter_append, List.map_append]
    by_cases hak : a = k
    · subst hak
      rw [docEdges_filter_same, docEdges_out_not_mem adj t a hnd.1]
      simp
    · have hkt : k ∈ t := by
        rcases List.mem_cons.mp hk with h1 | h1
        · exact absurd h1.symm hak
        · exact h1
      rw [docEdges_filter_other adj a k hak, ih hnd.2 hkt]
      rfl

omit [DecidableEq K] in
theorem docEdges_mem (adj : K → List (K × E)) (π : List K) (x : K × K × E) :
    x ∈ docEdges adj π ↔ ∃ k ∈ π, ∃ p ∈ adj k, x = (k, p.1, p.2) := by
  simp only [docEdges, List.mem_flatMap, List.mem_map]
  constructor
  · rintro ⟨k, hk, p, hp, rfl⟩; exact ⟨k, hk, p, hp, rfl⟩
  · rintro ⟨k, hk, p, hp, rfl⟩; exact ⟨k, hk, p, hp, rfl⟩

theorem decompose_snd (s : Store K E) (nval : K → N) (π : List K) :
    (decompose s nval π).2 = docEdges (fun k => (s.get k).out) π := rfl

theorem decompose_fst (s : Store K E) (nval : K → N) (π : List K) :
    (decompose s nval π).1 = π.map (fun k => (k, nval k)) := rfl

omit [DecidableEq K] in
theorem map_fst_nodes (nval : K → N) (π : List K) : (π.map (fun k => (k, nval k))).map (·.1) = π := by
  simp [Function.comp_def]

theorem rebuildNodes_decompose (nval : K → N) (π : List K) (hnd : π.Nodup) :
    rebuildNodes (π.map (fun k => (k, nval k))) [] = π.map (fun k => (k, nval k)) := by
  rw [rebuildNodes_of_nodup _ [] (by rw [List.nil_append, map_fst_nodes]; exact hnd)]
  rfl

theorem Serde.roundtrip' (s : Store K E) (nval : K → N) (π : List K) (hnd : π.Nodup)
    (hclosed : ∀ k ∈ π, ∀ p ∈ (s.get k).out, p.1 ∈ π) :
    ∃ s', rebuild (decompose s nval π).1 (decompose s nval π).2 = some (π.map (fun k => (k, nval k)), s') ∧
      (∀ k ∈ π, (s'.get k).out = (s.get k).out) ∧ Mirror s' := by
  refine ⟨connectAll (docEdges (fun k => (s.get k).out) π) {}, ?_, fun k hk => ?_,
    connectAll_mirror _ {} mirror_empty'⟩
  · rw [decompose_fst, decompose_snd]
    unfold rebuild
    simp only [rebuildNodes_decompose nval π hnd, map_fst_nodes]
    rw [rebuildEdges_of_all]
    · rfl
    · intro x hx
      obtain ⟨k, hk, p, hp, rfl⟩ := (docEdges_mem _ π x).mp hx
      exact ⟨hk, hclosed k hk p hp⟩
  · rw [connectAll_out, docEdges_out_mem (fun k => (s.get k).out) π hnd k hk]
    simp

theorem Serde.nonmember_error' (s : Store K E) (nval : K → N) (π : List K)
    (k : K) (hk : k ∈ π) (p : K × E) (hp : p ∈ (s.get k).out) (hnot : p.1 ∉ π) :
    rebuild (decompose s nval π).1 (decompose s nval π).2 = none := by
  rw [Serde.undeclared_is_error', decompose_fst, decompose_snd, map_fst_nodes]
  exact ⟨(k, p.1, p.2), (docEdges_mem _ π _).mpr ⟨k, hk, p, hp, rfl⟩, Or.inr hnot⟩

theorem Serde.roundtrip_inn' (s s' : Store K E) (nval : K → N) (π : List K) (hnd : π.Nodup)
    (hm : Mirror s) (hclosed : ∀ k ∈ π, ∀ p ∈ (s.get k).out, p.1 ∈ π)
    (hclosed' : ∀ k ∈ π, ∀ p ∈ (s.get k).inn, p.1 ∈ π)
    (h : rebuild (decompose s nval π).1 (decompose s nval π).2 = some (π.map (fun k => (k, nval k)), s')) :
    ∀ k ∈ π, ∀ u, vals (s'.get k).inn u = vals (s.get k).inn u := by
  obtain ⟨s'', h1, hout, _⟩ := Serde.roundtrip' s nval π hnd hclosed
  have hs : s'' = s' := by
    rw [h1] at h
    exact (Prod.mk.inj (Option.some.inj h)).2
  subst hs
  obtain ⟨hm', _, hout', _⟩ := Serde.ok_is_wellformed' _ _ _ _ h
  intro k hk u
  rw [← hm' u k]
  by_cases hu : u ∈ π
  · rw [hout u hu, hm u k]
  · rw [hout' u, decompose_snd, docEdges_out_not_mem _ π u hu]
    symm
    show vals (s.get k).inn u = []
    rw [vals_eq_nil_iff]
    intro p hp hpu
    exact hu (hpu ▸ hclosed' k hk p hp)

/-! ## construction macros (C14) -/

omit [DecidableEq K] in
theorem listed_keys (listed : List ((K × N) × List (K × E))) :
    (listed.map (·.1)).map (·.1) = listed.map (·.1.1) := by
  simp [Function.comp_def]

theorem Macro.build_spec' (listed : List ((K × N) × List (K × E)))
    (hall : ∀ x ∈ listed.flatMap (fun x => x.2.map (fun p => ((x.1.1, p.1, p.2) : K × K × E))),
      x.1 ∈ listed.map (·.1.1) ∧ x.2.1 ∈ listed.map (·.1.1)) :
    ∃ s, macroBuild listed = .ok (rebuildNodes (listed.map (·.1)) []) s ∧ Mirror s ∧
      (∀ k, (s.get k).out = ((listed.flatMap (fun x => x.2.map (fun p => ((x.1.1, p.1, p.2) : K × K × E)))).filter
        (fun x => x.1 = k)).map (fun x => (x.2.1, x.2.2))) ∧
      (∀ k, (s.get k).inn = ((listed.flatMap (fun x => x.2.map (fun p => ((x.1.1, p.1, p.2) : K × K × E)))).filter
        (fun x => x.2.1 = k)).map (fun x => (x.1, x.2.2))) := by
  refine ⟨connectAll (listed.flatMap (fun x => x.2.map (fun p => ((x.1.1, p.1, p.2) : K × K × E)))) {},
    ?_, connectAll_mirror _ {} mirror_empty', fun k => ?_, fun k => ?_⟩
  · unfold macroBuild
    simp only
    rw [macroConnect_of_all]
    intro x hx
    simp only [rebuildNodes_keys_nil, listed_keys]
    exact hall x hx
  · rw [connectAll_out]; simp
  · rw [connectAll_inn]; simp

theorem Macro.panic_first_missing' (listed : List ((K × N) × List (K × E))) (pre post : List (K × K × E))
    (x : K × K × E)
    (hsplit : listed.flatMap (fun x => x.2.map (fun p => ((x.1.1, p.1, p.2) : K × K × E))) = pre ++ x :: post)
    (hpre : ∀ y ∈ pre, y.1 ∈ listed.map (·.1.1) ∧ y.2.1 ∈ listed.map (·.1.1))
    (hx : x.1 ∉ listed.map (·.1.1) ∨ x.2.1 ∉ listed.map (·.1.1)) :
    macroBuild listed = .panic (if x.1 ∉ listed.map (·.1.1) then x.1 else x.2.1) := by
  have hkeys : ∀ k, k ∈ (rebuildNodes (listed.map (·.1)) []).map (·.1) ↔ k ∈ listed.map (·.1.1) := by
    intro k; rw [rebuildNodes_keys_nil, listed_keys]
  unfold macroBuild
  simp only
  rw [hsplit, macroConnect_first_missing _ pre post x {} (fun y hy => by simpa only [hkeys] using hpre y hy)
    (by simpa only [hkeys] using hx)]
  simp only [hkeys]

end G

import GdslModel.Model.Spec
/-!
# The transcribed `BinaryHeap` (`swap`, `siftUp`, `siftDown`, `heapPush`, `heapPop`)
keeps the heap order, returns a maximum, and only permutes its contents (core Lean only).
-/
namespace G

/-! ## `swap` -/

theorem swap_get {α : Type} (d : List α) (i j : Nat) (hi : i < d.length) (hj : j < d.length) (k : Nat)
    (hk : k < (swap d i j).length) :
    (swap d i j)[k] = if k = j then d[i] else if k = i then d[j] else d[k]'(by rw [swap_length] at hk; exact hk) := by
  unfold swap
  simp only [List.getElem?_eq_getElem hi, List.getElem?_eq_getElem hj, List.getElem_set]
  by_cases hkj : k = j
  · subst hkj; simp
  · by_cases hki : k = i
    · subst hki; simp [hkj, Ne.symm hkj]
    · simp [hkj, hki, Ne.symm hkj, Ne.symm hki]

theorem set_perm_cons {α : Type} (d : List α) (j : Nat) (x y : α) (hy : d[j]? = some y) :
    (y :: d.set j x).Perm (x :: d) := by
  induction d generalizing j with
  | nil => simp at hy
  | cons z d ih =>
    cases j with
    | zero =>
      simp only [List.getElem?_cons_zero, Option.some.injEq] at hy
      subst hy
      simp only [List.set_cons_zero]
      exact List.Perm.swap _ _ _
    | succ j =>
      simp only [List.getElem?_cons_succ] at hy
      simp only [List.set_cons_succ]
      exact (List.Perm.swap z y _).trans (((ih j hy).cons z).trans (List.Perm.swap x z _))

theorem set_set_perm {α : Type} (d : List α) (i j : Nat) (a b : α) (ha : d[i]? = some a) (hb : d[j]? = some b) :
    ((d.set i b).set j a).Perm d := by
  induction d generalizing i j with
  | nil => simp at ha
  | cons z d ih =>
    cases i with
    | zero =>
      simp only [List.getElem?_cons_zero, Option.some.injEq] at ha
      subst ha
      cases j with
      | zero =>
        simp only [List.getElem?_cons_zero, Option.some.injEq] at hb
        subst hb
        simp
      | succ j =>
        simp only [List.getElem?_cons_succ] at hb
        simp only [List.set_cons_zero, List.set_cons_succ]
        exact set_perm_cons d j z b hb
    | succ i =>
      simp only [List.getElem?_cons_succ] at ha
      cases j with
      | zero =>
        simp only [List.getElem?_cons_zero, Option.some.injEq] at hb
        subst hb
        simp only [List.set_cons_zero, List.set_cons_succ]
        exact set_perm_cons d i z a ha
      | succ j =>
        simp only [List.getElem?_cons_succ] at hb
        simp only [List.set_cons_succ]
        exact (ih i j ha hb).cons z

theorem swap_perm {α : Type} (d : List α) (i j : Nat) : (swap d i j).Perm d := by
  unfold swap
  split
  · rename_i a b ha hb; exact set_set_perm d i j a b ha hb
  · exact List.Perm.refl _

/-! ## lengths and permutations -/

theorem siftUp_length {α : Type} (key : α → Int) (pos : Nat) (d : List α) :
    (siftUp key pos d).length = d.length := by
  fun_induction siftUp key pos d <;> simp_all [swap_length]

theorem siftUp_perm {α : Type} (key : α → Int) (pos : Nat) (d : List α) : (siftUp key pos d).Perm d := by
  fun_induction siftUp key pos d with
  | case1 d => exact List.Perm.refl _
  | case2 pos d parent x p hx hp hle => exact List.Perm.refl _
  | case3 pos d parent x p hx hp hnle ih => exact ih.trans (swap_perm _ _ _)
  | case4 pos d parent h1 => exact List.Perm.refl _

theorem siftDown_perm {α : Type} (key : α → Int) (pos : Nat) (d : List α) : (siftDown key pos d).2.Perm d := by
  fun_induction siftDown key pos d with
  | case1 pos d child h c ih => exact ih.trans (swap_perm _ _ _)
  | case2 pos d child h1 h2 => exact swap_perm _ _ _
  | case3 pos d child h1 h2 => exact List.Perm.refl _

/-! ## heap order -/

theorem IsHeap.root_max {α : Type} (key : α → Int) (d : List α) (hd : IsHeap key d) :
    ∀ i (h : i < d.length), key d[i] ≤ key (d[0]'(by omega)) := by
  intro i
  induction i using Nat.strongRecOn with
  | _ i ih =>
    intro h
    by_cases hi : i = 0
    · subst hi; exact Int.le_refl _
    · have h1 := hd i (by omega) h
      have h2 := ih ((i - 1) / 2) (by omega) (by omega)
      exact Int.le_trans h1 h2

/-- all parent/child pairs are in order except the pair (pos, parent pos); the children of `pos` are
    below the parent of `pos` -/
def UpViol {α : Type} (key : α → Int) (d : List α) (pos : Nat) : Prop :=
  (∀ i, 0 < i → i ≠ pos → ∀ (h : i < d.length), key d[i] ≤ key (d[(i - 1) / 2]'(by omega))) ∧
  (∀ c, (c - 1) / 2 = pos → 0 < c → 0 < pos → ∀ (h : c < d.length) (h' : (pos - 1) / 2 < d.length),
      key d[c] ≤ key d[(pos - 1) / 2])

/-- pairs that involve `pos` (as child or as parent) are exempt; children of `pos` are below its parent -/
def Hole {α : Type} (key : α → Int) (d : List α) (pos : Nat) : Prop :=
  (∀ i, 0 < i → i ≠ pos → (i - 1) / 2 ≠ pos → ∀ (h : i < d.length), key d[i] ≤ key (d[(i - 1) / 2]'(by omega))) ∧
  (∀ c, (c - 1) / 2 = pos → 0 < c → 0 < pos → ∀ (h : c < d.length) (h' : (pos - 1) / 2 < d.length),
      key d[c] ≤ key d[(pos - 1) / 2])

theorem siftUp_heap {α : Type} (key : α → Int) (pos : Nat) (d : List α) (hpos : pos < d.length)
    (hv : UpViol key d pos) : IsHeap key (siftUp key pos d) := by
  fun_induction siftUp key pos d with
  | case1 d => intro i hi h; exact hv.1 i hi (by omega) h
  | case2 pos d parent x p hp hx hle =>
    have hpl : parent < d.length := by simp only [parent]; omega
    have hxe : d[pos + 1] = x := by simpa [List.getElem?_eq_getElem hpos] using hx
    have hpe : d[parent] = p := by simpa [List.getElem?_eq_getElem hpl] using hp
    intro i hi h
    by_cases hip : i = pos + 1
    · subst hip
      have : (pos + 1 - 1) / 2 = parent := by simp [parent]
      simp only [this, hxe, hpe]; exact hle
    · exact hv.1 i hi hip h
  | case3 pos d parent x p hp hx hnle ih =>
    have hpl : parent < d.length := by simp only [parent]; omega
    have hxe : d[pos + 1] = x := by simpa [List.getElem?_eq_getElem hpos] using hx
    have hpe : d[parent] = p := by simpa [List.getElem?_eq_getElem hpl] using hp
    have hpp : (pos + 1 - 1) / 2 = parent := by simp [parent]
    have hne : pos + 1 ≠ parent := by simp only [parent]; omega
    apply ih
    · rw [swap_length]; exact hpl
    · constructor
      · intro i hi hne' h
        have hl := h; rw [swap_length] at hl
        rw [swap_get d (pos + 1) parent hpos hpl i h,
          swap_get d (pos + 1) parent hpos hpl ((i - 1) / 2) (by rw [swap_length]; omega)]
        by_cases hip : i = pos + 1
        · subst hip
          simp only [hne, if_false, if_true, hpp, hxe, hpe]; omega
        · simp only [hne', hip, if_false]
          by_cases hpar : (i - 1) / 2 = parent
          · simp only [hpar, if_true, hxe]
            have := hv.1 i hi hip hl
            simp only [hpar, hpe] at this; omega
          · by_cases hpar2 : (i - 1) / 2 = pos + 1
            · simp only [hpar2, hne, if_false, if_true]
              have := hv.2 i hpar2 hi (by omega) hl (by omega)
              simpa [hpp] using this
            · simp only [hpar, hpar2, if_false]
              exact hv.1 i hi hip hl
      · intro c hc hc0 hpar0 h h'
        have hl := h; rw [swap_length] at hl
        have hl' := h'; rw [swap_length] at hl'
        rw [swap_get d (pos + 1) parent hpos hpl c h, swap_get d (pos + 1) parent hpos hpl ((parent - 1) / 2) h']
        have hgp := hv.1 parent hpar0 (Ne.symm hne) hpl
        have hq : (parent - 1) / 2 ≠ parent := by omega
        have hq2 : (parent - 1) / 2 ≠ pos + 1 := by simp only [parent]; omega
        simp only [hq, hq2, if_false]
        by_cases hcp : c = pos + 1
        · subst hcp; simp only [hne, if_false, if_true, hpe]; rw [hpe] at hgp; exact hgp
        · have hcne : c ≠ parent := by omega
          simp only [hcne, hcp, if_false]
          have h1 := hv.1 c hc0 hcp hl
          simp only [hc] at h1
          exact Int.le_trans h1 hgp
  | case4 pos d parent h1 =>
    exfalso
    have hpl : parent < d.length := by simp only [parent]; omega
    exact h1 d[pos + 1] d[parent] (List.getElem?_eq_getElem hpos) (List.getElem?_eq_getElem hpl)

theorem siftDown_spec {α : Type} (key : α → Int) (pos : Nat) (d : List α) (hpos : pos < d.length)
    (hh : Hole key d pos) :
    (siftDown key pos d).2.length = d.length ∧ (siftDown key pos d).1 < d.length ∧
    UpViol key (siftDown key pos d).2 (siftDown key pos d).1 := by
  fun_induction siftDown key pos d with
  | case1 pos d child h c ih =>
    have hc1 : c = child ∨ c = child + 1 := by simp only [c]; split <;> simp
    have hcl : c < d.length := by rcases hc1 with h' | h' <;> omega
    have hcpar : (c - 1) / 2 = pos := by rcases hc1 with h' | h' <;> simp only [h', child] <;> omega
    have hcne : c ≠ pos := by rcases hc1 with h' | h' <;> simp only [h', child] <;> omega
    have hbig : ∀ s, (s = child ∨ s = child + 1) → ∀ (hs : s < d.length), key d[s] ≤ key d[c] := by
      intro s hs hsl
      simp only [c]
      split
      · rename_i hle; rcases hs with rfl | rfl
        · exact hle
        · exact Int.le_refl _
      · rename_i hle; rcases hs with rfl | rfl
        · exact Int.le_refl _
        · omega
    have := ih (by rw [swap_length]; exact hcl) (by
      constructor
      · intro i hi hic hipar hl
        have hl' := hl; rw [swap_length] at hl'
        rw [swap_get d pos c hpos hcl i hl, swap_get d pos c hpos hcl ((i - 1) / 2) (by rw [swap_length]; omega)]
        simp only [hic, hipar, if_false]
        by_cases hip : i = pos
        · subst hip
          simp only [if_true]
          have hpar : (i - 1) / 2 ≠ i := by omega
          simp only [hpar, if_false]
          exact hh.2 c hcpar (by omega) hi hcl (by omega)
        · simp only [hip, if_false]
          by_cases hpp : (i - 1) / 2 = pos
          · simp only [hpp, if_true]
            have hs : i = child ∨ i = child + 1 := by simp only [child]; omega
            exact hbig i hs hl'
          · simp only [hpp, if_false]
            exact hh.1 i hi hip hpp hl'
      · intro g hg hg0 _ hl hl'
        have hgl := hl; rw [swap_length] at hgl
        rw [swap_get d pos c hpos hcl g hl, swap_get d pos c hpos hcl ((c - 1) / 2) hl']
        have hgc : g ≠ c := by omega
        have hgp : g ≠ pos := by omega
        simp only [hgc, hgp, if_false, hcpar]
        have hpc : pos ≠ c := Ne.symm hcne
        simp only [hpc, if_false, if_true]
        have := hh.1 g hg0 hgp (by omega) hgl
        simpa [hg] using this)
    simpa [swap_length] using this
  | case2 pos d child h1 h2 =>
    have hcl : child < d.length := by omega
    have hcpar : (child - 1) / 2 = pos := by simp only [child]; omega
    refine ⟨by simp [swap_length], by simp; omega, ?_, ?_⟩
    · intro i hi hic hl
      have hl' := hl; rw [swap_length] at hl'
      rw [swap_get d pos child hpos hcl i hl,
        swap_get d pos child hpos hcl ((i - 1) / 2) (by rw [swap_length]; omega)]
      simp only [hic, if_false]
      have hipar : (i - 1) / 2 ≠ child := by simp only [child]; omega
      simp only [hipar, if_false]
      by_cases hip : i = pos
      · subst hip
        have hpar : (i - 1) / 2 ≠ i := by omega
        simp only [if_true, hpar, if_false]
        exact hh.2 child hcpar (by omega) hi hcl (by omega)
      · simp only [hip, if_false]
        by_cases hpp : (i - 1) / 2 = pos
        · exfalso; simp only [child] at *; omega
        · simp only [hpp, if_false]; exact hh.1 i hi hip hpp hl'
    · intro g hg hg0 _ hl _
      rw [swap_length] at hl; simp only [child] at *; omega
  | case3 pos d child h1 h2 =>
    refine ⟨rfl, hpos, ?_, ?_⟩
    · intro i hi hip hl
      by_cases hpp : (i - 1) / 2 = pos
      · exfalso; simp only [child] at *; omega
      · exact hh.1 i hi hip hpp hl
    · intro g hg hg0 hp0 hl hl'; exact hh.2 g hg hg0 hp0 hl hl'

/-- after replacing the root: heap except at the root; sift-down then sift-up restores the heap -/
theorem pop_restores {α : Type} (key : α → Int) (d : List α) (x : α) (hd : IsHeap key d) (hne : 0 < d.length) :
    IsHeap key (siftUp key (siftDown key 0 (d.set 0 x)).1 (siftDown key 0 (d.set 0 x)).2) := by
  have hh : Hole key (d.set 0 x) 0 := by
    constructor
    · intro i hi _ hpar hl
      have hl' : i < d.length := by simpa using hl
      rw [List.getElem_set_ne (by omega), List.getElem_set_ne (by omega)]
      exact hd i hi hl'
    · intro c _ _ h0; omega
  obtain ⟨hlen, hlt, hv⟩ := siftDown_spec key 0 (d.set 0 x) (by simpa using hne) hh
  exact siftUp_heap key _ _ (by rw [hlen]; exact hlt) hv

theorem IsHeap.prefix {α : Type} (key : α → Int) (d : List α) (x : α) (hd : IsHeap key (d ++ [x])) :
    IsHeap key d := by
  intro i hi h
  have := hd i hi (by simp; omega)
  rw [List.getElem_append_left h, List.getElem_append_left (by omega)] at this
  exact this

/-! ## push and pop -/

theorem heapPush_perm {α : Type} (key : α → Int) (d : List α) (x : α) : (heapPush key d x).Perm (x :: d) := by
  unfold heapPush
  exact (siftUp_perm key _ _).trans (List.perm_append_comm)

theorem Heap.push_heap' {α : Type} (key : α → Int) (d : List α) (x : α) (hd : IsHeap key d) :
    IsHeap key (heapPush key d x) ∧ (heapPush key d x).Perm (x :: d) := by
  refine ⟨?_, heapPush_perm key d x⟩
  unfold heapPush
  apply siftUp_heap
  · simp
  · constructor
    · intro i hi hne h
      simp only [List.length_append, List.length_singleton] at h
      have hil : i < d.length := by omega
      rw [List.getElem_append_left hil, List.getElem_append_left (by omega)]
      exact hd i hi hil
    · intro c hc _ _ h _
      simp only [List.length_append, List.length_singleton] at h
      omega

theorem Heap.pop_none' {α : Type} (key : α → Int) (d : List α) : heapPop key d = none ↔ d = [] := by
  unfold heapPop
  constructor
  · intro h
    split at h
    · rename_i hr; simpa using hr
    · rename_i last revInit hr
      dsimp only at h
      split at h <;> simp at h
  · intro h; subst h; simp

/-- the shape of a successful pop -/
theorem heapPop_some {α : Type} (key : α → Int) (d d' : List α) (x : α) (h : heapPop key d = some (x, d')) :
    (d = [x] ∧ d' = []) ∨
    ∃ rest last, d = x :: rest ++ [last] ∧
      d' = siftUp key (siftDown key 0 (last :: rest)).1 (siftDown key 0 (last :: rest)).2 := by
  unfold heapPop at h
  split at h
  · simp at h
  · rename_i last revInit hr
    have hd : d = revInit.reverse ++ [last] := by
      have := congrArg List.reverse hr
      simpa using this
    dsimp only at h
    split at h
    · rename_i hinit
      simp only [Option.some.injEq, Prod.mk.injEq] at h
      left
      rw [hd, hinit]; simp [h.1, h.2]
    · rename_i top rest hinit
      simp only [Option.some.injEq, Prod.mk.injEq] at h
      right
      refine ⟨rest, last, ?_, ?_⟩
      · rw [hd, hinit, ← h.1]
      · rw [← h.2]

theorem heapPop_perm {α : Type} (key : α → Int) (d d' : List α) (x : α) (h : heapPop key d = some (x, d')) :
    d.Perm (x :: d') := by
  rcases heapPop_some key d d' x h with ⟨rfl, rfl⟩ | ⟨rest, last, rfl, rfl⟩
  · exact List.Perm.refl _
  · have h1 := (siftUp_perm key (siftDown key 0 (last :: rest)).1 (siftDown key 0 (last :: rest)).2).trans
      (siftDown_perm key 0 (last :: rest))
    refine List.Perm.trans ?_ (h1.symm.cons x)
    simp only [List.cons_append]
    exact (List.perm_append_comm (l₁ := rest) (l₂ := [last])).cons x

theorem Heap.pop_max' {α : Type} (key : α → Int) (d d' : List α) (x : α) (hd : IsHeap key d)
    (h : heapPop key d = some (x, d')) :
    (∀ y ∈ d, key y ≤ key x) ∧ IsHeap key d' ∧ d.Perm (x :: d') := by
  refine ⟨?_, ?_, heapPop_perm key d d' x h⟩
  · intro y hy
    obtain ⟨i, hi, rfl⟩ := List.getElem_of_mem hy
    have h0 : d[0]'(by omega) = x := by
      rcases heapPop_some key d d' x h with ⟨rfl, rfl⟩ | ⟨rest, last, rfl, rfl⟩ <;> simp
    have := IsHeap.root_max key d hd i hi
    rw [h0] at this; exact this
  · rcases heapPop_some key d d' x h with ⟨rfl, rfl⟩ | ⟨rest, last, rfl, rfl⟩
    · intro i hi h; simp at h
    · have hp : IsHeap key (x :: rest) := IsHeap.prefix key (x :: rest) last (by simpa using hd)
      have := pop_restores key (x :: rest) last hp (by simp)
      simpa using this

theorem IsHeap.nil {α : Type} (key : α → Int) : IsHeap key ([] : List α) := by
  intro i _ h; simp at h

theorem IsHeap.singleton {α : Type} (key : α → Int) (x : α) : IsHeap key [x] := by
  intro i hi h; simp at h; omega

end G

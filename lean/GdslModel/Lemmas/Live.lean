import GdslModel.Model.Live
import GdslModel.Lemmas.Order
/-!
# Lemmas for C20: loops over a live graph (`Model/Live.lean`)
-/
namespace G
variable {K E σ : Type} [DecidableEq K]
set_option linter.unusedSectionVars false

namespace Live

/-! ## (b) every edge handed out exists at that moment -/

/-- every entry of the log is an entry of its source's list in the state in which it was read -/
def LogOk (adj : σ → K → List (K × E)) (log : Log σ K E) : Prop :=
  ∀ x ∈ log, (x.1.2.1, x.1.2.2) ∈ adj x.2 x.1.1

theorem LogOk.snoc {adj : σ → K → List (K × E)} {log : Log σ K E} (h : LogOk adj log)
    {u v : K} {e : E} {st : σ} {pos : Nat} (hg : (adj st u)[pos]? = some (v, e)) :
    LogOk adj (log ++ [((u, v, e), st)]) := by
  intro x hx
  rcases List.mem_append.1 hx with hx | hx
  · exact h x hx
  · simp only [List.mem_singleton] at hx
    subst hx
    exact List.mem_of_getElem? hg

theorem iter_yield_aux (c : LCfg σ K E) (u : K) :
    ∀ (fuel pos : Nat) (st : σ) (log : Log σ K E) (st' : σ) (log' : Log σ K E),
      iterLoop c u fuel pos st log = some (st', log') →
      (∀ x ∈ log, x.1.1 = u ∧ (x.1.2.1, x.1.2.2) ∈ c.adj x.2 u) →
      ∀ x ∈ log', x.1.1 = u ∧ (x.1.2.1, x.1.2.2) ∈ c.adj x.2 u := by
  intro fuel
  induction fuel with
  | zero => intro pos st log st' log' h; simp [iterLoop] at h
  | succ n ih =>
    intro pos st log st' log' h hok
    simp only [iterLoop] at h
    split at h
    · cases h; exact hok
    · rename_i v e hg
      refine ih _ _ _ _ _ h ?_
      intro x hx
      rcases List.mem_append.1 hx with hx | hx
      · exact hok x hx
      · simp only [List.mem_singleton] at hx
        subst hx
        exact ⟨rfl, List.mem_of_getElem? hg⟩

theorem iter_yield_exists' (c : LCfg σ K E) (u : K) (fuel pos : Nat) (st st' : σ) (log' : Log σ K E)
    (h : iterLoop c u fuel pos st [] = some (st', log')) :
    ∀ x ∈ log', x.1.1 = u ∧ (x.1.2.1, x.1.2.2) ∈ c.adj x.2 u :=
  iter_yield_aux c u fuel pos st [] st' log' h (by simp)

theorem bfsScanL_log (c : LCfg σ K E) (u : K) :
    ∀ (fuel pos : Nat) (ts : LSt σ K E) (q : List K) (st : σ) (b : Bool) (ts' : LSt σ K E) (q' : List K) (st' : σ),
      bfsScanL c u fuel pos ts q st = some (b, ts', q', st') → LogOk c.adj ts.log → LogOk c.adj ts'.log := by
  intro fuel
  induction fuel with
  | zero => intro pos ts q st b ts' q' st' h; simp [bfsScanL] at h
  | succ n ih =>
    intro pos ts q st b ts' q' st' h hok
    simp only [bfsScanL] at h
    split at h
    · cases h; exact hok
    · rename_i v e hg
      have hok' := hok.snoc hg
      split at h
      · split at h
        · exact ih _ _ _ _ _ _ _ _ h hok'
        · split at h
          · cases h; exact hok'
          · exact ih _ _ _ _ _ _ _ _ h hok'
      · exact ih _ _ _ _ _ _ _ _ h hok'

theorem bfsLoopL_log (c : LCfg σ K E) :
    ∀ (fuel : Nat) (q : List K) (ts : LSt σ K E) (st : σ) (b : Bool) (ts' : LSt σ K E) (st' : σ),
      bfsLoopL c fuel q ts st = some (b, ts', st') → LogOk c.adj ts.log → LogOk c.adj ts'.log := by
  intro fuel
  induction fuel with
  | zero => intro q ts st b ts' st' h; simp [bfsLoopL] at h
  | succ n ih =>
    intro q ts st b ts' st' h hok
    cases q with
    | nil => simp only [bfsLoopL] at h; cases h; exact hok
    | cons u q =>
      simp only [bfsLoopL] at h
      split at h
      · cases h
      · rename_i ts1 q1 st1 hs
        cases h
        exact bfsScanL_log c u _ _ _ _ _ _ _ _ _ hs hok
      · rename_i ts1 q1 st1 hs
        exact ih _ _ _ _ _ _ h (bfsScanL_log c u _ _ _ _ _ _ _ _ _ hs hok)

theorem pfsScanL_log (c : LCfg σ K E) (prio : K → Int) (u : K) :
    ∀ (fuel pos : Nat) (ts : LSt σ K E) (q : List (K × Int)) (st : σ) (b : Bool) (ts' : LSt σ K E)
      (q' : List (K × Int)) (st' : σ),
      pfsScanL c prio u fuel pos ts q st = some (b, ts', q', st') → LogOk c.adj ts.log → LogOk c.adj ts'.log := by
  intro fuel
  induction fuel with
  | zero => intro pos ts q st b ts' q' st' h; simp [pfsScanL] at h
  | succ n ih =>
    intro pos ts q st b ts' q' st' h hok
    simp only [pfsScanL] at h
    split at h
    · cases h; exact hok
    · rename_i v e hg
      have hok' := hok.snoc hg
      split at h
      · split at h
        · exact ih _ _ _ _ _ _ _ _ h hok'
        · split at h
          · cases h; exact hok'
          · exact ih _ _ _ _ _ _ _ _ h hok'
      · exact ih _ _ _ _ _ _ _ _ h hok'

theorem pfsLoopL_log (c : LCfg σ K E) (prio : K → Int) :
    ∀ (fuel : Nat) (q : List (K × Int)) (ts : LSt σ K E) (st : σ) (b : Bool) (ts' : LSt σ K E) (st' : σ),
      pfsLoopL c prio fuel q ts st = some (b, ts', st') → LogOk c.adj ts.log → LogOk c.adj ts'.log := by
  intro fuel
  induction fuel with
  | zero => intro q ts st b ts' st' h; simp [pfsLoopL] at h
  | succ n ih =>
    intro q ts st b ts' st' h hok
    simp only [pfsLoopL] at h
    split at h
    · cases h; exact hok
    · split at h
      · cases h
      · rename_i hs
        cases h
        exact pfsScanL_log c prio _ _ _ _ _ _ _ _ _ _ hs hok
      · rename_i hs
        exact ih _ _ _ _ _ _ h (pfsScanL_log c prio _ _ _ _ _ _ _ _ _ _ hs hok)

theorem dfsEdgesL_log (c : LCfg σ K E) :
    ∀ (fuel : Nat) (u : K) (pos : Nat) (ts : LSt σ K E) (st : σ) (b : Bool) (ts' : LSt σ K E) (st' : σ),
      dfsEdgesL c fuel u pos ts st = some (b, ts', st') → LogOk c.adj ts.log → LogOk c.adj ts'.log := by
  intro fuel
  induction fuel with
  | zero => intro u pos ts st b ts' st' h; simp [dfsEdgesL] at h
  | succ n ih =>
    intro u pos ts st b ts' st' h hok
    simp only [dfsEdgesL] at h
    split at h
    · cases h; exact hok
    · rename_i v e hg
      have hok' := hok.snoc hg
      split at h
      · split at h
        · exact ih _ _ _ _ _ _ _ h hok'
        · split at h
          · cases h; exact hok'
          · split at h
            · cases h
            · rename_i hs
              cases h
              exact ih _ _ _ _ _ _ _ hs hok'
            · rename_i hs
              exact ih _ _ _ _ _ _ _ h (ih _ _ _ _ _ _ _ hs hok')
      · exact ih _ _ _ _ _ _ _ h hok'

theorem ordEdgesL_log (c : LCfg σ K E) (post : Bool) :
    ∀ (fuel : Nat) (u : K) (pos : Nat) (ts : LSt σ K E) (st : σ) (ts' : LSt σ K E) (st' : σ),
      ordEdgesL c post fuel u pos ts st = some (ts', st') → LogOk c.adj ts.log → LogOk c.adj ts'.log := by
  intro fuel
  induction fuel with
  | zero => intro u pos ts st ts' st' h; simp [ordEdgesL] at h
  | succ n ih =>
    intro u pos ts st ts' st' h hok
    simp only [ordEdgesL] at h
    split at h
    · cases h; exact hok
    · rename_i v e hg
      have hok' := hok.snoc hg
      split at h
      · split at h
        · exact ih _ _ _ _ _ _ h hok'
        · split at h
          · cases h
          · rename_i hs
            have h1 := ih _ _ _ _ _ _ hs hok'
            exact ih _ _ _ _ _ _ h h1
      · exact ih _ _ _ _ _ _ h hok'

theorem search_yield_exists' (adj : σ → K → List (K × E)) (cb : Nat → Edge K E → σ → σ × Bool) (nval : K → Int)
    (kind : Kind) (root : K) (target : Option K) (cycle : Bool) (fuel : Nat) (st st' : σ) (found : Bool) (ts : LSt σ K E)
    (h : runLoopL adj cb nval kind root target cycle fuel st = some (found, ts, st')) :
    ∀ x ∈ ts.log, (x.1.2.1, x.1.2.2) ∈ adj x.2 x.1.1 := by
  have h0 : LogOk adj ([] : Log σ K E) := by intro x hx; cases hx
  cases kind
  · exact bfsLoopL_log _ _ _ _ _ _ _ _ h h0
  · exact dfsEdgesL_log _ _ _ _ _ _ _ _ _ h h0
  · exact pfsLoopL_log _ _ _ _ _ _ _ _ _ h h0
  · exact pfsLoopL_log _ _ _ _ _ _ _ _ _ h h0

theorem order_yield_exists' (adj : σ → K → List (K × E)) (cb : Nat → Edge K E → σ → σ × Bool) (post : Bool)
    (root : K) (fuel : Nat) (st st' : σ) (ts : LSt σ K E)
    (h : orderEdgesL adj cb post root fuel st = some (ts, st')) :
    ∀ x ∈ ts.log, (x.1.2.1, x.1.2.2) ∈ adj x.2 x.1.1 := by
  have h0 : LogOk adj ([] : Log σ K E) := by intro x hx; cases hx
  exact ordEdgesL_log _ _ _ _ _ _ _ _ _ h h0

/-! ## (d) termination of the edge loop -/

theorem iter_terminates' (c : LCfg σ K E) (u : K) (n : Nat)
    (hstop : ∀ i, n ≤ i → ∀ e st, (c.adj (c.cb i e st).1 u).length ≤ (c.adj st u).length) :
    ∀ (fuel pos : Nat) (st : σ) (log : Log σ K E), n ≤ log.length →
      (c.adj st u).length - pos < fuel → (iterLoop c u fuel pos st log).isSome = true := by
  intro fuel
  induction fuel with
  | zero => intro pos st log _ hf; omega
  | succ k ih =>
    intro pos st log hn hf
    simp only [iterLoop]
    split
    · rfl
    · rename_i v e hg
      have hlt : pos < (c.adj st u).length := (List.getElem?_eq_some_iff.1 hg).1
      have := hstop log.length hn (u, v, e) st
      apply ih
      · simp; omega
      · omega

/-! ## a closure that does not touch the graph sees the static traversal -/

/-- the static traversal state a live traversal state stands for -/
def toT (ts : LSt σ K E) : TSt K E := { vis := ts.vis, tree := ts.tree, trace := ts.log.map (·.1) }

/-- the live configuration never changes the lists and accepts exactly like the static one -/
structure Same (c : LCfg σ K E) (c0 : Cfg K E) : Prop where
  adj : ∀ st k, c.adj st k = c0.adj k
  acc : ∀ i e st, (c.cb i e st).2 = c0.acc e.1 e.2.1 e.2.2
  target : c.target = c0.target

theorem drop_cons {α : Type} {l : List α} {pos : Nat} {a : α} {rest : List α} (h : l.drop pos = a :: rest) :
    l[pos]? = some a ∧ l.drop (pos + 1) = rest := by
  constructor
  · have := List.getElem?_drop (xs := l) (i := pos) (j := 0)
    rw [h] at this
    simpa using this.symm
  · have : l.drop (pos + 1) = (l.drop pos).drop 1 := by rw [List.drop_drop]
    rw [this, h]; rfl

theorem drop_nil {α : Type} {l : List α} {pos : Nat} (h : l.drop pos = []) : l[pos]? = none := by
  rw [List.getElem?_eq_none_iff]
  exact List.drop_eq_nil_iff.1 h

theorem toT_log (ts : LSt σ K E) (t : TSt K E) (h : toT ts = t) (x : Edge K E) (st : σ) :
    toT { ts with log := ts.log ++ [(x, st)] } = { t with trace := t.trace ++ [x] } := by
  subst h; simp [toT]

theorem toT_new (ts : LSt σ K E) (t : TSt K E) (h : toT ts = t) (v : K) (x : Edge K E) :
    toT { ts with vis := v :: ts.vis, tree := ts.tree ++ [x] } = { t with vis := v :: t.vis, tree := t.tree ++ [x] } := by
  subst h; simp [toT]

theorem bfsScanL_static {c : LCfg σ K E} {c0 : Cfg K E} (hs : Same c c0) (u : K) :
    ∀ (l : List (K × E)) (pos : Nat) (ts : LSt σ K E) (t : TSt K E) (q : List K) (st : σ),
      (c0.adj u).drop pos = l → toT ts = t →
      ∃ ts' st', toT ts' = (bfsScan c0 u l t q).2.1 ∧
        ∀ fuel, l.length < fuel →
          bfsScanL c u fuel pos ts q st = some ((bfsScan c0 u l t q).1, ts', (bfsScan c0 u l t q).2.2, st') := by
  intro l
  induction l with
  | nil =>
    intro pos ts t q st hd hT
    refine ⟨ts, st, by simpa [bfsScan] using hT, ?_⟩
    intro fuel hf
    obtain ⟨n, rfl⟩ : ∃ n, fuel = n + 1 := ⟨fuel - 1, by omega⟩
    simp [bfsScanL, hs.adj, drop_nil hd, bfsScan]
  | cons a rest ih =>
    obtain ⟨v, e⟩ := a
    intro pos ts t q st hd hT
    obtain ⟨hg, hd'⟩ := drop_cons hd
    have hT1 := toT_log ts t hT (u, v, e) st
    have hvis : ts.vis = t.vis := by subst hT; rfl
    by_cases hacc : c0.acc u v e = true
    · by_cases hv : v ∈ t.vis
      · obtain ⟨ts', st', h1, h2⟩ := ih (pos + 1) _ _ q (c.cb ts.log.length (u, v, e) st).1 hd' hT1
        refine ⟨ts', st', ?_, ?_⟩
        · simpa [bfsScan, hacc, hv] using h1
        · intro fuel hf
          obtain ⟨n, rfl⟩ : ∃ n, fuel = n + 1 := ⟨fuel - 1, by omega⟩
          have := h2 n (by simpa using hf)
          simpa [bfsScanL, hs.adj, hg, hs.acc, hacc, hvis, hv, bfsScan] using this
      · have hT2 := toT_new _ _ hT1 v (u, v, e)
        by_cases ht : c0.target = some v
        · refine ⟨{ vis := v :: ts.vis, tree := ts.tree ++ [(u, v, e)], log := ts.log ++ [((u, v, e), st)] },
            (c.cb ts.log.length (u, v, e) st).1, ?_, ?_⟩
          · simpa [bfsScan, hacc, hv, ht] using hT2
          · intro fuel hf
            obtain ⟨n, rfl⟩ : ∃ n, fuel = n + 1 := ⟨fuel - 1, by omega⟩
            simp [bfsScanL, hs.adj, hg, hs.acc, hacc, hvis, hv, bfsScan, hs.target, ht]
        · obtain ⟨ts', st', h1, h2⟩ := ih (pos + 1) _ _ (q ++ [v]) (c.cb ts.log.length (u, v, e) st).1 hd' hT2
          refine ⟨ts', st', ?_, ?_⟩
          · simpa [bfsScan, hacc, hv, ht] using h1
          · intro fuel hf
            obtain ⟨n, rfl⟩ : ∃ n, fuel = n + 1 := ⟨fuel - 1, by omega⟩
            have := h2 n (by simpa using hf)
            simpa [bfsScanL, hs.adj, hg, hs.acc, hacc, hvis, hv, bfsScan, hs.target, ht] using this
    · obtain ⟨ts', st', h1, h2⟩ := ih (pos + 1) _ _ q (c.cb ts.log.length (u, v, e) st).1 hd' hT1
      refine ⟨ts', st', ?_, ?_⟩
      · simpa [bfsScan, hacc] using h1
      · intro fuel hf
        obtain ⟨n, rfl⟩ : ∃ n, fuel = n + 1 := ⟨fuel - 1, by omega⟩
        have := h2 n (by simpa using hf)
        simpa [bfsScanL, hs.adj, hg, hs.acc, hacc, bfsScan] using this
theorem pfsScanL_static {c : LCfg σ K E} {c0 : Cfg K E} (hs : Same c c0) (prio : K → Int) (u : K) :
    ∀ (l : List (K × E)) (pos : Nat) (ts : LSt σ K E) (t : TSt K E) (q : List (K × Int)) (st : σ),
      (c0.adj u).drop pos = l → toT ts = t →
      ∃ ts' st', toT ts' = (pfsScan c0 prio u l t q).2.1 ∧
        ∀ fuel, l.length < fuel →
          pfsScanL c prio u fuel pos ts q st = some ((pfsScan c0 prio u l t q).1, ts', (pfsScan c0 prio u l t q).2.2, st') := by
  intro l
  induction l with
  | nil =>
    intro pos ts t q st hd hT
    refine ⟨ts, st, by simpa [pfsScan] using hT, ?_⟩
    intro fuel hf
    obtain ⟨n, rfl⟩ : ∃ n, fuel = n + 1 := ⟨fuel - 1, by omega⟩
    simp [pfsScanL, hs.adj, drop_nil hd, pfsScan]
  | cons a rest ih =>
    obtain ⟨v, e⟩ := a
    intro pos ts t q st hd hT
    obtain ⟨hg, hd'⟩ := drop_cons hd
    have hT1 := toT_log ts t hT (u, v, e) st
    have hvis : ts.vis = t.vis := by subst hT; rfl
    by_cases hacc : c0.acc u v e = true
    · by_cases hv : v ∈ t.vis
      · obtain ⟨ts', st', h1, h2⟩ := ih (pos + 1) _ _ q (c.cb ts.log.length (u, v, e) st).1 hd' hT1
        refine ⟨ts', st', ?_, ?_⟩
        · simpa [pfsScan, hacc, hv] using h1
        · intro fuel hf
          obtain ⟨n, rfl⟩ : ∃ n, fuel = n + 1 := ⟨fuel - 1, by omega⟩
          have := h2 n (by simpa using hf)
          simpa [pfsScanL, hs.adj, hg, hs.acc, hacc, hvis, hv, pfsScan] using this
      · have hT2 := toT_new _ _ hT1 v (u, v, e)
        by_cases ht : c0.target = some v
        · refine ⟨{ vis := v :: ts.vis, tree := ts.tree ++ [(u, v, e)], log := ts.log ++ [((u, v, e), st)] },
            (c.cb ts.log.length (u, v, e) st).1, ?_, ?_⟩
          · simpa [pfsScan, hacc, hv, ht] using hT2
          · intro fuel hf
            obtain ⟨n, rfl⟩ : ∃ n, fuel = n + 1 := ⟨fuel - 1, by omega⟩
            simp [pfsScanL, hs.adj, hg, hs.acc, hacc, hvis, hv, pfsScan, hs.target, ht]
        · obtain ⟨ts', st', h1, h2⟩ := ih (pos + 1) _ _ (heapPush (·.2) q (v, prio v)) (c.cb ts.log.length (u, v, e) st).1 hd' hT2
          refine ⟨ts', st', ?_, ?_⟩
          · simpa [pfsScan, hacc, hv, ht] using h1
          · intro fuel hf
            obtain ⟨n, rfl⟩ : ∃ n, fuel = n + 1 := ⟨fuel - 1, by omega⟩
            have := h2 n (by simpa using hf)
            simpa [pfsScanL, hs.adj, hg, hs.acc, hacc, hvis, hv, pfsScan, hs.target, ht] using this
    · obtain ⟨ts', st', h1, h2⟩ := ih (pos + 1) _ _ q (c.cb ts.log.length (u, v, e) st).1 hd' hT1
      refine ⟨ts', st', ?_, ?_⟩
      · simpa [pfsScan, hacc] using h1
      · intro fuel hf
        obtain ⟨n, rfl⟩ : ∃ n, fuel = n + 1 := ⟨fuel - 1, by omega⟩
        have := h2 n (by simpa using hf)
        simpa [pfsScanL, hs.adj, hg, hs.acc, hacc, pfsScan] using this

theorem bfsLoopL_static {c : LCfg σ K E} {c0 : Cfg K E} (hs : Same c c0) :
    ∀ (fuel : Nat) (q : List K) (ts : LSt σ K E) (t : TSt K E) (st : σ) (b : Bool) (t' : TSt K E),
      toT ts = t → bfsLoop c0 fuel q t = some (b, t') →
      ∃ ts' st', toT ts' = t' ∧ ∃ F, ∀ fuelL, F ≤ fuelL → bfsLoopL c fuelL q ts st = some (b, ts', st') := by
  intro fuel
  induction fuel with
  | zero => intro q ts t st b t' _ h; simp [bfsLoop] at h
  | succ n ih =>
    intro q ts t st b t' hT h
    cases q with
    | nil =>
      simp only [bfsLoop, Option.some.injEq, Prod.mk.injEq] at h
      obtain ⟨rfl, rfl⟩ := h
      refine ⟨ts, st, hT, 1, ?_⟩
      intro fuelL hF
      obtain ⟨m, rfl⟩ : ∃ m, fuelL = m + 1 := ⟨fuelL - 1, by omega⟩
      simp [bfsLoopL]
    | cons u q =>
      obtain ⟨ts1, st1, h1, h2⟩ := bfsScanL_static hs u (c0.adj u) 0 ts t q st rfl hT
      simp only [bfsLoop] at h
      rcases hsc : bfsScan c0 u (c0.adj u) t q with ⟨b1, t1, q1⟩
      rw [hsc] at h h1 h2
      cases b1 with
      | true =>
        simp only [Option.some.injEq, Prod.mk.injEq] at h
        obtain ⟨rfl, rfl⟩ := h
        refine ⟨ts1, st1, h1, (c0.adj u).length + 2, ?_⟩
        intro fuelL hF
        obtain ⟨m, rfl⟩ : ∃ m, fuelL = m + 1 := ⟨fuelL - 1, by omega⟩
        simp [bfsLoopL, h2 m (by omega)]
      | false =>
        obtain ⟨ts', st', h3, F, h4⟩ := ih q1 ts1 t1 st1 b t' h1 h
        refine ⟨ts', st', h3, max ((c0.adj u).length + 2) (F + 1), ?_⟩
        intro fuelL hF
        obtain ⟨m, rfl⟩ : ∃ m, fuelL = m + 1 := ⟨fuelL - 1, by omega⟩
        simp [bfsLoopL, h2 m (by omega), h4 m (by omega)]

theorem pfsLoopL_static {c : LCfg σ K E} {c0 : Cfg K E} (hs : Same c c0) (prio : K → Int) :
    ∀ (fuel : Nat) (q : List (K × Int)) (ts : LSt σ K E) (t : TSt K E) (st : σ) (o : List K) (b : Bool) (t' : TSt K E)
      (o' : List K),
      toT ts = t → pfsLoop c0 prio fuel q t o = some (b, t', o') →
      ∃ ts' st', toT ts' = t' ∧ ∃ F, ∀ fuelL, F ≤ fuelL → pfsLoopL c prio fuelL q ts st = some (b, ts', st') := by
  intro fuel
  induction fuel with
  | zero => intro q ts t st o b t' o' _ h; simp [pfsLoop] at h
  | succ n ih =>
    intro q ts t st o b t' o' hT h
    simp only [pfsLoop] at h
    rcases hp : heapPop (·.2) q with _ | ⟨⟨u, w⟩, q0⟩
    · rw [hp] at h
      simp only [Option.some.injEq, Prod.mk.injEq] at h
      obtain ⟨rfl, rfl, rfl⟩ := h
      refine ⟨ts, st, hT, 1, ?_⟩
      intro fuelL hF
      obtain ⟨m, rfl⟩ : ∃ m, fuelL = m + 1 := ⟨fuelL - 1, by omega⟩
      simp [pfsLoopL, hp]
    · rw [hp] at h
      obtain ⟨ts1, st1, h1, h2⟩ := pfsScanL_static hs prio u (c0.adj u) 0 ts t q0 st rfl hT
      simp only at h
      rcases hsc : pfsScan c0 prio u (c0.adj u) t q0 with ⟨b1, t1, q1⟩
      rw [hsc] at h h1 h2
      cases b1 with
      | true =>
        simp only [Option.some.injEq, Prod.mk.injEq] at h
        obtain ⟨rfl, rfl, rfl⟩ := h
        refine ⟨ts1, st1, h1, (c0.adj u).length + 2, ?_⟩
        intro fuelL hF
        obtain ⟨m, rfl⟩ : ∃ m, fuelL = m + 1 := ⟨fuelL - 1, by omega⟩
        simp [pfsLoopL, hp, h2 m (by omega)]
      | false =>
        obtain ⟨ts', st', h3, F, h4⟩ := ih q1 ts1 t1 st1 _ b t' o' h1 h
        refine ⟨ts', st', h3, max ((c0.adj u).length + 2) (F + 1), ?_⟩
        intro fuelL hF
        obtain ⟨m, rfl⟩ : ∃ m, fuelL = m + 1 := ⟨fuelL - 1, by omega⟩
        simp [pfsLoopL, hp, h2 m (by omega), h4 m (by omega)]

theorem dfsEdgesL_static {c : LCfg σ K E} {c0 : Cfg K E} (hs : Same c c0) (fuel : Nat) (u : K) (l : List (K × E))
    (t : TSt K E) :
    ∀ (pos : Nat) (ts : LSt σ K E) (st : σ) (b : Bool) (t' : TSt K E),
      (c0.adj u).drop pos = l → toT ts = t → dfsEdges c0 fuel u l t = some (b, t') →
      ∃ ts' st', toT ts' = t' ∧ ∃ F, ∀ fuelL, F ≤ fuelL → dfsEdgesL c fuelL u pos ts st = some (b, ts', st') := by
  fun_induction dfsEdges c0 fuel u l t with
  | case1 fuel u t =>
    intro pos ts st b t' hd hT h
    simp only [Option.some.injEq, Prod.mk.injEq] at h
    obtain ⟨rfl, rfl⟩ := h
    refine ⟨ts, st, hT, 1, ?_⟩
    intro fuelL hF
    obtain ⟨m, rfl⟩ : ∃ m, fuelL = m + 1 := ⟨fuelL - 1, by omega⟩
    simp [dfsEdgesL, hs.adj, drop_nil hd]
  | case2 => intro pos ts st b t' hd hT h; cases h
  | case3 fuel u v e rest t0 t1 hacc hv ih =>
    intro pos ts st b t' hd hT h
    obtain ⟨hg, hd'⟩ := drop_cons hd
    have hT1 := toT_log ts t0 hT (u, v, e) st
    have hv' : v ∈ ts.vis := by subst hT; exact hv
    obtain ⟨ts', st', h3, F, h4⟩ := ih (pos + 1) _ (c.cb ts.log.length (u, v, e) st).1 b t' hd' hT1 h
    refine ⟨ts', st', h3, F + 1, ?_⟩
    intro fuelL hF
    obtain ⟨m, rfl⟩ : ∃ m, fuelL = m + 1 := ⟨fuelL - 1, by omega⟩
    have e4 := h4 m (by omega)
    simpa [dfsEdgesL, hs.adj, hg, hs.acc, hacc, hv'] using e4
  | case4 fuel u v e rest t0 t1 hacc hv t2 ht =>
    intro pos ts st b t' hd hT h
    obtain ⟨hg, hd'⟩ := drop_cons hd
    have hT1 := toT_log ts t0 hT (u, v, e) st
    have hT2 := toT_new _ _ hT1 v (u, v, e)
    have hv' : ¬ v ∈ ts.vis := by subst hT; exact hv
    simp only [Option.some.injEq, Prod.mk.injEq] at h
    obtain ⟨rfl, rfl⟩ := h
    refine ⟨{ vis := v :: ts.vis, tree := ts.tree ++ [(u, v, e)], log := ts.log ++ [((u, v, e), st)] },
      (c.cb ts.log.length (u, v, e) st).1, hT2, 1, ?_⟩
    intro fuelL hF
    obtain ⟨m, rfl⟩ : ∃ m, fuelL = m + 1 := ⟨fuelL - 1, by omega⟩
    simp [dfsEdgesL, hs.adj, hg, hs.acc, hacc, hv', hs.target, ht]
  | case5 => intro pos ts st b t' hd hT h; cases h
  | case6 fuel u v e rest t0 t1 hacc hv t2 ht t1' hr ih =>
    intro pos ts st b t' hd hT h
    obtain ⟨hg, hd'⟩ := drop_cons hd
    have hT1 := toT_log ts t0 hT (u, v, e) st
    have hT2 := toT_new _ _ hT1 v (u, v, e)
    have hv' : ¬ v ∈ ts.vis := by subst hT; exact hv
    simp only [Option.some.injEq, Prod.mk.injEq] at h
    obtain ⟨rfl, rfl⟩ := h
    obtain ⟨ts1, st1, h1, F1, h2⟩ := ih 0 _ (c.cb ts.log.length (u, v, e) st).1 true t1' rfl hT2 hr
    refine ⟨ts1, st1, h1, F1 + 1, ?_⟩
    intro fuelL hF
    obtain ⟨m, rfl⟩ : ∃ m, fuelL = m + 1 := ⟨fuelL - 1, by omega⟩
    have e2 := h2 m (by omega)
    simp only [] at e2
    simp [dfsEdgesL, hs.adj, hg, hs.acc, hacc, hv', hs.target, ht, e2]
  | case7 fuel u v e rest t0 t1 hacc hv t2 ht t1' hr ih2 ih1 =>
    intro pos ts st b t' hd hT h
    obtain ⟨hg, hd'⟩ := drop_cons hd
    have hT1 := toT_log ts t0 hT (u, v, e) st
    have hT2 := toT_new _ _ hT1 v (u, v, e)
    have hv' : ¬ v ∈ ts.vis := by subst hT; exact hv
    obtain ⟨ts1, st1, h1, F1, h2⟩ := ih2 0 _ (c.cb ts.log.length (u, v, e) st).1 false t1' rfl hT2 hr
    obtain ⟨ts', st', h3, F2, h4⟩ := ih1 (pos + 1) ts1 st1 b t' hd' h1 h
    refine ⟨ts', st', h3, max F1 F2 + 1, ?_⟩
    intro fuelL hF
    obtain ⟨m, rfl⟩ : ∃ m, fuelL = m + 1 := ⟨fuelL - 1, by omega⟩
    have e2 := h2 m (by omega)
    have e4 := h4 m (by omega)
    simp only [] at e2
    simp [dfsEdgesL, hs.adj, hg, hs.acc, hacc, hv', hs.target, ht, e2, e4]
  | case8 fuel u v e rest t0 t1 hacc ih =>
    intro pos ts st b t' hd hT h
    obtain ⟨hg, hd'⟩ := drop_cons hd
    have hT1 := toT_log ts t0 hT (u, v, e) st
    obtain ⟨ts', st', h3, F, h4⟩ := ih (pos + 1) _ (c.cb ts.log.length (u, v, e) st).1 b t' hd' hT1 h
    refine ⟨ts', st', h3, F + 1, ?_⟩
    intro fuelL hF
    obtain ⟨m, rfl⟩ : ∃ m, fuelL = m + 1 := ⟨fuelL - 1, by omega⟩
    have e4 := h4 m (by omega)
    simpa [dfsEdgesL, hs.adj, hg, hs.acc, hacc] using e4

theorem toT_in (post : Bool) (ts : LSt σ K E) (t : TSt K E) (h : toT ts = t) (v : K) (x : Edge K E) (st : σ) :
    toT { vis := v :: ts.vis, tree := if post then ts.tree else ts.tree ++ [x], log := ts.log ++ [(x, st)] } =
      { vis := v :: t.vis, tree := Order.tIn post t.tree x, trace := t.trace ++ [x] } := by
  subst h; simp [toT, Order.tIn]

theorem toT_out (post : Bool) (ts : LSt σ K E) (t : TSt K E) (h : toT ts = t) (x : Edge K E) :
    toT { ts with tree := if post then ts.tree ++ [x] else ts.tree } = { t with tree := Order.tOut post t.tree x } := by
  subst h; simp [toT, Order.tOut]

theorem ordEdgesL_static {c : LCfg σ K E} {c0 : Cfg K E} (hs : Same c c0) (post : Bool) (fuel : Nat) (u : K)
    (l : List (K × E)) (t : TSt K E) :
    ∀ (pos : Nat) (ts : LSt σ K E) (st : σ) (t' : TSt K E),
      (c0.adj u).drop pos = l → toT ts = t → Order.ordEdges c0 post fuel u l t = some t' →
      ∃ ts' st', toT ts' = t' ∧ ∃ F, ∀ fuelL, F ≤ fuelL → ordEdgesL c post fuelL u pos ts st = some (ts', st') := by
  fun_induction Order.ordEdges c0 post fuel u l t with
  | case1 fuel u t =>
    intro pos ts st t' hd hT h
    simp only [Option.some.injEq] at h
    subst h
    refine ⟨ts, st, hT, 1, ?_⟩
    intro fuelL hF
    obtain ⟨m, rfl⟩ : ∃ m, fuelL = m + 1 := ⟨fuelL - 1, by omega⟩
    simp [ordEdgesL, hs.adj, drop_nil hd]
  | case2 => intro pos ts st t' hd hT h; cases h
  | case3 fuel u v e rest t0 hacc hv ih =>
    intro pos ts st t' hd hT h
    obtain ⟨hg, hd'⟩ := drop_cons hd
    have hT1 := toT_log ts t0 hT (u, v, e) st
    have hv' : v ∈ ts.vis := by subst hT; exact hv
    obtain ⟨ts', st', h3, F, h4⟩ := ih (pos + 1) _ (c.cb ts.log.length (u, v, e) st).1 t' hd' hT1 h
    refine ⟨ts', st', h3, F + 1, ?_⟩
    intro fuelL hF
    obtain ⟨m, rfl⟩ : ∃ m, fuelL = m + 1 := ⟨fuelL - 1, by omega⟩
    have e4 := h4 m (by omega)
    simpa [ordEdgesL, hs.adj, hg, hs.acc, hacc, hv'] using e4
  | case4 => intro pos ts st t' hd hT h; cases h
  | case5 fuel u v e rest t0 hacc hv t1 hr ih1 ih2 =>
    intro pos ts st t' hd hT h
    obtain ⟨hg, hd'⟩ := drop_cons hd
    have hT2 := toT_in post ts t0 hT v (u, v, e) st
    have hv' : ¬ v ∈ ts.vis := by subst hT; exact hv
    obtain ⟨ts1, st1, h1, F1, h2⟩ := ih1 0 _ (c.cb ts.log.length (u, v, e) st).1 t1 rfl hT2 hr
    have hT3 := toT_out post ts1 t1 h1 (u, v, e)
    obtain ⟨ts', st', h3, F2, h4⟩ := ih2 (pos + 1) _ st1 t' hd' hT3 h
    refine ⟨ts', st', h3, max F1 F2 + 1, ?_⟩
    intro fuelL hF
    obtain ⟨m, rfl⟩ : ∃ m, fuelL = m + 1 := ⟨fuelL - 1, by omega⟩
    have e2 := h2 m (by omega)
    have e4 := h4 m (by omega)
    simp [ordEdgesL, hs.adj, hg, hs.acc, hacc, hv', e2, e4]
  | case6 fuel u v e rest t0 hacc ih =>
    intro pos ts st t' hd hT h
    obtain ⟨hg, hd'⟩ := drop_cons hd
    have hT1 := toT_log ts t0 hT (u, v, e) st
    obtain ⟨ts', st', h3, F, h4⟩ := ih (pos + 1) _ (c.cb ts.log.length (u, v, e) st).1 t' hd' hT1 h
    refine ⟨ts', st', h3, F + 1, ?_⟩
    intro fuelL hF
    obtain ⟨m, rfl⟩ : ∃ m, fuelL = m + 1 := ⟨fuelL - 1, by omega⟩
    have e4 := h4 m (by omega)
    simpa [ordEdgesL, hs.adj, hg, hs.acc, hacc] using e4

theorem toT_proj {ts : LSt σ K E} {t : TSt K E} (h : toT ts = t) :
    ts.vis = t.vis ∧ ts.tree = t.tree ∧ ts.log.map (·.1) = t.trace := by
  subst h; exact ⟨rfl, rfl, rfl⟩

theorem search_eq_static' (adj0 : K → List (K × E)) (acc : K → K → E → Bool)
    (adj : σ → K → List (K × E)) (cb : Nat → Edge K E → σ → σ × Bool)
    (hadj : ∀ st k, adj st k = adj0 k) (hacc : ∀ i e st, (cb i e st).2 = acc e.1 e.2.1 e.2.2)
    (nval : K → Int) (kind : Kind) (root : K) (target : Option K) (cycle : Bool) (fuel : Nat) (st : σ) (r : Run K E)
    (h : runLoop adj0 acc nval kind root target cycle fuel = some r) :
    ∃ F, ∀ fuelL, F ≤ fuelL → ∃ ts st',
      runLoopL adj cb nval kind root target cycle fuelL st = some (r.found, ts, st') ∧
      ts.vis = r.st.vis ∧ ts.tree = r.st.tree ∧ ts.log.map (·.1) = r.st.trace := by
  have hs : Same (σ := σ) { adj := adj, cb := cb, target := if cycle then some root else target }
      { adj := adj0, acc := acc, target := if cycle then some root else target } := ⟨hadj, hacc, rfl⟩
  have hT0 : toT ({ vis := if cycle then [] else [root] } : LSt σ K E) =
      ({ vis := if cycle then [] else [root] } : TSt K E) := rfl
  cases kind with
  | bfs =>
    simp only [runLoop, Option.map_eq_some_iff] at h
    obtain ⟨⟨b, t'⟩, hb, rfl⟩ := h
    obtain ⟨ts', st', hT', F, hF⟩ := bfsLoopL_static hs fuel [root] _ _ st b t' hT0 hb
    exact ⟨F, fun fuelL hle => ⟨ts', st', hF fuelL hle, toT_proj hT'⟩⟩
  | dfs =>
    simp only [runLoop, Option.map_eq_some_iff] at h
    obtain ⟨⟨b, t'⟩, hb, rfl⟩ := h
    obtain ⟨ts', st', hT', F, hF⟩ := dfsEdgesL_static hs fuel root _ _ 0 _ st b t' rfl hT0 hb
    exact ⟨F, fun fuelL hle => ⟨ts', st', hF fuelL hle, toT_proj hT'⟩⟩
  | pfsMin =>
    simp only [runLoop, Option.map_eq_some_iff] at h
    obtain ⟨⟨b, t', o'⟩, hb, rfl⟩ := h
    obtain ⟨ts', st', hT', F, hF⟩ := pfsLoopL_static hs _ fuel _ _ _ st [] b t' o' hT0 hb
    exact ⟨F, fun fuelL hle => ⟨ts', st', hF fuelL hle, toT_proj hT'⟩⟩
  | pfsMax =>
    simp only [runLoop, Option.map_eq_some_iff] at h
    obtain ⟨⟨b, t', o'⟩, hb, rfl⟩ := h
    obtain ⟨ts', st', hT', F, hF⟩ := pfsLoopL_static hs _ fuel _ _ _ st [] b t' o' hT0 hb
    exact ⟨F, fun fuelL hle => ⟨ts', st', hF fuelL hle, toT_proj hT'⟩⟩

theorem order_eq_static' (adj0 : K → List (K × E)) (acc : K → K → E → Bool)
    (adj : σ → K → List (K × E)) (cb : Nat → Edge K E → σ → σ × Bool)
    (hadj : ∀ st k, adj st k = adj0 k) (hacc : ∀ i e st, (cb i e st).2 = acc e.1 e.2.1 e.2.2)
    (post : Bool) (root : K) (fuel : Nat) (st : σ) (t : TSt K E)
    (h : orderEdges adj0 acc post root fuel = some t) :
    ∃ F, ∀ fuelL, F ≤ fuelL → ∃ ts st',
      orderEdgesL adj cb post root fuelL st = some (ts, st') ∧
      ts.vis = t.vis ∧ ts.tree = t.tree ∧ ts.log.map (·.1) = t.trace := by
  have hs : Same (σ := σ) { adj := adj, cb := cb, target := none }
      { adj := adj0, acc := acc, target := none } := ⟨hadj, hacc, rfl⟩
  have hT0 : toT ({ vis := [root] } : LSt σ K E) = ({ vis := [root] } : TSt K E) := rfl
  have h' : Order.ordEdges { adj := adj0, acc := acc, target := none } post fuel root (adj0 root) { vis := [root] } = some t := by
    cases post
    · rw [← Order.preEdges_eq]; simpa [orderEdges] using h
    · rw [← Order.postEdges_eq]; simpa [orderEdges] using h
  obtain ⟨ts', st', hT', F, hF⟩ := ordEdgesL_static hs post fuel root _ _ 0 _ st t rfl hT0 h'
  exact ⟨F, fun fuelL hle => ⟨ts', st', hF fuelL hle, toT_proj hT'⟩⟩

end Live
end G

import GdslModel.Lemmas.Pfs
import GdslModel.Lemmas.Extra
import GdslModel.Lemmas.PathView
/-!
# C06 — priority-first search expands nodes in priority order
-/
namespace G
variable {K E : Type} [DecidableEq K]

/-- `BinaryHeap::push` keeps the heap order and adds exactly the new element -/
theorem Heap.push_heap {α : Type} (key : α → Int) (d : List α) (x : α) (hd : IsHeap key d) :
    IsHeap key (heapPush key d x) ∧ (heapPush key d x).Perm (x :: d) :=
  Heap.push_heap' key d x hd

/-- `BinaryHeap::pop` returns a maximal element, keeps the heap order and removes exactly that element -/
theorem Heap.pop_max {α : Type} (key : α → Int) (d d' : List α) (x : α) (hd : IsHeap key d)
    (h : heapPop key d = some (x, d')) :
    (∀ y ∈ d, key y ≤ key x) ∧ IsHeap key d' ∧ d.Perm (x :: d') :=
  Heap.pop_max' key d d' x hd h

theorem Heap.pop_none {α : Type} (key : α → Int) (d : List α) : heapPop key d = none ↔ d = [] :=
  Heap.pop_none' key d

/-- the ghost log does not change what the loop computes -/
theorem Pfs.log_erases (c : Cfg K E) (prio : K → Int) (fuel : Nat) (h : List (K × Int)) (st : TSt K E)
    (log : List ((K × Int) × List (K × Int))) (order : List K) :
    (pfsLoopLog c prio fuel h st log).map (fun r => (r.1, r.2.1, order ++ (r.2.2.drop log.length).map (fun x => x.1.1))) =
    (pfsLoop c prio fuel h st order) :=
  Pfs.log_erases' c prio fuel h st log order

/-- C06, expansion discipline: whenever a node starts expanding, nothing still pending in the heap
    (= discovered and not yet expanded) has a strictly greater priority. With `prio = nval` this is
    `max()`, with `prio = -nval` (`Reverse`) it says no pending node has a strictly smaller value. -/
theorem Pfs.pop_minimal (c : Cfg K E) (prio : K → Int) (fuel : Nat) (h : List (K × Int)) (st : TSt K E)
    (hh : IsHeap (fun x : K × Int => x.2) h) (found : Bool) (st' : TSt K E)
    (log : List ((K × Int) × List (K × Int)))
    (hrun : pfsLoopLog c prio fuel h st [] = some (found, st', log)) :
    ∀ x ∈ log, ∀ y ∈ x.2, y.2 ≤ x.1.2 :=
  Pfs.pop_minimal' c prio fuel h st hh found st' log hrun

/-- the heap holds exactly the discovered nodes that are not yet expanded, each with its priority:
    an element is pushed when its node is first discovered (and is not the target) -/
theorem Pfs.pending_are_discovered (c : Cfg K E) (prio : K → Int) (fuel : Nat) (root : K) (st : TSt K E)
    (found : Bool) (st' : TSt K E) (log : List ((K × Int) × List (K × Int)))
    (hrun : pfsLoopLog c prio fuel [(root, prio root)] st [] = some (found, st', log)) :
    ∀ x ∈ log, (x.1.2 = prio x.1.1 ∧ (x.1.1 = root ∨ x.1.1 ∈ st'.tree.map (fun e => e.2.1))) ∧
      ∀ y ∈ x.2, y.2 = prio y.1 ∧ y.1 ∈ st'.tree.map (fun e => e.2.1) :=
  Pfs.pending_are_discovered' c prio fuel root st found st' log hrun

theorem Pfs.path_sound (adj : K → List (K × E)) (acc : K → K → E → Bool) (nval : K → Int) (kind : Kind)
    (hk : kind = .pfsMin ∨ kind = .pfsMax) (root t : K) (fuel : Nat)
    (p : List (Edge K E)) (run : Run K E)
    (h : searchPath adj acc nval kind root (some t) false fuel = some (some p, run)) :
    IsPath (accAdj adj acc) root t p :=
  Pfs.path_sound' adj acc nval kind hk root t fuel p run h

/-- what the accessors of the returned `Path` hand out: `first_node()` is the root, `last_node()` the target,
    `first_edge()` leaves the root, `last_edge()` enters the target, `to_vec_nodes()` / `iter_nodes()` is the root
    followed by the target of every edge, `len()` = number of edges + 1 -/
theorem Pfs.path_accessors (adj : K → List (K × E)) (acc : K → K → E → Bool) (nval : K → Int) (kind : Kind)
    (hk : kind = .pfsMin ∨ kind = .pfsMax) (root t : K) (fuel : Nat)
    (p : List (Edge K E)) (run : Run K E)
    (h : searchPath adj acc nval kind root (some t) false fuel = some (some p, run)) :
    pathFirstNode p = some root ∧ pathLastNode p = some t ∧
    (∃ x, pathFirstEdge p = some x ∧ x.1 = root) ∧ (∃ y, pathLastEdge p = some y ∧ y.2.1 = t) ∧
    pathNodes p = root :: p.map (·.2.1) ∧ (pathNodes p).length = p.length + 1 :=
  (Pfs.path_sound adj acc nval kind hk root t fuel p run h).accessors

theorem Pfs.path_complete (adj : K → List (K × E)) (acc : K → K → E → Bool) (nval : K → Int) (kind : Kind)
    (hk : kind = .pfsMin ∨ kind = .pfsMax) (root t : K) (fuel : Nat)
    (run : Run K E) (hrt : t ≠ root)
    (h : searchPath adj acc nval kind root (some t) false fuel = some (none, run)) :
    ¬ Reach (accAdj adj acc) root t :=
  Pfs.path_complete' adj acc nval kind hk root t fuel run hrt h

/-- `search` returns the target node exactly when it is reachable -/
theorem Pfs.search_iff (adj : K → List (K × E)) (acc : K → K → E → Bool) (nval : K → Int) (kind : Kind)
    (hk : kind = .pfsMin ∨ kind = .pfsMax) (root t : K) (fuel : Nat)
    (x : Option K) (run : Run K E) (hrt : t ≠ root)
    (h : searchNode adj acc nval kind root (some t) fuel = some (x, run)) :
    (x = some t ∨ x = none) ∧ (x = some t ↔ Reach (accAdj adj acc) root t) :=
  Pfs.search_iff' adj acc nval kind hk root t fuel x run hrt h

theorem Pfs.fuel_enough (adj : K → List (K × E)) (acc : K → K → E → Bool) (nval : K → Int) (kind : Kind)
    (hk : kind = .pfsMin ∨ kind = .pfsMax) (root : K)
    (target : Option K) (cycle : Bool) (fuel : Nat) (nodes : List K)
    (hc : Closed (accAdj adj acc) nodes) (hr : root ∈ nodes) (hf : nodes.length < fuel) :
    (runLoop adj acc nval kind root target cycle fuel).isSome = true :=
  Pfs.fuel_enough' adj acc nval kind hk root target cycle fuel nodes hc hr hf

/-- node comparison: `==` is key equality; `cmp`, `partial_cmp`, `<` are the value order -/
def nodeEq (a b : K × Int) : Bool := a.1 = b.1
def nodeCmp (a b : K × Int) : Ordering := compare a.2 b.2
theorem NodeOrd.eq_key (a b : K × Int) : nodeEq a b = true ↔ a.1 = b.1 := by simp [nodeEq]
theorem NodeOrd.cmp_value (a b : K × Int) : (nodeCmp a b = .lt ↔ a.2 < b.2) ∧ (nodeCmp a b = .eq ↔ a.2 = b.2) :=
  NodeOrd.cmp_value' a b

/-- `Edge` comparison: in digraph `==` holds exactly for equal endpoints (the value is ignored), in the undirected
    flavours exactly for equal values; the order is the order of the values everywhere -/
theorem EdgeOrd.eq_spec (a b : K × K × Int) :
    (edgeEq true a b = true ↔ a.1 = b.1 ∧ a.2.1 = b.2.1) ∧ (edgeEq false a b = true ↔ a.2.2 = b.2.2) := by
  simp [edgeEq]
theorem EdgeOrd.cmp_value (a b : K × K × Int) :
    (edgeCmp a b = .lt ↔ a.2.2 < b.2.2) ∧ (edgeCmp a b = .eq ↔ a.2.2 = b.2.2) :=
  NodeOrd.cmp_value' (a.1, a.2.2) (b.1, b.2.2)
/-- in the undirected flavours `==` is the equivalence of the order (as `Ord` requires) -/
theorem EdgeOrd.undirected_consistent (a b : K × K × Int) : edgeEq false a b = true ↔ edgeCmp a b = .eq := by
  rw [(EdgeOrd.eq_spec a b).2, (EdgeOrd.cmp_value a b).2]

/-- priority-first search (`min()` and `max()`) on a graph built by a history never runs out of fuel
    when given `number of distinct keys + 1`: plain, transposed and undirected, any filter, target and mode -/
theorem Pfs.history_fuel (ops : List (Op K E)) (acc : K → K → E → Bool) (nval : K → Int) (kind : Kind)
    (hk : kind = .pfsMin ∨ kind = .pfsMax) (root : K)
    (target : Option K) (cycle : Bool) (hr : root ∈ opKeys ops) :
    (runLoop (outAdj (Di.run ops)) acc nval kind root target cycle ((opKeys ops).eraseDups.length + 1)).isSome = true ∧
    (runLoop (inAdj (Di.run ops)) acc nval kind root target cycle ((opKeys ops).eraseDups.length + 1)).isSome = true ∧
    (runLoop (unAdj (Un.run ops)) acc nval kind root target cycle ((opKeys ops).eraseDups.length + 1)).isSome = true := by
  have hc := history_closed_eraseDups ops acc
  have hr' := (mem_eraseDups_opKeys ops root).mpr hr
  exact ⟨Pfs.fuel_enough _ acc nval kind hk root target cycle _ _ hc.1 hr' (Nat.lt_succ_self _),
    Pfs.fuel_enough _ acc nval kind hk root target cycle _ _ hc.2.1 hr' (Nat.lt_succ_self _),
    Pfs.fuel_enough _ acc nval kind hk root target cycle _ _ hc.2.2 hr' (Nat.lt_succ_self _)⟩

/-- the form the driver uses: any node table containing the history's keys and the root, any fuel above its length -/
theorem Pfs.history_fuel_of_nodes (ops : List (Op K E)) (acc : K → K → E → Bool) (nval : K → Int) (kind : Kind)
    (hk : kind = .pfsMin ∨ kind = .pfsMax) (root : K)
    (target : Option K) (cycle : Bool) (nodes : List K) (fuel : Nat)
    (hks : ∀ k ∈ opKeys ops, k ∈ nodes) (hr : root ∈ nodes) (hf : nodes.length < fuel) :
    (runLoop (outAdj (Di.run ops)) acc nval kind root target cycle fuel).isSome = true ∧
    (runLoop (inAdj (Di.run ops)) acc nval kind root target cycle fuel).isSome = true ∧
    (runLoop (unAdj (Un.run ops)) acc nval kind root target cycle fuel).isSome = true := by
  have hc := history_closed ops acc nodes hks
  exact ⟨Pfs.fuel_enough _ acc nval kind hk root target cycle _ _ hc.1 hr hf,
    Pfs.fuel_enough _ acc nval kind hk root target cycle _ _ hc.2.1 hr hf,
    Pfs.fuel_enough _ acc nval kind hk root target cycle _ _ hc.2.2 hr hf⟩

end G

import GdslModel.Lemmas.Serde
import GdslModel.Lemmas.ContRun
/-!
# C18 — graph containers behave as key→node maps with faithful views
Nodes are identified with their keys, so "hands out the inserted nodes themselves" is the
statement that every observer reads the one store cell of that key (by construction of the model;
validated by the correspondence and the `g.connect` requests).
-/
namespace G
variable {K E : Type} [DecidableEq K]

/-- `insert` adds the key iff absent; `false` and unchanged otherwise -/
theorem Cont.insert_spec (g : Cont K) (k : K) :
    (g.insert k).2 = !g.contains k ∧
    (∀ j, (g.insert k).1.contains j = (g.contains j || decide (j = k))) ∧
    (g.contains k = true → (g.insert k).1 = g) :=
  Cont.insert_spec' g k

theorem Cont.remove_spec (g : Cont K) (k : K) :
    (g.remove k).2 = g.contains k ∧
    (∀ j, (g.remove k).1.contains j = (g.contains j && !decide (j = k))) :=
  Cont.remove_spec' g k

/-- members stay duplicate-free, so `len` is the number of distinct keys -/
theorem Cont.nodup_insert (g : Cont K) (k : K) (h : g.members.Nodup) : (g.insert k).1.members.Nodup :=
  Cont.nodup_insert' g k h
theorem Cont.nodup_remove (g : Cont K) (k : K) (h : g.members.Nodup) : (g.remove k).1.members.Nodup :=
  Cont.nodup_remove' g k h
theorem Cont.len_insert (g : Cont K) (k : K) :
    (g.insert k).1.len = if g.contains k then g.len else g.len + 1 :=
  Cont.len_insert' g k
theorem Cont.len_remove (g : Cont K) (k : K) (h : g.members.Nodup) :
    (g.remove k).1.len = if g.contains k then g.len - 1 else g.len :=
  Cont.len_remove' g k h

/-- an accepted iteration order lists exactly the members, each once -/
theorem Cont.order_spec (g : Cont K) (π : List K) (hg : g.members.Nodup) (h : isOrderOf π g = true) :
    π.Nodup ∧ ∀ k, k ∈ π ↔ g.contains k = true :=
  Cont.order_spec' g π hg h

/-- roots / leaves / orphans are exactly the members without incoming / outgoing / any edge -/
theorem Cont.views (s : Store K E) (π : List K) (k : K) :
    (k ∈ rootsOf s π ↔ k ∈ π ∧ (s.get k).inn = []) ∧
    (k ∈ leavesOf s π ↔ k ∈ π ∧ (s.get k).out = []) ∧
    (k ∈ orphansOf s π ↔ k ∈ π ∧ (s.get k).inn = [] ∧ (s.get k).out = []) :=
  Cont.views' s π k

/-- with the mirror invariant and a closed container the views describe the edge set from both ends:
    a member is a root iff no member lists an edge to it -/
theorem Cont.root_iff_no_member_edge (s : Store K E) (hm : Mirror s) (π : List K)
    (hclosed : ∀ k ∈ π, ∀ p ∈ (s.get k).inn, p.1 ∈ π) (k : K) (hk : k ∈ π) :
    k ∈ rootsOf s π ↔ ∀ u ∈ π, vals (s.get u).out k = [] :=
  Cont.root_iff_no_member_edge' s hm π hclosed k hk

/-- DOT: one node statement per member in iteration order, one edge statement per iterated edge -/
theorem Cont.dot_lines (adj : K → List (K × E)) (π : List K) :
    (dotPlain adj π).map (·.1) = π ∧
    (∀ x ∈ dotPlain adj π, x.2 = (adj x.1).map (·.1)) ∧
    dotEdges adj π = π.flatMap (edgesOf adj) :=
  Cont.dot_lines' adj π

/-- refinement: every history of `insert` / `remove` calls on a container behaves like the same history on a
    plain set of keys - every call returns what the set returns, and afterwards `contains` (and with it `get`
    and indexing, which hand out the one store cell of the key) answers as the set does -/
theorem Cont.run_refines (ops : List (ContOp K)) :
    (({} : Cont K).runOuts ops).2 = (SetSpec.runOuts (fun _ => false) ops).2 ∧
    ∀ j, (({} : Cont K).runOuts ops).1.contains j = (SetSpec.runOuts (fun _ => false) ops).1 j :=
  Cont.run_refines' {} (fun _ => false) (fun j => by simp [Cont.contains]) ops

/-- after every history the member list is duplicate-free, so `len` counts distinct keys -/
theorem Cont.run_nodup (ops : List (ContOp K)) : (({} : Cont K).runOuts ops).1.members.Nodup :=
  Cont.run_nodup' {} (by simp) ops

/-- non-vacuity: insert, rejected second insert, remove, failed remove, insert again -/
example : (({} : Cont Nat).runOuts [.insert 1, .insert 1, .remove 1, .remove 1, .insert 1, .insert 2]).2
    = [true, false, true, false, true, true] := by decide

/-- `len` accounts for the history: after any sequence of `insert` / `remove` calls the container holds exactly
    as many nodes as `insert` calls returned `true` minus `remove` calls that returned `true` - a refused insert
    and a failed remove change nothing -/
theorem Cont.run_len (ops : List (ContOp K)) :
    (({} : Cont K).runOuts ops).1.len + countOk false ops (({} : Cont K).runOuts ops).2 =
      countOk true ops (({} : Cont K).runOuts ops).2 := by
  have := Cont.run_len' ({} : Cont K) (by simp) ops
  simpa [Cont.len] using this

example : (({} : Cont Nat).runOuts [.insert 1, .insert 1, .remove 1, .remove 1, .insert 1, .insert 2]).1.len = 2 := by decide

end G

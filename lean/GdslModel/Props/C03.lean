import GdslModel.Lemmas.Di
import GdslModel.Lemmas.Un
import GdslModel.Lemmas.Extra
/-!
# C03 — edge operations implement the multigraph contract

Exact list-level effect of every operation, its return value, "changes nothing on failure",
and "no panic". `eraseKey l k` removes the first entry with key `k`, `dropKey l k` every entry
with key `k`; both keep the order of the remaining entries.
-/
namespace G
variable {K E : Type} [DecidableEq K]

/-- `connect` (all flavours): the new entry is appended last to the caller's outgoing and the
    callee's incoming list; every other list is untouched -/
theorem connect_spec (s : Store K E) (u v : K) (e : E) (w : K) :
    ((connect s u v e).get w).out = (if w = u then (s.get w).out ++ [(v, e)] else (s.get w).out) ∧
    ((connect s u v e).get w).inn = (if w = v then (s.get w).inn ++ [(u, e)] else (s.get w).inn) :=
  connect_spec' s u v e w

/-- directed `try_connect`: fails and changes nothing iff the caller already has an edge to `v` -/
theorem Di.tryConnect_spec (s : Store K E) (u v : K) (e : E) :
    Di.tryConnect s u v e =
      if vals (s.get u).out v ≠ [] then (s, .exists_) else (connect s u v e, .unit) :=
  Di.tryConnect_spec' s u v e

/-- directed `disconnect` of an existing edge: returns the value of the first `u→v` edge and removes
    exactly that entry from `u`'s outgoing and the first `u` entry from `v`'s incoming list -/
theorem Di.disconnect_found (s : Store K E) (h : Mirror s) (u v : K) (e : E) (t : List E)
    (he : vals (s.get u).out v = e :: t) :
    (Di.disconnect s u v).2 = .val e ∧
    ∀ w, ((Di.disconnect s u v).1.get w).out = (if w = u then eraseKey (s.get w).out v else (s.get w).out) ∧
         ((Di.disconnect s u v).1.get w).inn = (if w = v then eraseKey (s.get w).inn u else (s.get w).inn) :=
  Di.disconnect_found' s h u v e t he

/-- directed `disconnect` without an edge: `EdgeNotFound`, nothing changes -/
theorem Di.disconnect_absent (s : Store K E) (u v : K) (he : vals (s.get u).out v = []) :
    Di.disconnect s u v = (s, .notFound) :=
  Di.disconnect_absent' s u v he

/-- directed `isolate`: the node's lists are empty, every other list loses exactly its `u` entries -/
theorem Di.isolate_spec (s : Store K E) (h : Mirror s) (u : K) :
    (Di.isolate s u).2 = .unit ∧
    ∀ w, ((Di.isolate s u).1.get w).out = (if w = u then [] else dropKey (s.get w).out u) ∧
         ((Di.isolate s u).1.get w).inn = (if w = u then [] else dropKey (s.get w).inn u) :=
  Di.isolate_spec' s h u

/-- undirected `try_connect`: fails iff the caller has an edge to `v` in either orientation -/
theorem Un.tryConnect_spec (s : Store K E) (u v : K) (e : E) :
    Un.tryConnect s u v e =
      if vals (unAdj s u) v ≠ [] then (s, .exists_) else (connect s u v e, .unit) :=
  Un.tryConnect_spec' s u v e

/-- undirected `disconnect` when the caller holds an inbound half from `v`: that half-edge (the
    first one) and its partner, the first outbound half of `v` towards `u`, are removed -/
theorem Un.disconnect_found_inbound (s : Store K E) (h : Mirror s) (u v : K) (e : E) (t : List E)
    (he : vals (s.get u).inn v = e :: t) :
    (Un.disconnect s u v).2 = .val e ∧
    ∀ w, ((Un.disconnect s u v).1.get w).inn = (if w = u then eraseKey (s.get w).inn v else (s.get w).inn) ∧
         ((Un.disconnect s u v).1.get w).out = (if w = v then eraseKey (s.get w).out u else (s.get w).out) :=
  Un.disconnect_found_inbound' s h u v e t he

/-- undirected `disconnect` when the caller holds only outbound halves towards `v` -/
theorem Un.disconnect_found_outbound (s : Store K E) (h : Mirror s) (u v : K) (e : E) (t : List E)
    (hi : vals (s.get u).inn v = []) (he : vals (s.get u).out v = e :: t) :
    (Un.disconnect s u v).2 = .val e ∧
    ∀ w, ((Un.disconnect s u v).1.get w).out = (if w = u then eraseKey (s.get w).out v else (s.get w).out) ∧
         ((Un.disconnect s u v).1.get w).inn = (if w = v then eraseKey (s.get w).inn u else (s.get w).inn) :=
  Un.disconnect_found_outbound' s h u v e t hi he

theorem Un.disconnect_absent (s : Store K E) (u v : K) (he : vals (unAdj s u) v = []) :
    Un.disconnect s u v = (s, .notFound) :=
  Un.disconnect_absent' s u v he

/-- undirected `isolate`: exactly the incident half-edges disappear, everywhere -/
theorem Un.isolate_spec (s : Store K E) (h : Mirror s) (u : K) :
    (Un.isolate s u).2 = .unit ∧
    ∀ w, ((Un.isolate s u).1.get w).out = (if w = u then [] else dropKey (s.get w).out u) ∧
         ((Un.isolate s u).1.get w).inn = (if w = u then [] else dropKey (s.get w).inn u) :=
  Un.isolate_spec' s h u

/-- no call panics on a store reached by any history -/
theorem Di.run_no_panic (ops : List (Op K E)) (op : Op K E) : (Di.step (Di.run ops) op).2 ≠ .panic :=
  Di.step_no_panic _ op (Di.run_mirror ops)
theorem Un.run_no_panic (ops : List (Op K E)) (op : Op K E) : (Un.step (Un.run ops) op).2 ≠ .panic :=
  Un.step_no_panic _ op (Un.run_mirror ops)

/-- non-vacuity of the `disconnect_found` hypotheses: parallel edges and a self-loop -/
example : vals ((Di.run [Op.connect 0 0 7, .connect 0 1 1, .connect 0 1 2] : Store Nat Nat).get 0).out 1 = 1 :: [2] := by decide
example : vals ((Un.run [Op.connect 0 0 7, .connect 1 0 1, .connect 0 1 2] : Store Nat Nat).get 0).inn 1 = 1 :: [] := by decide

/-- "adds exactly one new edge" and "removes exactly one edge" together: connecting `u→v` where `u` had no
    edge to `v` and disconnecting again returns the value given to `connect` and leaves every list of every
    node exactly as it was (the two calls are inverse on a reachable store) -/
theorem Di.connect_disconnect (s : Store K E) (h : Mirror s) (u v : K) (e : E)
    (hn : vals (s.get u).out v = []) :
    (Di.disconnect (connect s u v e) u v).2 = .val e ∧
    ∀ w, ((Di.disconnect (connect s u v e) u v).1.get w).out = (s.get w).out ∧
         ((Di.disconnect (connect s u v e) u v).1.get w).inn = (s.get w).inn :=
  Di.connect_disconnect' s h u v e hn

/-- non-vacuity: the hypothesis holds for a self-loop target on a reachable store with other edges -/
example : vals ((Di.run [Op.connect 0 1 1, .connect 1 0 2] : Store Nat Nat).get 0).out 0 = [] := by decide

/-- the same for the undirected flavours, a self-loop included: connecting `u`-`v` where `u` lists no edge to `v`
    in either orientation and disconnecting again from the same endpoint returns the value and restores every list -/
theorem Un.connect_disconnect (s : Store K E) (h : Mirror s) (u v : K) (e : E)
    (hn : vals (unAdj s u) v = []) :
    (Un.disconnect (connect s u v e) u v).2 = .val e ∧
    ∀ w, ((Un.disconnect (connect s u v e) u v).1.get w).out = (s.get w).out ∧
         ((Un.disconnect (connect s u v e) u v).1.get w).inn = (s.get w).inn :=
  Un.connect_disconnect' s h u v e hn

example : vals (unAdj (Un.run [Op.connect 0 1 1, .connect 2 0 2] : Store Nat Nat) 0) 0 = [] := by decide

/-- "isolate removes exactly the incident edges", applied twice: a second `isolate` of the same node finds nothing
    left to remove and changes no list of any node -/
theorem Di.isolate_idem (s : Store K E) (h : Mirror s) (u : K) :
    ∀ w, ((Di.isolate (Di.isolate s u).1 u).1.get w).out = ((Di.isolate s u).1.get w).out ∧
         ((Di.isolate (Di.isolate s u).1 u).1.get w).inn = ((Di.isolate s u).1.get w).inn :=
  Di.isolate_idem' s h u

theorem Un.isolate_idem (s : Store K E) (h : Mirror s) (u : K) :
    ∀ w, ((Un.isolate (Un.isolate s u).1 u).1.get w).out = ((Un.isolate s u).1.get w).out ∧
         ((Un.isolate (Un.isolate s u).1 u).1.get w).inn = ((Un.isolate s u).1.get w).inn :=
  Un.isolate_idem' s h u

/-- after `isolate` the node is an orphan and no node lists it any more, in either direction -/
theorem Di.isolate_orphan (s : Store K E) (h : Mirror s) (u : K) :
    ((Di.isolate s u).1.get u).out = [] ∧ ((Di.isolate s u).1.get u).inn = [] ∧
    ∀ w, vals ((Di.isolate s u).1.get w).out u = [] ∧ vals ((Di.isolate s u).1.get w).inn u = [] :=
  Di.isolate_orphan' s h u

/-- after an undirected `isolate` the node has degree 0 and no node lists it in either orientation -/
theorem Un.isolate_orphan (s : Store K E) (h : Mirror s) (u : K) :
    unAdj (Un.isolate s u).1 u = [] ∧ ∀ w, vals (unAdj (Un.isolate s u).1 w) u = [] :=
  Un.isolate_orphan' s h u

/-- "try_connect ... otherwise fails and changes nothing", over two calls: whatever the first `try_connect` did,
    a second one for the same pair (any value) is refused and leaves the store exactly as the first left it -/
theorem Di.tryConnect_twice (s : Store K E) (u v : K) (e e' : E) :
    Di.tryConnect (Di.tryConnect s u v e).1 u v e' = ((Di.tryConnect s u v e).1, .exists_) :=
  Di.tryConnect_twice' s u v e e'

theorem Un.tryConnect_twice (s : Store K E) (u v : K) (e e' : E) :
    Un.tryConnect (Un.tryConnect s u v e).1 u v e' = ((Un.tryConnect s u v e).1, .exists_) :=
  Un.tryConnect_twice' s u v e e'

end G

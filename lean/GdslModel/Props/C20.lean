import GdslModel.Lemmas.Live
import GdslModel.Lemmas.LiveTerm
import GdslModel.Lemmas.SyncSeq
/-!
# C20 — graphs may be mutated from inside edge loops and traversal callbacks
`Model/Live.lean`: the loops thread an arbitrary program state `σ` through every call of the user
closure `cb`, which may do anything to it (connect, disconnect, isolate, container calls, nested
searches); iterators keep only a position and re-read the live list on every step.
(a) *No panic, no blocking*: the live loops are total functions of the state; in the plain flavours no
borrow survives a `next()`; in the sync flavours the iterator step holds no lock when it returns
(`Sync.iter_next_refines`, C15), so the closure may take any lock. (b) every edge handed out exists
in the graph at that moment; (c) operations never remove nodes, so handles stay valid (the store
keeps every cell); (d) loops end once the closure stops adding edges.
-/
namespace G
variable {K E σ : Type} [DecidableEq K]

/-- (b) iterators: every yielded edge is an entry of the iterated node's list in the state in which it was yielded -/
theorem Live.iter_yield_exists (c : LCfg σ K E) (u : K) (fuel pos : Nat) (st st' : σ) (log' : Log σ K E)
    (h : iterLoop c u fuel pos st [] = some (st', log')) :
    ∀ x ∈ log', x.1.1 = u ∧ (x.1.2.1, x.1.2.2) ∈ c.adj x.2 u :=
  Live.iter_yield_exists' c u fuel pos st st' log' h

/-- (b) traversals: every edge handed to the closure is an entry of its source's list in the state at that moment -/
theorem Live.search_yield_exists (adj : σ → K → List (K × E)) (cb : Nat → Edge K E → σ → σ × Bool) (nval : K → Int)
    (kind : Kind) (root : K) (target : Option K) (cycle : Bool) (fuel : Nat) (st st' : σ) (found : Bool) (ts : LSt σ K E)
    (h : runLoopL adj cb nval kind root target cycle fuel st = some (found, ts, st')) :
    ∀ x ∈ ts.log, (x.1.2.1, x.1.2.2) ∈ adj x.2 x.1.1 :=
  Live.search_yield_exists' adj cb nval kind root target cycle fuel st st' found ts h

theorem Live.order_yield_exists (adj : σ → K → List (K × E)) (cb : Nat → Edge K E → σ → σ × Bool) (post : Bool)
    (root : K) (fuel : Nat) (st st' : σ) (ts : LSt σ K E)
    (h : orderEdgesL adj cb post root fuel st = some (ts, st')) :
    ∀ x ∈ ts.log, (x.1.2.1, x.1.2.2) ∈ adj x.2 x.1.1 :=
  Live.order_yield_exists' adj cb post root fuel st st' ts h

/-- (d) an edge loop ends once the body stops adding edges to the iterated list: if from step `n` on the
    body never lengthens `u`'s list, then from any point after step `n` the loop needs at most
    `len − pos + 1` further steps -/
theorem Live.iter_terminates (c : LCfg σ K E) (u : K) (n : Nat)
    (hstop : ∀ i, n ≤ i → ∀ e st, (c.adj (c.cb i e st).1 u).length ≤ (c.adj st u).length)
    (fuel pos : Nat) (st : σ) (log : Log σ K E) (hn : n ≤ log.length)
    (hf : (c.adj st u).length - pos < fuel) :
    (iterLoop c u fuel pos st log).isSome = true :=
  Live.iter_terminates' c u n hstop fuel pos st log hn hf

/-- a closure that does not touch the graph sees exactly the traversal of `Model/Search.lean`: all of
    C04–C10 apply to it (same verdict, visited set, edge tree and callback trace) -/
theorem Live.search_eq_static (adj0 : K → List (K × E)) (acc : K → K → E → Bool)
    (adj : σ → K → List (K × E)) (cb : Nat → Edge K E → σ → σ × Bool)
    (hadj : ∀ st k, adj st k = adj0 k) (hacc : ∀ i e st, (cb i e st).2 = acc e.1 e.2.1 e.2.2)
    (nval : K → Int) (kind : Kind) (root : K) (target : Option K) (cycle : Bool) (fuel : Nat) (st : σ) (r : Run K E)
    (h : runLoop adj0 acc nval kind root target cycle fuel = some r) :
    ∃ F, ∀ fuelL, F ≤ fuelL → ∃ ts st',
      runLoopL adj cb nval kind root target cycle fuelL st = some (r.found, ts, st') ∧
      ts.vis = r.st.vis ∧ ts.tree = r.st.tree ∧ ts.log.map (·.1) = r.st.trace :=
  Live.search_eq_static' adj0 acc adj cb hadj hacc nval kind root target cycle fuel st r h

theorem Live.order_eq_static (adj0 : K → List (K × E)) (acc : K → K → E → Bool)
    (adj : σ → K → List (K × E)) (cb : Nat → Edge K E → σ → σ × Bool)
    (hadj : ∀ st k, adj st k = adj0 k) (hacc : ∀ i e st, (cb i e st).2 = acc e.1 e.2.1 e.2.2)
    (post : Bool) (root : K) (fuel : Nat) (st : σ) (t : TSt K E)
    (h : orderEdges adj0 acc post root fuel = some t) :
    ∃ F, ∀ fuelL, F ≤ fuelL → ∃ ts st',
      orderEdgesL adj cb post root fuelL st = some (ts, st') ∧
      ts.vis = t.vis ∧ ts.tree = t.tree ∧ ts.log.map (·.1) = t.trace :=
  Live.order_eq_static' adj0 acc adj cb hadj hacc post root fuel st t h

/-- (a), sync flavours: an iterator step returns holding no lock, whatever the caller already holds
    is untouched, so a closure that runs between two steps can acquire any lock -/
theorem Live.sync_iter_holds_nothing (u : K) (sel : Adj K E → List (K × E)) (pos : Nat) (s : Store K E) (fuel : Nat) (hf : 4 ≤ fuel) :
    runSingle fuel (Sync.iterNext u sel pos) s [] [] = some (s, (sel (s.get u))[pos]?, [(.node u, .r, 0)]) :=
  Sync.query_refines' u _ s [] (by simp [canAcquire]) fuel hf

/-! ### (d) for traversals: they end once the closure stops adding edges

`nodes` is a finite universe: in every state every adjacency entry names a member. A node is expanded
at most once and its live list is read positionally, so once no list grows any more the fuel below
suffices. The `_inv` forms only ask this of the states satisfying an invariant `I` that the closure
preserves, and only of the lists of members. -/

/-- (d) searches (bfs, dfs, pfs-min, pfs-max; plain, with target, cycle mode): if the closure never lengthens
    a list and every list has at most `B` entries at the start, `(|nodes| + 1) · (B + 2)` fuel is enough -/
theorem Live.search_terminates (adj : σ → K → List (K × E)) (cb : Nat → Edge K E → σ → σ × Bool) (nval : K → Int)
    (kind : Kind) (root : K) (target : Option K) (cycle : Bool) (nodes : List K) (B : Nat) (st0 : σ)
    (hclosed : ∀ st u p, p ∈ adj st u → p.1 ∈ nodes) (hroot : root ∈ nodes)
    (hstop : ∀ i e st u, (adj (cb i e st).1 u).length ≤ (adj st u).length)
    (hB : ∀ u, (adj st0 u).length ≤ B) (fuel : Nat) (hf : (nodes.length + 1) * (B + 2) ≤ fuel) :
    (runLoopL adj cb nval kind root target cycle fuel st0).isSome = true :=
  Live.search_terminates_inv' adj cb nval kind root target cycle nodes (fun _ => True) B st0 hroot trivial
    (fun _ _ _ _ => trivial) (fun st _ u _ p hp => hclosed st u p hp) (fun i e st _ u _ => hstop i e st u)
    (fun u _ => hB u) fuel hf

/-- (d) orderings (pre and post) -/
theorem Live.order_terminates (adj : σ → K → List (K × E)) (cb : Nat → Edge K E → σ → σ × Bool) (post : Bool)
    (root : K) (nodes : List K) (B : Nat) (st0 : σ)
    (hclosed : ∀ st u p, p ∈ adj st u → p.1 ∈ nodes) (hroot : root ∈ nodes)
    (hstop : ∀ i e st u, (adj (cb i e st).1 u).length ≤ (adj st u).length)
    (hB : ∀ u, (adj st0 u).length ≤ B) (fuel : Nat) (hf : (nodes.length + 1) * (B + 2) ≤ fuel) :
    (orderEdgesL adj cb post root fuel st0).isSome = true :=
  Live.order_terminates_inv' adj cb post root nodes (fun _ => True) B st0 hroot trivial
    (fun _ _ _ _ => trivial) (fun st _ u _ p hp => hclosed st u p hp) (fun i e st _ u _ => hstop i e st u)
    (fun u _ => hB u) fuel hf

/-- (d) searches, relative to a state invariant `I` kept by the closure; only members' lists matter -/
theorem Live.search_terminates_inv (adj : σ → K → List (K × E)) (cb : Nat → Edge K E → σ → σ × Bool) (nval : K → Int)
    (kind : Kind) (root : K) (target : Option K) (cycle : Bool) (nodes : List K) (I : σ → Prop) (B : Nat) (st0 : σ)
    (hroot : root ∈ nodes) (hI0 : I st0) (hI : ∀ i e st, I st → I (cb i e st).1)
    (hclosed : ∀ st, I st → ∀ u ∈ nodes, ∀ p ∈ adj st u, p.1 ∈ nodes)
    (hstop : ∀ i e st, I st → ∀ u ∈ nodes, (adj (cb i e st).1 u).length ≤ (adj st u).length)
    (hB : ∀ u ∈ nodes, (adj st0 u).length ≤ B) (fuel : Nat) (hf : (nodes.length + 1) * (B + 2) ≤ fuel) :
    (runLoopL adj cb nval kind root target cycle fuel st0).isSome = true :=
  Live.search_terminates_inv' adj cb nval kind root target cycle nodes I B st0 hroot hI0 hI hclosed hstop hB fuel hf

theorem Live.order_terminates_inv (adj : σ → K → List (K × E)) (cb : Nat → Edge K E → σ → σ × Bool) (post : Bool)
    (root : K) (nodes : List K) (I : σ → Prop) (B : Nat) (st0 : σ)
    (hroot : root ∈ nodes) (hI0 : I st0) (hI : ∀ i e st, I st → I (cb i e st).1)
    (hclosed : ∀ st, I st → ∀ u ∈ nodes, ∀ p ∈ adj st u, p.1 ∈ nodes)
    (hstop : ∀ i e st, I st → ∀ u ∈ nodes, (adj (cb i e st).1 u).length ≤ (adj st u).length)
    (hB : ∀ u ∈ nodes, (adj st0 u).length ≤ B) (fuel : Nat) (hf : (nodes.length + 1) * (B + 2) ≤ fuel) :
    (orderEdgesL adj cb post root fuel st0).isSome = true :=
  Live.order_terminates_inv' adj cb post root nodes I B st0 hroot hI0 hI hclosed hstop hB fuel hf

/-- (d) the queue-driven searches (bfs, pfs) need only linear fuel: one unit per pop (at most `|nodes| + 1`
    pops and the final empty one) plus one scan of at most `B + 1` reads -/
theorem Live.search_terminates_linear (adj : σ → K → List (K × E)) (cb : Nat → Edge K E → σ → σ × Bool) (nval : K → Int)
    (kind : Kind) (root : K) (target : Option K) (cycle : Bool) (nodes : List K) (I : σ → Prop) (B : Nat) (st0 : σ)
    (hk : kind ≠ .dfs)
    (hroot : root ∈ nodes) (hI0 : I st0) (hI : ∀ i e st, I st → I (cb i e st).1)
    (hclosed : ∀ st, I st → ∀ u ∈ nodes, ∀ p ∈ adj st u, p.1 ∈ nodes)
    (hstop : ∀ i e st, I st → ∀ u ∈ nodes, (adj (cb i e st).1 u).length ≤ (adj st u).length)
    (hB : ∀ u ∈ nodes, (adj st0 u).length ≤ B) (fuel : Nat) (hf : nodes.length + B + 3 ≤ fuel) :
    (runLoopL adj cb nval kind root target cycle fuel st0).isSome = true :=
  Live.search_terminates_lin' adj cb nval kind root target cycle nodes I B st0 hk hroot hI0 hI hclosed hstop hB fuel hf

/-! "once it stops", from an intermediate point of a run: the closure obeys the no-lengthening condition
only from call `n` on; at a point where `n ≤ ts.log.length` calls have been made and every member's list has
at most `B` entries, the rest of the loop ends within a bound that depends on that moment only: the
number of members not yet visited, `B`, and the position (resp. the queue length). -/

theorem Live.dfs_terminates_from (c : LCfg σ K E) (nodes : List K) (I : σ → Prop) (n : Nat)
    (hI : ∀ i e st, I st → I (c.cb i e st).1)
    (hclosed : ∀ st, I st → ∀ u ∈ nodes, ∀ p ∈ c.adj st u, p.1 ∈ nodes)
    (hstop : ∀ i, n ≤ i → ∀ e st, I st → ∀ u ∈ nodes, (c.adj (c.cb i e st).1 u).length ≤ (c.adj st u).length)
    (B fuel : Nat) (u : K) (pos : Nat) (ts : LSt σ K E) (st : σ) (hu : u ∈ nodes) (hst : I st)
    (hn : n ≤ ts.log.length) (hB : ∀ w ∈ nodes, (c.adj st w).length ≤ B)
    (hf : nodes.countP (fun x => decide (x ∉ ts.vis)) * (B + 2) + (B + 1 - pos) < fuel) :
    (dfsEdgesL c fuel u pos ts st).isSome = true := by
  obtain ⟨b, ts', st', h, _⟩ := Live.dfsEdgesL_term ⟨hclosed, hI, hstop⟩ B fuel u pos ts st hu ⟨hst, hn, hB⟩ hf
  rw [h]; rfl

theorem Live.order_terminates_from (c : LCfg σ K E) (post : Bool) (nodes : List K) (I : σ → Prop) (n : Nat)
    (hI : ∀ i e st, I st → I (c.cb i e st).1)
    (hclosed : ∀ st, I st → ∀ u ∈ nodes, ∀ p ∈ c.adj st u, p.1 ∈ nodes)
    (hstop : ∀ i, n ≤ i → ∀ e st, I st → ∀ u ∈ nodes, (c.adj (c.cb i e st).1 u).length ≤ (c.adj st u).length)
    (B fuel : Nat) (u : K) (pos : Nat) (ts : LSt σ K E) (st : σ) (hu : u ∈ nodes) (hst : I st)
    (hn : n ≤ ts.log.length) (hB : ∀ w ∈ nodes, (c.adj st w).length ≤ B)
    (hf : nodes.countP (fun x => decide (x ∉ ts.vis)) * (B + 2) + (B + 1 - pos) < fuel) :
    (ordEdgesL c post fuel u pos ts st).isSome = true := by
  obtain ⟨ts', st', h, _⟩ := Live.ordEdgesL_term ⟨hclosed, hI, hstop⟩ B post fuel u pos ts st hu ⟨hst, hn, hB⟩ hf
  rw [h]; rfl

theorem Live.bfs_terminates_from (c : LCfg σ K E) (nodes : List K) (I : σ → Prop) (n : Nat)
    (hI : ∀ i e st, I st → I (c.cb i e st).1)
    (hclosed : ∀ st, I st → ∀ u ∈ nodes, ∀ p ∈ c.adj st u, p.1 ∈ nodes)
    (hstop : ∀ i, n ≤ i → ∀ e st, I st → ∀ u ∈ nodes, (c.adj (c.cb i e st).1 u).length ≤ (c.adj st u).length)
    (B fuel : Nat) (q : List K) (ts : LSt σ K E) (st : σ) (hq : ∀ x ∈ q, x ∈ nodes) (hst : I st)
    (hn : n ≤ ts.log.length) (hB : ∀ w ∈ nodes, (c.adj st w).length ≤ B)
    (hf : q.length + nodes.countP (fun x => decide (x ∉ ts.vis)) + B + 1 < fuel) :
    (bfsLoopL c fuel q ts st).isSome = true := by
  obtain ⟨b, ts', st', h, _⟩ := Live.bfsLoopL_term ⟨hclosed, hI, hstop⟩ B fuel q ts st ⟨hst, hn, hB⟩ hq hf
  rw [h]; rfl

theorem Live.pfs_terminates_from (c : LCfg σ K E) (prio : K → Int) (nodes : List K) (I : σ → Prop) (n : Nat)
    (hI : ∀ i e st, I st → I (c.cb i e st).1)
    (hclosed : ∀ st, I st → ∀ u ∈ nodes, ∀ p ∈ c.adj st u, p.1 ∈ nodes)
    (hstop : ∀ i, n ≤ i → ∀ e st, I st → ∀ u ∈ nodes, (c.adj (c.cb i e st).1 u).length ≤ (c.adj st u).length)
    (B fuel : Nat) (h : List (K × Int)) (ts : LSt σ K E) (st : σ) (hq : ∀ x ∈ h, x.1 ∈ nodes) (hst : I st)
    (hn : n ≤ ts.log.length) (hB : ∀ w ∈ nodes, (c.adj st w).length ≤ B)
    (hf : h.length + nodes.countP (fun x => decide (x ∉ ts.vis)) + B + 1 < fuel) :
    (pfsLoopL c prio fuel h ts st).isSome = true := by
  obtain ⟨b, ts', st', h', _⟩ := Live.pfsLoopL_term ⟨hclosed, hI, hstop⟩ B prio fuel h ts st ⟨hst, hn, hB⟩ hq hf
  rw [h']; rfl

/-- (d) "once it stops", whole runs: the closure may lengthen lists during its first `n` calls (inside the
    universe); if it never does from call `n` on, the search ends: some fuel suffices, and every larger fuel
    gives the same result -/
theorem Live.search_terminates_eventually (adj : σ → K → List (K × E)) (cb : Nat → Edge K E → σ → σ × Bool)
    (nval : K → Int) (kind : Kind) (root : K) (target : Option K) (cycle : Bool) (nodes : List K) (I : σ → Prop)
    (n : Nat) (st0 : σ)
    (hroot : root ∈ nodes) (hI0 : I st0) (hI : ∀ i e st, I st → I (cb i e st).1)
    (hclosed : ∀ st, I st → ∀ u ∈ nodes, ∀ p ∈ adj st u, p.1 ∈ nodes)
    (hstop : ∀ i, n ≤ i → ∀ e st, I st → ∀ u ∈ nodes, (adj (cb i e st).1 u).length ≤ (adj st u).length) :
    ∃ F r, ∀ fuel, F ≤ fuel → runLoopL adj cb nval kind root target cycle fuel st0 = some r :=
  Live.search_terminates_eventually' adj cb nval kind root target cycle nodes I n st0 hroot hI0 hI hclosed hstop

theorem Live.order_terminates_eventually (adj : σ → K → List (K × E)) (cb : Nat → Edge K E → σ → σ × Bool)
    (post : Bool) (root : K) (nodes : List K) (I : σ → Prop) (n : Nat) (st0 : σ)
    (hroot : root ∈ nodes) (hI0 : I st0) (hI : ∀ i e st, I st → I (cb i e st).1)
    (hclosed : ∀ st, I st → ∀ u ∈ nodes, ∀ p ∈ adj st u, p.1 ∈ nodes)
    (hstop : ∀ i, n ≤ i → ∀ e st, I st → ∀ u ∈ nodes, (adj (cb i e st).1 u).length ≤ (adj st u).length) :
    ∃ F r, ∀ fuel, F ≤ fuel → orderEdgesL adj cb post root fuel st0 = some r :=
  Live.order_terminates_eventually' adj cb post root nodes I n st0 hroot hI0 hI hclosed hstop

/-- an iterator is a position: suspended at position `pos` and resumed in a state the loop body does not change, it
    hands out exactly the entries from `pos` on of the list as it is then (whatever the list was when the iterator was
    created or last stepped) -/
theorem Live.iter_resumes (c : LCfg σ K E) (u : K) (st : σ) (hcb : ∀ i e, (c.cb i e st).1 = st)
    (fuel pos : Nat) (log : Log σ K E) (hf : (c.adj st u).length - pos < fuel) :
    iterLoop c u fuel pos st log
      = some (st, log ++ ((c.adj st u).drop pos).map fun p => ((u, p.1, p.2), st)) := by
  induction fuel generalizing pos log with
  | zero => omega
  | succ fuel ih =>
    unfold iterLoop
    cases h : (c.adj st u)[pos]? with
    | none =>
      have hp : (c.adj st u).length ≤ pos := by
        rcases Nat.lt_or_ge pos (c.adj st u).length with hlt | hge
        · simp [List.getElem?_eq_getElem hlt] at h
        · exact hge
      simp [List.drop_eq_nil_of_le hp]
    | some ve =>
      obtain ⟨v, e⟩ := ve
      have hlt : pos < (c.adj st u).length := by
        rcases Nat.lt_or_ge pos (c.adj st u).length with hlt | hge
        · exact hlt
        · simp [List.getElem?_eq_none hge] at h
      have hget : (c.adj st u)[pos] = (v, e) := by
        have := List.getElem?_eq_getElem hlt
        rw [this] at h
        exact Option.some.inj h
      simp only [hcb]
      rw [ih (pos + 1) (log ++ [((u, v, e), st)]) (by omega)]
      have hd : (c.adj st u).drop pos = (v, e) :: (c.adj st u).drop (pos + 1) := by
        rw [← hget]; exact (List.drop_eq_getElem_cons hlt)
      simp [hd, List.append_assoc]

end G

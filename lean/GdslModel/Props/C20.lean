import GdslModel.Lemmas.Live
import GdslModel.Lemmas.SyncSeq
/-!
# C20 — graphs may be mutated from inside edge loops and traversal callbacks
`Model/Live.lean`: the loops thread an arbitrary program state `σ` through every call of the user
closure `cb`, which may do anything to it (connect, disconnect, isolate, container calls, nested
searches); iterators keep only a position and re-read the live list on every step.
(a) *No panic, no blocking*: the live loops are total functions of the state; in the plain flavours no
borrow survives a `next()`; in the sync flavours the iterator step holds no lock when it returns
(`Sync.iter_next_refines`, C15), so the closure may take any lock. (b) every edge handed out exists
in the graph at that moment; (c) operations never remove nodes, so handles stay valid (the store
keeps every cell); (d) loops end once the closure stops adding edges.
-/
namespace G
variable {K E σ : Type} [DecidableEq K]

/-- (b) iterators: every yielded edge is an entry of the iterated node's list in the state in which it was yielded -/
theorem Live.iter_yield_exists (c : LCfg σ K E) (u : K) (fuel pos : Nat) (st st' : σ) (log' : Log σ K E)
    (h : iterLoop c u fuel pos st [] = some (st', log')) :
    ∀ x ∈ log', x.1.1 = u ∧ (x.1.2.1, x.1.2.2) ∈ c.adj x.2 u :=
  Live.iter_yield_exists' c u fuel pos st st' log' h

/-- (b) traversals: every edge handed to the closure is an entry of its source's list in the state at that moment -/
theorem Live.search_yield_exists (adj : σ → K → List (K × E)) (cb : Nat → Edge K E → σ → σ × Bool) (nval : K → Int)
    (kind : Kind) (root : K) (target : Option K) (cycle : Bool) (fuel : Nat) (st st' : σ) (found : Bool) (ts : LSt σ K E)
    (h : runLoopL adj cb nval kind root target cycle fuel st = some (found, ts, st')) :
    ∀ x ∈ ts.log, (x.1.2.1, x.1.2.2) ∈ adj x.2 x.1.1 :=
  Live.search_yield_exists' adj cb nval kind root target cycle fuel st st' found ts h

theorem Live.order_yield_exists (adj : σ → K → List (K × E)) (cb : Nat → Edge K E → σ → σ × Bool) (post : Bool)
    (root : K) (fuel : Nat) (st st' : σ) (ts : LSt σ K E)
    (h : orderEdgesL adj cb post root fuel st = some (ts, st')) :
    ∀ x ∈ ts.log, (x.1.2.1, x.1.2.2) ∈ adj x.2 x.1.1 :=
  Live.order_yield_exists' adj cb post root fuel st st' ts h

/-- (d) an edge loop ends once the body stops adding edges to the iterated list: if from step `n` on the
    body never lengthens `u`'s list, then from any point after step `n` the loop needs at most
    `len − pos + 1` further steps -/
theorem Live.iter_terminates (c : LCfg σ K E) (u : K) (n : Nat)
    (hstop : ∀ i, n ≤ i → ∀ e st, (c.adj (c.cb i e st).1 u).length ≤ (c.adj st u).length)
    (fuel pos : Nat) (st : σ) (log : Log σ K E) (hn : n ≤ log.length)
    (hf : (c.adj st u).length - pos < fuel) :
    (iterLoop c u fuel pos st log).isSome = true :=
  Live.iter_terminates' c u n hstop fuel pos st log hn hf

/-- a closure that does not touch the graph sees exactly the traversal of `Model/Search.lean`: all of
    C04–C10 apply to it (same verdict, visited set, edge tree and callback trace) -/
theorem Live.search_eq_static (adj0 : K → List (K × E)) (acc : K → K → E → Bool)
    (adj : σ → K → List (K × E)) (cb : Nat → Edge K E → σ → σ × Bool)
    (hadj : ∀ st k, adj st k = adj0 k) (hacc : ∀ i e st, (cb i e st).2 = acc e.1 e.2.1 e.2.2)
    (nval : K → Int) (kind : Kind) (root : K) (target : Option K) (cycle : Bool) (fuel : Nat) (st : σ) (r : Run K E)
    (h : runLoop adj0 acc nval kind root target cycle fuel = some r) :
    ∃ F, ∀ fuelL, F ≤ fuelL → ∃ ts st',
      runLoopL adj cb nval kind root target cycle fuelL st = some (r.found, ts, st') ∧
      ts.vis = r.st.vis ∧ ts.tree = r.st.tree ∧ ts.log.map (·.1) = r.st.trace :=
  Live.search_eq_static' adj0 acc adj cb hadj hacc nval kind root target cycle fuel st r h

theorem Live.order_eq_static (adj0 : K → List (K × E)) (acc : K → K → E → Bool)
    (adj : σ → K → List (K × E)) (cb : Nat → Edge K E → σ → σ × Bool)
    (hadj : ∀ st k, adj st k = adj0 k) (hacc : ∀ i e st, (cb i e st).2 = acc e.1 e.2.1 e.2.2)
    (post : Bool) (root : K) (fuel : Nat) (st : σ) (t : TSt K E)
    (h : orderEdges adj0 acc post root fuel = some t) :
    ∃ F, ∀ fuelL, F ≤ fuelL → ∃ ts st',
      orderEdgesL adj cb post root fuelL st = some (ts, st') ∧
      ts.vis = t.vis ∧ ts.tree = t.tree ∧ ts.log.map (·.1) = t.trace :=
  Live.order_eq_static' adj0 acc adj cb hadj hacc post root fuel st t h

/-- (a), sync flavours: an iterator step returns holding no lock, whatever the caller already holds
    is untouched, so a closure that runs between two steps can acquire any lock -/
theorem Live.sync_iter_holds_nothing (u : K) (sel : Adj K E → List (K × E)) (pos : Nat) (s : Store K E) (fuel : Nat) (hf : 4 ≤ fuel) :
    runSingle fuel (Sync.iterNext u sel pos) s [] [] = some (s, (sel (s.get u))[pos]?, [(.node u, .r, 0)]) :=
  Sync.query_refines' u _ s [] (by simp [canAcquire]) fuel hf

end G

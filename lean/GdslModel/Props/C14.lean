import GdslModel.Lemmas.Serde
/-!
# C14 — construction macros build exactly the graph they denote
`macroBuild listed` is the body of a `digraph!`/`ungraph!`/`sync_*graph!` arm as a function of the
listed `(NODE, NPARAM) => [(EDGE, EPARAM), …]` entries (unit values are the `()` instances); the
real `macro_rules!` expansion is exercised by generated programs (correspondence).
-/
namespace G
variable {K E N : Type} [DecidableEq K]

def listedEdges (listed : List ((K × N) × List (K × E))) : List (K × K × E) :=
  listed.flatMap (fun x => x.2.map (fun p => (x.1.1, p.1, p.2)))

/-- every edge endpoint is listed ⇒ exactly the listed nodes (first listing of a key wins) and, per
    node, exactly its listed edges in listed order; the result is mirrored -/
theorem Macro.build_spec (listed : List ((K × N) × List (K × E)))
    (hall : ∀ x ∈ listedEdges listed, x.1 ∈ listed.map (·.1.1) ∧ x.2.1 ∈ listed.map (·.1.1)) :
    ∃ s, macroBuild listed = .ok (rebuildNodes (listed.map (·.1)) []) s ∧ Mirror s ∧
      (∀ k, (s.get k).out = ((listedEdges listed).filter (fun x => x.1 = k)).map (fun x => (x.2.1, x.2.2))) ∧
      (∀ k, (s.get k).inn = ((listedEdges listed).filter (fun x => x.2.1 = k)).map (fun x => (x.1, x.2.2))) :=
  Macro.build_spec' listed hall

/-- an edge naming an unlisted key makes the macro panic, naming the first such key in
    (edge order, source before target) -/
theorem Macro.panic_first_missing (listed : List ((K × N) × List (K × E))) (pre post : List (K × K × E))
    (x : K × K × E) (hsplit : listedEdges listed = pre ++ x :: post)
    (hpre : ∀ y ∈ pre, y.1 ∈ listed.map (·.1.1) ∧ y.2.1 ∈ listed.map (·.1.1))
    (hx : x.1 ∉ listed.map (·.1.1) ∨ x.2.1 ∉ listed.map (·.1.1)) :
    macroBuild listed = .panic (if x.1 ∉ listed.map (·.1.1) then x.1 else x.2.1) :=
  Macro.panic_first_missing' listed pre post x hsplit hpre hx

end G

import GdslModel.Lemmas.Serde
/-!
# C13 — deserialising untrusted input (structural layer)
The document is already parsed into the two lists the visitor sees (missing elements default to
empty lists); byte-level parsing by serde_json / serde_cbor is outside the model.
`rebuild` has no panic outcome: it returns `none` (= `Err`) or a graph.
-/
namespace G
variable {K E N : Type} [DecidableEq K]

/-- an edge naming an undeclared key is always an error, and that is the only error -/
theorem Serde.undeclared_is_error (nodes : List (K × N)) (edges : List (K × K × E)) :
    rebuild nodes edges = none ↔
      ∃ x ∈ edges, (x.1 ∉ nodes.map (·.1)) ∨ (x.2.1 ∉ nodes.map (·.1)) :=
  Serde.undeclared_is_error' nodes edges

/-- repeated keys: the first declaration wins, every declared key is kept once -/
theorem Serde.first_key_wins (nodes : List (K × N)) (edges : List (K × K × E)) (ns : List (K × N)) (s : Store K E)
    (h : rebuild nodes edges = some (ns, s)) :
    (ns.map (·.1)).Nodup ∧ (∀ k, k ∈ ns.map (·.1) ↔ k ∈ nodes.map (·.1)) ∧
    ∀ k, ns.find? (fun p => p.1 = k) = nodes.find? (fun p => p.1 = k) :=
  Serde.first_key_wins' nodes edges ns s h

/-- an `Ok` graph is mirrored, its nodes come from the document, and every node's outgoing (incoming)
    list is exactly the listed edges from (to) it, in document order -/
theorem Serde.ok_is_wellformed (nodes : List (K × N)) (edges : List (K × K × E)) (ns : List (K × N)) (s : Store K E)
    (h : rebuild nodes edges = some (ns, s)) :
    Mirror s ∧ (∀ p ∈ ns, p ∈ nodes) ∧
    (∀ k, (s.get k).out = (edges.filter (fun x => x.1 = k)).map (fun x => (x.2.1, x.2.2))) ∧
    (∀ k, (s.get k).inn = (edges.filter (fun x => x.2.1 = k)).map (fun x => (x.1, x.2.2))) :=
  Serde.ok_is_wellformed' nodes edges ns s h

example : rebuild [((0 : Nat), (1 : Int)), (1, 2), (0, 9)] [(0, 1, (5 : Nat)), (1, 1, 6)] =
    some ([(0, 1), (1, 2)], connect (connect {} 0 1 5) 1 1 6) := by rfl
example : rebuild [((0 : Nat), (1 : Int))] [(0, 7, (5 : Nat))] = none := by rfl

end G

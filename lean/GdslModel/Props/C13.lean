import GdslModel.Lemmas.Serde
import GdslModel.Lemmas.Json
import GdslModel.Lemmas.Cbor
/-!
# C13 — deserialising untrusted input (structural layer)
The document is already parsed into the two lists the visitor sees (missing elements default to
empty lists); byte-level parsing by serde_json / serde_cbor is outside the model.
`rebuild` has no panic outcome: it returns `none` (= `Err`) or a graph.
-/
namespace G
variable {K E N : Type} [DecidableEq K]

/-- an edge naming an undeclared key is always an error, and that is the only error -/
theorem Serde.undeclared_is_error (nodes : List (K × N)) (edges : List (K × K × E)) :
    rebuild nodes edges = none ↔
      ∃ x ∈ edges, (x.1 ∉ nodes.map (·.1)) ∨ (x.2.1 ∉ nodes.map (·.1)) :=
  Serde.undeclared_is_error' nodes edges

/-- repeated keys: the first declaration wins, every declared key is kept once -/
theorem Serde.first_key_wins (nodes : List (K × N)) (edges : List (K × K × E)) (ns : List (K × N)) (s : Store K E)
    (h : rebuild nodes edges = some (ns, s)) :
    (ns.map (·.1)).Nodup ∧ (∀ k, k ∈ ns.map (·.1) ↔ k ∈ nodes.map (·.1)) ∧
    ∀ k, ns.find? (fun p => p.1 = k) = nodes.find? (fun p => p.1 = k) :=
  Serde.first_key_wins' nodes edges ns s h

/-- an `Ok` graph is mirrored, its nodes come from the document, and every node's outgoing (incoming)
    list is exactly the listed edges from (to) it, in document order -/
theorem Serde.ok_is_wellformed (nodes : List (K × N)) (edges : List (K × K × E)) (ns : List (K × N)) (s : Store K E)
    (h : rebuild nodes edges = some (ns, s)) :
    Mirror s ∧ (∀ p ∈ ns, p ∈ nodes) ∧
    (∀ k, (s.get k).out = (edges.filter (fun x => x.1 = k)).map (fun x => (x.2.1, x.2.2))) ∧
    (∀ k, (s.get k).inn = (edges.filter (fun x => x.2.1 = k)).map (fun x => (x.1, x.2.2))) :=
  Serde.ok_is_wellformed' nodes edges ns s h

example : rebuild [((0 : Nat), (1 : Int)), (1, 2), (0, 9)] [(0, 1, (5 : Nat)), (1, 1, 6)] =
    some ([(0, 1), (1, 2)], connect (connect {} 0 1 5) 1 1 6) := by rfl
example : rebuild [((0 : Nat), (1 : Int))] [(0, 7, (5 : Nat))] = none := by rfl

/-! ## byte level (JSON)
`Json.deJson` is a total function from byte strings: it has no panic outcome. Whatever it accepts went through
the grammar of `Model/Json.lean` and then through the visitor, so the structural theorems above apply to it. -/

/-- an accepted byte string denotes a document whose payloads fit their types -/
theorem Json.parse_inrange (bs : List Nat) (d : Json.Doc) (h : Json.parse bs = some d) : Json.InRange d :=
  Json.parse_inrange' bs d h

/-- `Ok` from bytes: the bytes denote a document `d`, the graph is mirrored, its nodes come from `d` and every
    node's lists are exactly the edges `d` lists, in document order -/
theorem Json.de_ok_wellformed (bs : List Nat) (ns : List (Nat × Int)) (s : Store Nat Nat)
    (h : Json.deJson bs = some (ns, s)) :
    ∃ d, Json.parse bs = some d ∧ Mirror s ∧ (∀ p ∈ ns, p ∈ d.1) ∧
      (∀ k, (s.get k).out = (d.2.filter (fun x => x.1 = k)).map (fun x => (x.2.1, x.2.2))) ∧
      (∀ k, (s.get k).inn = (d.2.filter (fun x => x.2.1 = k)).map (fun x => (x.1, x.2.2))) :=
  Json.de_ok_wellformed' bs ns s h

/-- an error exactly when the bytes are outside the grammar or an edge names an undeclared key -/
theorem Json.de_error_iff (bs : List Nat) :
    Json.deJson bs = none ↔
      Json.parse bs = none ∨ ∃ d, Json.parse bs = some d ∧ ∃ x ∈ d.2, (x.1 ∉ d.1.map (·.1)) ∨ (x.2.1 ∉ d.1.map (·.1)) :=
  Json.de_error_iff' bs

/-- white space around a document does not matter -/
theorem Json.parse_ws (pre post bs : List Nat) (hpre : ∀ b ∈ pre, Json.isWs b = true) (hpost : ∀ b ∈ post, Json.isWs b = true) :
    Json.parse (pre ++ bs ++ post) = Json.parse bs :=
  Json.parse_ws' pre post bs hpre hpost

/-- a truncated document is an error: no proper prefix of a written document is accepted -/
theorem Json.truncated_is_error (d : Json.Doc) (h : Json.InRange d) (n : Nat) (hn : n < (Json.print d).length) :
    Json.parse ((Json.print d).take n) = none :=
  Json.truncated_is_error' d h n hn

example : Json.deJson [91, 91, 91, 48, 44, 49, 93, 93, 44, 91, 91, 48, 44, 55, 44, 53, 93, 93, 93] = none := by decide
example : (Json.deJson [91, 91, 91, 48, 44, 49, 93, 93, 44, 91, 91, 48, 44, 48, 44, 53, 93, 93, 93]).isSome = true := by decide

/-! ## byte level (CBOR)
`Cbor.deCbor` is a total function from byte strings as well. -/

/-- an accepted byte string denotes a document whose payloads fit their types -/
theorem Cbor.parse_inrange (bs : List Nat) (d : Cbor.Doc) (h : Cbor.parse bs = some d) : Json.InRange d :=
  Cbor.parse_inrange' bs d h

theorem Cbor.de_ok_wellformed (bs : List Nat) (ns : List (Nat × Int)) (s : Store Nat Nat)
    (h : Cbor.deCbor bs = some (ns, s)) :
    ∃ d, Cbor.parse bs = some d ∧ Mirror s ∧ (∀ p ∈ ns, p ∈ d.1) ∧
      (∀ k, (s.get k).out = (d.2.filter (fun x => x.1 = k)).map (fun x => (x.2.1, x.2.2))) ∧
      (∀ k, (s.get k).inn = (d.2.filter (fun x => x.2.1 = k)).map (fun x => (x.1, x.2.2))) :=
  Cbor.de_ok_wellformed' bs ns s h

theorem Cbor.de_error_iff (bs : List Nat) :
    Cbor.deCbor bs = none ↔
      Cbor.parse bs = none ∨ ∃ d, Cbor.parse bs = some d ∧ ∃ x ∈ d.2, (x.1 ∉ d.1.map (·.1)) ∨ (x.2.1 ∉ d.1.map (·.1)) :=
  Cbor.de_error_iff' bs

/-- a truncated document is an error: no proper prefix of a written document is accepted -/
theorem Cbor.truncated_is_error (d : Cbor.Doc) (h : Json.InRange d) (hl : d.1.length < 2 ^ 64 ∧ d.2.length < 2 ^ 64)
    (n : Nat) (hn : n < (Cbor.print d).length) :
    Cbor.parse ((Cbor.print d).take n) = none :=
  Cbor.truncated_is_error' d h hl n hn

/-- bytes after a written document are an error -/
theorem Cbor.trailing_is_error (d : Cbor.Doc) (h : Json.InRange d) (hl : d.1.length < 2 ^ 64 ∧ d.2.length < 2 ^ 64)
    (b : Nat) (rest : List Nat) :
    Cbor.parse (Cbor.print d ++ b :: rest) = none :=
  Cbor.trailing_is_error' d h hl b rest

-- a node list that declares 2^32-1 entries and then ends (the input of seeded change C13-3): an error, not a crash
example : Cbor.deCbor [0x82, 0x9a, 0xff, 0xff, 0xff, 0xff, 0x82, 0x00, 0x01] = none := by decide +kernel
example : (Cbor.deCbor [0x9f, 0x81, 0x82, 0x00, 0x18, 0x07, 0x9f, 0x83, 0xc1, 0x00, 0x19, 0x00, 0x00, 0x05, 0xff, 0xff]).isSome = true := by decide +kernel

end G

import GdslModel.Lemmas.Di
import GdslModel.Lemmas.Extra
import GdslModel.Model.Builder
/-!
# C08 — transpose() searches the edge-reversed graph
In the model every traversal is a function of the adjacency it iterates. A configuration with
`transpose()` iterates `inAdj s` and reports the stored edge `u → v : e` found in `v`'s incoming
list as `Edge(v, u, e)`; without it, `outAdj s`. The theorems say: (1) `inAdj s` *is* the
outgoing adjacency of the store with the two lists of every node exchanged, so every transposed
run is literally the plain run on `swapStore s`; (2) under the mirror invariant (C01) `swapStore s`
is the edge-reversed graph; (3) a plain run depends on outgoing lists only. That the real code
selects the lists this way (and nowhere else looks at the other list) is what the correspondence
and the reversed-graph oracle check for all 30 configurations.
-/
namespace G
variable {K E : Type} [DecidableEq K]

theorem Transpose.eq_swap (s : Store K E) : inAdj s = outAdj (swapStore s) ∧ outAdj s = inAdj (swapStore s) :=
  Transpose.eq_swap' s

/-- every search, cycle search and ordering with `transpose()` equals the same one without it on `swapStore s` -/
theorem Transpose.run_eq_swap (s : Store K E) (acc : K → K → E → Bool) (nval : K → Int) (kind : Kind)
    (root : K) (target : Option K) (cycle : Bool) (fuel : Nat) (post : Bool) :
    runLoop (inAdj s) acc nval kind root target cycle fuel = runLoop (outAdj (swapStore s)) acc nval kind root target cycle fuel ∧
    orderEdges (inAdj s) acc post root fuel = orderEdges (outAdj (swapStore s)) acc post root fuel := by
  rw [(Transpose.eq_swap' s).1]; exact ⟨rfl, rfl⟩

/-- with mirrored lists the swapped store is the edge-reversed graph: `v` lists `u` (value `e`) in
    `swapStore s` exactly when `u` lists `v` (value `e`) in `s` -/
theorem Transpose.swap_reverses (s : Store K E) (h : Mirror s) (u v : K) (e : E) :
    (u, e) ∈ outAdj (swapStore s) v ↔ (v, e) ∈ outAdj s u :=
  Transpose.swap_reverses' s h u v e

/-- without `transpose()` no incoming edge is ever followed: runs on stores with the same outgoing lists coincide -/
theorem Forward.ignores_inbound (s s' : Store K E) (h : ∀ k, (s.get k).out = (s'.get k).out)
    (acc : K → K → E → Bool) (nval : K → Int) (kind : Kind) (root : K) (target : Option K) (cycle : Bool)
    (fuel : Nat) (post : Bool) :
    runLoop (outAdj s) acc nval kind root target cycle fuel = runLoop (outAdj s') acc nval kind root target cycle fuel ∧
    orderEdges (outAdj s) acc post root fuel = orderEdges (outAdj s') acc post root fuel := by
  have : outAdj s = outAdj s' := funext (fun k => h k)
  rw [this]; exact ⟨rfl, rfl⟩

/-- with mirrored lists, what a transposed traversal reaches from `a` is exactly what reaches `a`
    along the stored edges: reachability in the incoming adjacency is reachability against the edge direction -/
theorem Transpose.reach_reverse (s : Store K E) (h : Mirror s) (a b : K) :
    Reach (inAdj s) a b ↔ Reach (outAdj s) b a := by
  constructor
  · exact reach_reverse_of (fun u v e he => (mem_inn_iff_mem_out s h v u e).mp he)
  · exact reach_reverse_of (fun u v e he => (mem_inn_iff_mem_out s h u v e).mpr he)

/-- the same with a filter: a transposed search hands the stored edge `u → v : e` to the filter as
    `(v, u, e)`, so it walks, backwards, the stored edges `u → v : e` with `acc v u e` -/
theorem Transpose.reach_reverse_filter (s : Store K E) (h : Mirror s) (acc : K → K → E → Bool) (a b : K) :
    Reach (accAdj (inAdj s) acc) a b ↔ Reach (accAdj (outAdj s) (fun u v e => acc v u e)) b a :=
  reach_inn_iff s h acc a b

/-! ### the builder: the order of the configuration calls does not matter
`transpose()`, `min()`/`max()` and `target()` each set one field of the builder (`Model/Builder.lean`). -/

/-- two compatible calls commute -/
theorem Builder.apply_comm (c : BCfg K) (a b : BStep K) (h : a.compatible b = true) :
    (c.apply a).apply b = (c.apply b).apply a := by
  cases a <;> cases b <;> simp_all [BCfg.apply, BStep.compatible]

/-- any two orders of the same pairwise compatible calls build the same configuration: in particular
    `.transpose().max()` is `.max().transpose()`, with or without a target in between -/
theorem Builder.order_irrelevant (steps steps' : List (BStep K)) (hp : steps.Perm steps')
    (hc : ∀ a ∈ steps, ∀ b ∈ steps, a.compatible b = true) :
    BCfg.build steps = BCfg.build steps' := by
  unfold BCfg.build
  exact hp.foldl_eq' (fun a ha b hb z => Builder.apply_comm z a b (hc a ha b hb)) _

/-- a transposed builder follows the incoming lists whatever else was configured and in whatever order -/
theorem Builder.transpose_sticks (steps : List (BStep K)) (c : BCfg K)
    (h : c.tr = true ∨ BStep.transpose ∈ steps) : (steps.foldl BCfg.apply c).tr = true := by
  induction steps generalizing c with
  | nil =>
    rcases h with h | h
    · exact h
    · cases h
  | cons s rest ih =>
    simp only [List.foldl_cons]
    apply ih
    rcases h with h | h
    · left; cases s <;> simp [BCfg.apply, h]
    · rcases List.mem_cons.mp h with rfl | h
      · left; simp [BCfg.apply]
      · right; exact h

/-- `transpose()` sets the direction, it does not toggle it: calling it again changes nothing -/
theorem Builder.transpose_idempotent (c : BCfg K) :
    (c.apply .transpose).apply .transpose = c.apply .transpose := by
  simp [BCfg.apply]

/-- of two `target` calls (or of `min()` and `max()`) the last one wins -/
theorem Builder.last_call_wins (c : BCfg K) (a b : K) :
    ((c.apply (.target a)).apply (.target b)) = c.apply (.target b)
    ∧ ((c.apply .min).apply .max) = c.apply .max ∧ ((c.apply .max).apply .min) = c.apply .min := by
  simp [BCfg.apply]

example : BCfg.build [BStep.transpose, .max, .target (3 : Nat)] = BCfg.build [.target 3, .max, .transpose] := by decide

end G

import GdslModel.Lemmas.Order
import GdslModel.Lemmas.Extra
/-!
# C10 — preorder and postorder are depth-first discovery and finishing orders
`A = accAdj adj acc`; `post = false` is `preorder()` / `order().pre()`, `post = true` is
`postorder()` / `order().post()`. `Dfs A vis u disc fin vis'` (Model/Spec.lean) is the
non-deterministic depth-first traversal.
-/
namespace G
variable {K E : Type} [DecidableEq K]

/-- both orderings list exactly the nodes reachable through accepted edges, each once;
    preorder starts with the root, postorder ends with it -/
theorem Order.nodes_exactly_reach (adj : K → List (K × E)) (acc : K → K → E → Bool) (post : Bool) (root : K)
    (fuel : Nat) (ns : List K) (st : TSt K E) (h : orderNodes adj acc post root fuel = some (ns, st)) :
    ns.Nodup ∧ (∀ x, x ∈ ns ↔ Reach (accAdj adj acc) root x) ∧
    (if post then ns.getLast? = some root else ns.head? = some root) :=
  Order.nodes_exactly_reach' adj acc post root fuel ns st h

/-- preorder is the discovery order of a depth-first traversal of the accepted edges -/
theorem Order.pre_is_dfs_discovery (adj : K → List (K × E)) (acc : K → K → E → Bool) (root : K)
    (fuel : Nat) (ns : List K) (st : TSt K E) (h : orderNodes adj acc false root fuel = some (ns, st)) :
    ∃ disc fin vis', ns = root :: disc ∧ Dfs (accAdj adj acc) [root] root disc fin vis' :=
  Order.pre_is_dfs_discovery' adj acc root fuel ns st h

/-- postorder is the finishing order of a depth-first traversal of the accepted edges -/
theorem Order.post_is_dfs_finishing (adj : K → List (K × E)) (acc : K → K → E → Bool) (root : K)
    (fuel : Nat) (ns : List K) (st : TSt K E) (h : orderNodes adj acc true root fuel = some (ns, st)) :
    ∃ disc vis', Dfs (accAdj adj acc) [root] root disc ns vis' :=
  Order.post_is_dfs_finishing' adj acc root fuel ns st h

/-- for every accepted edge `u → v` among the postordered nodes, `v` precedes `u` unless `u` is reachable from `v` -/
theorem Order.post_edge_property (adj : K → List (K × E)) (acc : K → K → E → Bool) (root : K)
    (fuel : Nat) (ns : List K) (st : TSt K E) (h : orderNodes adj acc true root fuel = some (ns, st))
    (u v : K) (e : E) (hu : u ∈ ns) (he : (v, e) ∈ accAdj adj acc u) (hne : u ≠ v) :
    Before ns v u ∨ Reach (accAdj adj acc) v u :=
  Order.post_edge_property' adj acc root fuel ns st h u v e hu he hne

/-- `search_edges` returns, in the order of `search_nodes`, exactly one existing accepted edge entering
    each reachable non-root node -/
theorem Order.edges_one_per_node (adj : K → List (K × E)) (acc : K → K → E → Bool) (post : Bool) (root : K)
    (fuel : Nat) (st : TSt K E) (h : orderEdges adj acc post root fuel = some st) :
    orderNodes adj acc post root fuel =
      some (if post then st.tree.map (fun x => x.2.1) ++ [root] else root :: st.tree.map (fun x => x.2.1), st) ∧
    (∀ x ∈ st.tree, (x.2.1, x.2.2) ∈ accAdj adj acc x.1) ∧ (∀ x ∈ st.tree, x.2.1 ≠ root) :=
  Order.edges_one_per_node' adj acc post root fuel st h

theorem Order.fuel_enough (adj : K → List (K × E)) (acc : K → K → E → Bool) (post : Bool) (root : K)
    (fuel : Nat) (nodes : List K)
    (hc : Closed (accAdj adj acc) nodes) (hr : root ∈ nodes) (hf : nodes.length < fuel) :
    (orderEdges adj acc post root fuel).isSome = true :=
  Order.fuel_enough' adj acc post root fuel nodes hc hr hf

/-- non-vacuity: r→a, r→b, a→c (the graph of finding F6): post = [c, a, b, r], pre = [r, a, c, b] -/
example : (orderNodes (K := Nat) (E := Nat) (fun u => if u = 0 then [(1, 0), (2, 0)] else if u = 1 then [(3, 0)] else [])
    (fun _ _ _ => true) true 0 6).map (·.1) = some [3, 1, 2, 0] := by simp [orderNodes, orderEdges, postEdges]
example : (orderNodes (K := Nat) (E := Nat) (fun u => if u = 0 then [(1, 0), (2, 0)] else if u = 1 then [(3, 0)] else [])
    (fun _ _ _ => true) false 0 6).map (·.1) = some [0, 1, 3, 2] := by simp [orderNodes, orderEdges, preEdges]

/-- preorder and postorder on a graph built by a history never run out of fuel when given
    `number of distinct keys + 1`: plain, transposed and undirected, any filter -/
theorem Order.history_fuel (ops : List (Op K E)) (acc : K → K → E → Bool) (post : Bool) (root : K)
    (hr : root ∈ opKeys ops) :
    (orderEdges (outAdj (Di.run ops)) acc post root ((opKeys ops).eraseDups.length + 1)).isSome = true ∧
    (orderEdges (inAdj (Di.run ops)) acc post root ((opKeys ops).eraseDups.length + 1)).isSome = true ∧
    (orderEdges (unAdj (Un.run ops)) acc post root ((opKeys ops).eraseDups.length + 1)).isSome = true := by
  have hc := history_closed_eraseDups ops acc
  have hr' := (mem_eraseDups_opKeys ops root).mpr hr
  exact ⟨Order.fuel_enough _ acc post root _ _ hc.1 hr' (Nat.lt_succ_self _),
    Order.fuel_enough _ acc post root _ _ hc.2.1 hr' (Nat.lt_succ_self _),
    Order.fuel_enough _ acc post root _ _ hc.2.2 hr' (Nat.lt_succ_self _)⟩

/-- the form the driver uses: any node table containing the history's keys and the root, any fuel above its length -/
theorem Order.history_fuel_of_nodes (ops : List (Op K E)) (acc : K → K → E → Bool) (post : Bool) (root : K)
    (nodes : List K) (fuel : Nat)
    (hk : ∀ k ∈ opKeys ops, k ∈ nodes) (hr : root ∈ nodes) (hf : nodes.length < fuel) :
    (orderEdges (outAdj (Di.run ops)) acc post root fuel).isSome = true ∧
    (orderEdges (inAdj (Di.run ops)) acc post root fuel).isSome = true ∧
    (orderEdges (unAdj (Un.run ops)) acc post root fuel).isSome = true := by
  have hc := history_closed ops acc nodes hk
  exact ⟨Order.fuel_enough _ acc post root _ _ hc.1 hr hf,
    Order.fuel_enough _ acc post root _ _ hc.2.1 hr hf,
    Order.fuel_enough _ acc post root _ _ hc.2.2 hr hf⟩

/-- on an acyclic graph the postorder is a reverse topological order: when no two distinct nodes reach each
    other through accepted edges, the target of every accepted edge among the ordered nodes precedes its source -/
theorem Order.post_topological (adj : K → List (K × E)) (acc : K → K → E → Bool) (root : K)
    (fuel : Nat) (ns : List K) (st : TSt K E) (h : orderNodes adj acc true root fuel = some (ns, st))
    (hdag : ∀ a b, Reach (accAdj adj acc) a b → Reach (accAdj adj acc) b a → a = b)
    (u v : K) (e : E) (hu : u ∈ ns) (he : (v, e) ∈ accAdj adj acc u) (hne : u ≠ v) :
    Before ns v u := by
  rcases Order.post_edge_property' adj acc root fuel ns st h u v e hu he hne with hb | hr
  · exact hb
  · exact absurd (hdag u v (Reach.step (Reach.refl u) he) hr) hne

end G

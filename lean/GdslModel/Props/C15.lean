import GdslModel.Lemmas.SyncSingle
import GdslModel.Lemmas.SyncSeq
import GdslModel.Lemmas.SyncTraverse
/-!
# C15 — sync flavours are drop-in replacements in single-threaded code
The plain flavours *are* the functions of `Model/Store.lean` (`Di.step`, `Un.step`, the observers);
the sync flavours are the lock programs of `Model/Sync.lean`. Run alone, every lock program
terminates without ever blocking on a lock it holds itself, and computes the plain function.
Traversals, containers, scc, serde and the macros are the same model functions for both members
of a pair (they only differ in the iterator step, which is `Sync.iterNext`).
-/
namespace G
variable {K E : Type} [DecidableEq K]

/-- every directed mutator, with the mutation mutex: same final store and same return value as `digraph` -/
theorem Sync.di_single_refines (op : Op K E) (s : Store K E) :
    ∃ n tr, ∀ fuel, n ≤ fuel →
      runSingle fuel (Sync.Di.prog true op) s [] [] = some ((Di.step s op).1, (Di.step s op).2, tr) :=
  Sync.Di.prog_refines op s

theorem Sync.un_single_refines (op : Op K E) (s : Store K E) :
    ∃ n tr, ∀ fuel, n ≤ fuel →
      runSingle fuel (Sync.Un.prog true op) s [] [] = some ((Un.step s op).1, (Un.step s op).2, tr) :=
  Sync.Un.prog_refines op s

/-- a whole single-threaded program: the calls of a history one after the other give the plain history -/
theorem Sync.di_run_eq_plain (ops : List (Op K E)) (s : Store K E) :
    ∃ n tr, ∀ fuel, n ≤ fuel →
      runSingle fuel (seqProg (ops.map (Sync.Di.prog true))) s [] [] =
        some (ops.foldl (fun s op => (Di.step s op).1) s, Di.results s ops, tr) :=
  Sync.di_run_eq_plain' ops s

theorem Sync.un_run_eq_plain (ops : List (Op K E)) (s : Store K E) :
    ∃ n tr, ∀ fuel, n ≤ fuel →
      runSingle fuel (seqProg (ops.map (Sync.Un.prog true))) s [] [] =
        some (ops.foldl (fun s op => (Un.step s op).1) s, Un.results s ops, tr) :=
  Sync.un_run_eq_plain' ops s

/-- queries and the iterator step: one read guard, released before the value is returned, store untouched;
    in particular no lock is held when an iterator hands an edge to the caller (C20) -/
theorem Sync.query_refines {R : Type} (u : K) (f : Adj K E → R) (s : Store K E) (held : Held K)
    (hfree : canAcquire (.node u) .r held [] = true) (fuel : Nat) (hf : 4 ≤ fuel) :
    runSingle fuel (Sync.query u f) s held [] = some (s, f (s.get u), [(.node u, .r, held.length)]) :=
  Sync.query_refines' u f s held hfree fuel hf

theorem Sync.iter_next_refines (u : K) (sel : Adj K E → List (K × E)) (pos : Nat) (s : Store K E) (fuel : Nat) (hf : 4 ≤ fuel) :
    runSingle fuel (Sync.iterNext u sel pos) s [] [] = some (s, (sel (s.get u))[pos]?, [(.node u, .r, 0)]) :=
  Sync.query_refines' u _ s [] (by simp [canAcquire]) fuel hf

/-! ### traversals of the sync flavours, run alone
`Sync.bfsProg` / `Sync.dfsProg` / `Sync.preProg` are the traversals of the sync flavours written as lock programs
(one `iterNext` per step; they are what runs concurrently with mutators in C17). Run alone they never block, leave
the store untouched and return what the traversal of `Model/Search.lean` - the model of the plain flavour - returns
on the same lists: `sel` picks the list the iterator reads, so `fun k => sel (s.get k)` is the static adjacency. -/

/-- breadth-first `search()` -/
theorem Sync.bfs_alone_refines (sel : Adj K E → List (K × E)) (s : Store K E) (root : K) (tgt : Option K) (fuel : Nat)
    (res : Option K) (run : Run K E)
    (h : searchNode (fun k => sel (s.get k)) (fun _ _ _ => true) (fun _ => 0) .bfs root tgt fuel = some (res, run)) :
    ∃ n tr, ∀ f1 f2, n ≤ f1 → n ≤ f2 →
      runSingle f1 (Sync.bfsProg sel tgt f2 none [root] [root]) s [] [] = some (s, res, tr) :=
  Sync.bfs_alone_refines' sel s root tgt fuel res run h

/-- depth-first `search()` -/
theorem Sync.dfs_alone_refines (sel : Adj K E → List (K × E)) (s : Store K E) (root : K) (tgt : Option K) (fuel : Nat)
    (res : Option K) (run : Run K E)
    (h : searchNode (fun k => sel (s.get k)) (fun _ _ _ => true) (fun _ => 0) .dfs root tgt fuel = some (res, run)) :
    ∃ n tr, ∀ f1 f2, n ≤ f1 → n ≤ f2 →
      runSingle f1 (Sync.dfsProg sel tgt f2 [(root, 0)] [root]) s [] [] = some (s, res, tr) :=
  Sync.dfs_alone_refines' sel s root tgt fuel res run h

/-- the preorder (`search_nodes`) -/
theorem Sync.pre_alone_refines (sel : Adj K E → List (K × E)) (s : Store K E) (root : K) (fuel : Nat)
    (ns : List K) (ts : TSt K E)
    (h : orderNodes (fun k => sel (s.get k)) (fun _ _ _ => true) false root fuel = some (ns, ts)) :
    ∃ n tr, ∀ f1 f2, n ≤ f1 → n ≤ f2 →
      runSingle f1 (Sync.preProg sel f2 [(root, 0)] [root] [root]) s [] [] = some (s, ns, tr) :=
  Sync.pre_alone_refines' sel s root fuel ns ts h

/-- the serialised form depends on the container's iteration order only through a permutation of the two lists
    ("serialised form up to container order") -/
theorem Serde.decompose_perm {N : Type} (s : Store K E) (nval : K → N) (π π' : List K) (h : π.Perm π') :
    (decompose s nval π).1.Perm (decompose s nval π').1 ∧ (decompose s nval π).2.Perm (decompose s nval π').2 :=
  Serde.decompose_perm' s nval π π' h

example : ∃ n tr, ∀ f1 f2, n ≤ f1 → n ≤ f2 →
    runSingle f1 (Sync.bfsProg (E := Nat) (·.out) (some 2) f2 none [0] [0]) (connect (connect {} 0 1 5) 1 2 6) [] [] =
      some (connect (connect {} 0 1 5) 1 2 6, some 2, tr) :=
  Sync.bfs_alone_refines (·.out) _ 0 (some 2) 10 (some 2) _ (by rfl)

end G

import GdslModel.Lemmas.Own
/-!
# C19 — edges never own nodes: no leaks, no premature release
`OwnSt` (Model/Own.lean) counts the strong handles held by program slots (node handles, edges,
paths, search results, containers); adjacency entries are weak and are not counted. `sel` is the
list a node iterates (`outAdj` for the directed, `unAdj` for the undirected flavours); the only thing
assumed about it is that it yields adjacency entries of that node. `mutF` is what `try_connect`,
`disconnect`, `isolate` and the queries do to the adjacency lists: the theorems hold for *every* such
function, i.e. no edge operation or query can create, keep or drop a handle, whatever it does to the lists.
-/
namespace G
variable {K E : Type} [DecidableEq K]

/-- the selected lists consist of adjacency entries -/
def SelOk (sel : Store K E → K → List (K × E)) : Prop :=
  ∀ s k p, p ∈ sel s k → p ∈ (s.get k).out ++ (s.get k).inn

/-- the accounting invariant: a node value is released exactly when no slot mentions its key -/
def OwnSt.Inv (st : OwnSt K E) : Prop :=
  st.created.Nodup ∧ st.released.Nodup ∧ (∀ k ∈ st.released, k ∈ st.created) ∧
  (∀ k ∈ st.held, k ∈ st.created) ∧ (∀ k ∈ st.created, (k ∈ st.released ↔ st.count k = 0))

theorem Own.inv_step (sel : Store K E → K → List (K × E)) (mutF : Store K E → K → K → StoreOp E → Store K E) (hsel : SelOk sel) (st st' : OwnSt K E) (op : OwnOp K E)
    (h : st.Inv) (hs : st.step sel mutF op = some st') : st'.Inv :=
  Own.inv_step' sel mutF hsel st st' op h hs

/-- after every history: released at most once, only after creation, never while a handle is held,
    and always once the last handle is gone -/
theorem Own.inv_run (sel : Store K E → K → List (K × E)) (mutF : Store K E → K → K → StoreOp E → Store K E) (hsel : SelOk sel) (ops : List (OwnOp K E)) :
    (OwnSt.run sel mutF ops).Inv :=
  Own.inv_run' sel mutF hsel ops

theorem Own.released_once (sel : Store K E → K → List (K × E)) (mutF : Store K E → K → K → StoreOp E → Store K E) (hsel : SelOk sel) (ops : List (OwnOp K E)) :
    (OwnSt.run sel mutF ops).released.Nodup :=
  (Own.inv_run' sel mutF hsel ops).2.1

/-- no node value is released while a handle to its node is still held -/
theorem Own.no_premature_release (sel : Store K E → K → List (K × E)) (mutF : Store K E → K → K → StoreOp E → Store K E) (hsel : SelOk sel) (ops : List (OwnOp K E))
    (k : K) (hk : k ∈ (OwnSt.run sel mutF ops).held) : k ∉ (OwnSt.run sel mutF ops).released :=
  Own.no_premature_release' sel mutF hsel ops k hk

/-- no leak: once the program has dropped all its handles every created node value has been released,
    whatever the graph looks like (cycles, self-loops, still-connected nodes) -/
theorem Own.all_released_at_end (sel : Store K E → K → List (K × E)) (mutF : Store K E → K → K → StoreOp E → Store K E) (hsel : SelOk sel) (ops : List (OwnOp K E))
    (hempty : (OwnSt.run sel mutF ops).held = []) :
    ∀ k, k ∈ (OwnSt.run sel mutF ops).created ↔ k ∈ (OwnSt.run sel mutF ops).released :=
  Own.all_released_at_end' sel mutF hsel ops hempty

/-- connecting two nodes creates no handle and releases nothing: edges do not own nodes -/
theorem Own.edges_do_not_own (sel : Store K E → K → List (K × E)) (mutF : Store K E → K → K → StoreOp E → Store K E) (st st' : OwnSt K E) (a b : Nat) (e : E)
    (hs : st.step sel mutF (.connect a b e) = some st') :
    st'.slots = st.slots ∧ st'.released = st.released ∧ st'.created = st.created :=
  Own.edges_do_not_own' sel mutF st st' a b e hs

/-- `try_connect`, `disconnect`, `isolate` and every query through node handles: no slot changes, nothing is
    released and nothing is created, whatever the operation does to the adjacency lists -/
theorem Own.store_ops_do_not_own (sel : Store K E → K → List (K × E)) (mutF : Store K E → K → K → StoreOp E → Store K E)
    (st st' : OwnSt K E) (a b : Nat) (m : StoreOp E)
    (hs : st.step sel mutF (.storeOp a b m) = some st') :
    st'.slots = st.slots ∧ st'.released = st.released ∧ st'.created = st.created :=
  Own.store_ops_do_not_own' sel mutF st st' a b m hs

/-- the released set after a history does not depend on what the edge operations and queries do to the lists,
    as long as no operation is refused differently: with the same slots the accounting is the same.
    Stated for one step: two states that agree on slots/created/released and both accept `op` agree afterwards
    on slots/created/released for every operation that does not read the store -/
theorem Own.accounting_ignores_store (sel : Store K E → K → List (K × E)) (mutF mutF' : Store K E → K → K → StoreOp E → Store K E)
    (st st' : OwnSt K E) (a b : Nat) (m : StoreOp E)
    (hs : st.step sel mutF (.storeOp a b m) = some st') :
    ∃ st'', st.step sel mutF' (.storeOp a b m) = some st'' ∧
      st''.slots = st'.slots ∧ st''.released = st'.released ∧ st''.created = st'.created :=
  Own.accounting_ignores_store' sel mutF mutF' st st' a b m hs

/-- edges, paths and search results keep the nodes they mention alive: whatever a slot holds is alive -/
theorem Own.held_alive (sel : Store K E → K → List (K × E)) (mutF : Store K E → K → K → StoreOp E → Store K E) (hsel : SelOk sel) (ops : List (OwnOp K E))
    (i : Nat) (k : K) (hk : k ∈ (OwnSt.run sel mutF ops).slot i) : (OwnSt.run sel mutF ops).alive k = true :=
  Own.held_alive' sel mutF hsel ops i k hk

theorem selOk_out : SelOk (outAdj (K := K) (E := E)) := by
  intro s k p hp; exact List.mem_append_left _ hp
theorem selOk_un : SelOk (unAdj (K := K) (E := E)) := by
  intro s k p hp; exact hp

end G

/-! non-vacuity: the hypotheses of the store-operation theorems are met by a concrete reachable state -/
namespace G
example : ((OwnSt.run (K := Nat) (E := Nat) outAdj (fun s _ _ _ => s) [.new 0 0, .new 1 1, .connect 0 1 7]).step
    outAdj (fun s _ _ _ => s) (.storeOp 0 1 .disconnect)).isSome = true := by decide
example : (((OwnSt.run (K := Nat) (E := Nat) unAdj (fun s _ _ _ => s) [.new 0 0, .new 1 1, .connect 0 1 7]).step
    unAdj (fun s _ _ _ => s) (.find 0 1 5)).map (·.slot 5)) = some [1] := by decide
end G

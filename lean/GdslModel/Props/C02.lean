import GdslModel.Lemmas.Un
import GdslModel.Lemmas.Extra
/-!
# C02 — undirected adjacency is symmetric
-/
namespace G
variable {K E : Type} [DecidableEq K]

theorem Un.sym_step (s : Store K E) (op : Op K E) (h : Mirror s) : Mirror (Un.step s op).1 :=
  Un.step_mirror s op h

/-- C02: after every prefix of every history (either endpoint as caller, self-loops, parallel edges
    in both orientations, failing calls) the half-edges of the two endpoints match -/
theorem Un.sym_run (ops : List (Op K E)) (n : Nat) : Mirror (Un.run (ops.take n)) :=
  Un.run_mirror (ops.take n)

theorem Un.no_panic (s : Store K E) (op : Op K E) (h : Mirror s) : (Un.step s op).2 ≠ .panic :=
  Un.step_no_panic s op h

/-- `u` lists an edge to `v` with value `e` exactly as many times as `v` lists one to `u` with `e` -/
theorem Un.count_symm [DecidableEq E] (s : Store K E) (h : Mirror s) (u v : K) (e : E) :
    ((unAdj s u).filter (fun p => p.1 = v ∧ p.2 = e)).length =
    ((unAdj s v).filter (fun p => p.1 = u ∧ p.2 = e)).length :=
  Un.count_symm' s h u v e

/-- `is_connected` / `find_adjacent` give the same answer from both ends -/
theorem Un.connected_symm (s : Store K E) (h : Mirror s) (u v : K) :
    Un.isConnected s u v = Un.isConnected s v u :=
  Un.connected_symm' s h u v

/-- a self-loop counts twice in `degree` -/
theorem Un.selfloop_degree (s : Store K E) (u : K) (e : E) :
    (unAdj (connect s u u e) u).length = (unAdj s u).length + 2 :=
  Un.selfloop_degree' s u e

/-- an ordinary edge counts once at each endpoint -/
theorem Un.edge_degree (s : Store K E) (u v : K) (e : E) (huv : u ≠ v) :
    (unAdj (connect s u v e) u).length = (unAdj s u).length + 1 ∧
    (unAdj (connect s u v e) v).length = (unAdj s v).length + 1 :=
  Un.edge_degree' s u v e huv

example : Mirror (Un.run [Op.connect 0 0 7, .connect 0 1 1, .connect 1 0 2, .disconnect 1 0, .isolate 0] : Store Nat Nat) :=
  Un.run_mirror _

/-- handshake ("degrees count every incident edge once per endpoint"): in a symmetric store, over a
    duplicate-free set of nodes closed under adjacency, the degrees add up to exactly twice the number of
    edges - every edge, a self-loop included, is counted twice in all and none is counted more often -/
theorem Un.handshake (s : Store K E) (h : Mirror s) (ks : List K) (hnd : ks.Nodup)
    (hc : ∀ k ∈ ks, ∀ p ∈ unAdj s k, p.1 ∈ ks) :
    (ks.map fun k => (unAdj s k).length).sum = 2 * (ks.map fun k => (s.get k).out.length).sum :=
  Un.handshake' s h ks hnd hc

/-- the same for every reachable store: after any history the degree sum over a closed node set is even -/
theorem Un.handshake_run (ops : List (Op K E)) (ks : List K) (hnd : ks.Nodup)
    (hc : ∀ k ∈ ks, ∀ p ∈ unAdj (Un.run ops) k, p.1 ∈ ks) :
    (ks.map fun k => (unAdj (Un.run ops) k).length).sum % 2 = 0 := by
  rw [Un.handshake' _ (Un.run_mirror ops) ks hnd hc]; omega

/-- non-vacuity: a self-loop and two parallel edges over the closed set {0, 1}: degrees 4 + 2 = 2 * 3 -/
example : ([0, 1].map fun k => (unAdj (Un.run [Op.connect 0 0 7, .connect 0 1 1, .connect 1 0 2] : Store Nat Nat) k).length).sum = 6 := by
  decide

/-- the handshake without any hypothesis on the store: after every history, over any duplicate-free list of nodes
    that contains the operands of the history, the degrees add up to twice the number of edges -/
theorem Un.handshake_history (ops : List (Op K E)) (ks : List K) (hnd : ks.Nodup)
    (hk : ∀ k ∈ opKeys ops, k ∈ ks) :
    (ks.map fun k => (unAdj (Un.run ops) k).length).sum = 2 * (ks.map fun k => ((Un.run ops).get k).out.length).sum :=
  Un.handshake_history' ops ks hnd hk

end G

import GdslModel.Lemmas.Bfs
import GdslModel.Lemmas.Extra
import GdslModel.Lemmas.PathView
/-!
# C04 — breadth-first search finds a shortest path iff one exists
`A = accAdj adj acc` is the graph of accepted edges. All statements are conditional on the loop
not running out of fuel (`= some …`); `Bfs.fuel_enough` shows it never does with fuel > |nodes|.
-/
namespace G
variable {K E : Type} [DecidableEq K]

/-- the returned path starts at the root, ends at the target and consists of existing accepted edges,
    joined end to start, carrying their stored values -/
theorem Bfs.path_sound (adj : K → List (K × E)) (acc : K → K → E → Bool) (nval : K → Int) (root t : K) (fuel : Nat)
    (p : List (Edge K E)) (run : Run K E)
    (h : searchPath adj acc nval .bfs root (some t) false fuel = some (some p, run)) :
    IsPath (accAdj adj acc) root t p :=
  Bfs.path_sound' adj acc nval root t fuel p run h

/-- what the accessors of the returned `Path` hand out: `first_node()` is the root, `last_node()` the target,
    `first_edge()` leaves the root, `last_edge()` enters the target, `to_vec_nodes()` / `iter_nodes()` is the root
    followed by the target of every edge, `len()` = number of edges + 1 -/
theorem Bfs.path_accessors (adj : K → List (K × E)) (acc : K → K → E → Bool) (nval : K → Int) (root t : K) (fuel : Nat)
    (p : List (Edge K E)) (run : Run K E)
    (h : searchPath adj acc nval .bfs root (some t) false fuel = some (some p, run)) :
    pathFirstNode p = some root ∧ pathLastNode p = some t ∧
    (∃ x, pathFirstEdge p = some x ∧ x.1 = root) ∧ (∃ y, pathLastEdge p = some y ∧ y.2.1 = t) ∧
    pathNodes p = root :: p.map (·.2.1) ∧ (pathNodes p).length = p.length + 1 :=
  (Bfs.path_sound adj acc nval root t fuel p run h).accessors

/-- no path with fewer edges exists -/
theorem Bfs.path_minimal (adj : K → List (K × E)) (acc : K → K → E → Bool) (nval : K → Int) (root t : K) (fuel : Nat)
    (p : List (Edge K E)) (run : Run K E)
    (h : searchPath adj acc nval .bfs root (some t) false fuel = some (some p, run)) :
    ∀ q, IsPath (accAdj adj acc) root t q → p.length ≤ q.length :=
  Bfs.path_minimal' adj acc nval root t fuel p run h

/-- `None` only if the target is unreachable through accepted edges -/
theorem Bfs.path_complete (adj : K → List (K × E)) (acc : K → K → E → Bool) (nval : K → Int) (root t : K) (fuel : Nat)
    (run : Run K E) (hrt : t ≠ root)
    (h : searchPath adj acc nval .bfs root (some t) false fuel = some (none, run)) :
    ¬ Reach (accAdj adj acc) root t :=
  Bfs.path_complete' adj acc nval root t fuel run hrt h

/-- a result exactly when the target is reachable -/
theorem Bfs.path_iff (adj : K → List (K × E)) (acc : K → K → E → Bool) (nval : K → Int) (root t : K) (fuel : Nat)
    (res : Option (List (Edge K E))) (run : Run K E) (hrt : t ≠ root)
    (h : searchPath adj acc nval .bfs root (some t) false fuel = some (res, run)) :
    res.isSome = true ↔ Reach (accAdj adj acc) root t :=
  Bfs.path_iff' adj acc nval root t fuel res run hrt h

/-- `search` returns the target node in exactly the same cases -/
theorem Bfs.search_iff (adj : K → List (K × E)) (acc : K → K → E → Bool) (nval : K → Int) (root t : K) (fuel : Nat)
    (x : Option K) (run : Run K E) (hrt : t ≠ root)
    (h : searchNode adj acc nval .bfs root (some t) fuel = some (x, run)) :
    (x = some t ∨ x = none) ∧ (x = some t ↔ Reach (accAdj adj acc) root t) :=
  Bfs.search_iff' adj acc nval root t fuel x run hrt h

/-- with a finite node universe closed under accepted edges the loop never runs out of fuel -/
theorem Bfs.fuel_enough (adj : K → List (K × E)) (acc : K → K → E → Bool) (nval : K → Int) (root : K)
    (target : Option K) (cycle : Bool) (fuel : Nat) (nodes : List K)
    (hc : Closed (accAdj adj acc) nodes) (hr : root ∈ nodes) (hf : nodes.length < fuel) :
    (runLoop adj acc nval .bfs root target cycle fuel).isSome = true :=
  Bfs.fuel_enough' adj acc nval root target cycle fuel nodes hc hr hf

/-- non-vacuity: a graph with a cycle, a self-loop and parallel edges; the shortest path 0 → 3 has 2 edges -/
example : (searchPath (K := Nat) (E := Nat)
    (fun u => if u = 0 then [(0, 9), (1, 0), (1, 1), (2, 2)] else if u = 1 then [(0, 3), (3, 4)] else if u = 2 then [(3, 5)] else [])
    (fun _ _ _ => true) (fun _ => 0) .bfs 0 (some 3) false 6).map (·.1) = some (some [(0, 1, 0), (1, 3, 4)]) := by decide

/-! ### graphs built by histories: fuel `number of distinct keys + 1` always suffices
`opKeys ops` (Lemmas/Extra.lean) lists the operands of the operations of a history. -/

/-- `disconnect` and `isolate` (both flavours, also their failing and panicking branches) only remove
    entries: every entry of the resulting store is an entry of the same list of the same node before -/
theorem History.removals_only_remove (s : Store K E) (u v : K) :
    Sub (Di.disconnect s u v).1 s ∧ Sub (Di.isolate s u).1 s ∧
    Sub (Un.disconnect s u v).1 s ∧ Sub (Un.isolate s u).1 s :=
  ⟨Di.disconnect_sub s u v, Di.isolate_sub s u, Un.disconnect_sub s u v, Un.isolate_sub s u⟩

/-- every adjacency entry of a graph built by a history names an operand of one of its operations
    (only `connect` / `try_connect` add entries, and they add their own operands) -/
theorem History.entries_in_keys (ops : List (Op K E)) :
    (∀ k p, p ∈ ((Di.run ops).get k).out ++ ((Di.run ops).get k).inn → p.1 ∈ opKeys ops) ∧
    (∀ k p, p ∈ ((Un.run ops).get k).out ++ ((Un.run ops).get k).inn → p.1 ∈ opKeys ops) :=
  ⟨Di.run_keysIn ops, Un.run_keysIn ops⟩

/-- hence the distinct keys of the history are a finite universe closed under the (filtered) edges,
    for plain, transposed and undirected iteration -/
theorem History.closed (ops : List (Op K E)) (acc : K → K → E → Bool) :
    Closed (accAdj (outAdj (Di.run ops)) acc) (opKeys ops).eraseDups ∧
    Closed (accAdj (inAdj (Di.run ops)) acc) (opKeys ops).eraseDups ∧
    Closed (accAdj (unAdj (Un.run ops)) acc) (opKeys ops).eraseDups :=
  history_closed_eraseDups ops acc

/-- the same for every list of nodes that contains the keys of the history (the driver's node table) -/
theorem History.closed_of_nodes (ops : List (Op K E)) (acc : K → K → E → Bool) (nodes : List K)
    (hk : ∀ k ∈ opKeys ops, k ∈ nodes) :
    Closed (accAdj (outAdj (Di.run ops)) acc) nodes ∧ Closed (accAdj (inAdj (Di.run ops)) acc) nodes ∧
    Closed (accAdj (unAdj (Un.run ops)) acc) nodes :=
  history_closed ops acc nodes hk

/-- breadth-first search on a graph built by a history never runs out of fuel when given
    `number of distinct keys + 1`: plain, transposed and undirected, any filter, target and mode -/
theorem Bfs.history_fuel (ops : List (Op K E)) (acc : K → K → E → Bool) (nval : K → Int) (root : K)
    (target : Option K) (cycle : Bool) (hr : root ∈ opKeys ops) :
    (runLoop (outAdj (Di.run ops)) acc nval .bfs root target cycle ((opKeys ops).eraseDups.length + 1)).isSome = true ∧
    (runLoop (inAdj (Di.run ops)) acc nval .bfs root target cycle ((opKeys ops).eraseDups.length + 1)).isSome = true ∧
    (runLoop (unAdj (Un.run ops)) acc nval .bfs root target cycle ((opKeys ops).eraseDups.length + 1)).isSome = true := by
  have hc := history_closed_eraseDups ops acc
  have hr' := (mem_eraseDups_opKeys ops root).mpr hr
  exact ⟨Bfs.fuel_enough _ acc nval root target cycle _ _ hc.1 hr' (Nat.lt_succ_self _),
    Bfs.fuel_enough _ acc nval root target cycle _ _ hc.2.1 hr' (Nat.lt_succ_self _),
    Bfs.fuel_enough _ acc nval root target cycle _ _ hc.2.2 hr' (Nat.lt_succ_self _)⟩

/-- the form the driver uses: any node table `nodes` containing the history's keys and the root, any
    fuel above its length (the driver passes `nodes.length + 2`) -/
theorem Bfs.history_fuel_of_nodes (ops : List (Op K E)) (acc : K → K → E → Bool) (nval : K → Int) (root : K)
    (target : Option K) (cycle : Bool) (nodes : List K) (fuel : Nat)
    (hk : ∀ k ∈ opKeys ops, k ∈ nodes) (hr : root ∈ nodes) (hf : nodes.length < fuel) :
    (runLoop (outAdj (Di.run ops)) acc nval .bfs root target cycle fuel).isSome = true ∧
    (runLoop (inAdj (Di.run ops)) acc nval .bfs root target cycle fuel).isSome = true ∧
    (runLoop (unAdj (Un.run ops)) acc nval .bfs root target cycle fuel).isSome = true := by
  have hc := history_closed ops acc nodes hk
  exact ⟨Bfs.fuel_enough _ acc nval root target cycle _ _ hc.1 hr hf,
    Bfs.fuel_enough _ acc nval root target cycle _ _ hc.2.1 hr hf,
    Bfs.fuel_enough _ acc nval root target cycle _ _ hc.2.2 hr hf⟩

end G

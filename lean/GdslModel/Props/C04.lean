import GdslModel.Lemmas.Bfs
/-!
# C04 — breadth-first search finds a shortest path iff one exists
`A = accAdj adj acc` is the graph of accepted edges. All statements are conditional on the loop
not running out of fuel (`= some …`); `Bfs.fuel_enough` shows it never does with fuel > |nodes|.
-/
namespace G
variable {K E : Type} [DecidableEq K]

/-- the returned path starts at the root, ends at the target and consists of existing accepted edges,
    joined end to start, carrying their stored values -/
theorem Bfs.path_sound (adj : K → List (K × E)) (acc : K → K → E → Bool) (nval : K → Int) (root t : K) (fuel : Nat)
    (p : List (Edge K E)) (run : Run K E)
    (h : searchPath adj acc nval .bfs root (some t) false fuel = some (some p, run)) :
    IsPath (accAdj adj acc) root t p :=
  Bfs.path_sound' adj acc nval root t fuel p run h

/-- no path with fewer edges exists -/
theorem Bfs.path_minimal (adj : K → List (K × E)) (acc : K → K → E → Bool) (nval : K → Int) (root t : K) (fuel : Nat)
    (p : List (Edge K E)) (run : Run K E)
    (h : searchPath adj acc nval .bfs root (some t) false fuel = some (some p, run)) :
    ∀ q, IsPath (accAdj adj acc) root t q → p.length ≤ q.length :=
  Bfs.path_minimal' adj acc nval root t fuel p run h

/-- `None` only if the target is unreachable through accepted edges -/
theorem Bfs.path_complete (adj : K → List (K × E)) (acc : K → K → E → Bool) (nval : K → Int) (root t : K) (fuel : Nat)
    (run : Run K E) (hrt : t ≠ root)
    (h : searchPath adj acc nval .bfs root (some t) false fuel = some (none, run)) :
    ¬ Reach (accAdj adj acc) root t :=
  Bfs.path_complete' adj acc nval root t fuel run hrt h

/-- a result exactly when the target is reachable -/
theorem Bfs.path_iff (adj : K → List (K × E)) (acc : K → K → E → Bool) (nval : K → Int) (root t : K) (fuel : Nat)
    (res : Option (List (Edge K E))) (run : Run K E) (hrt : t ≠ root)
    (h : searchPath adj acc nval .bfs root (some t) false fuel = some (res, run)) :
    res.isSome = true ↔ Reach (accAdj adj acc) root t :=
  Bfs.path_iff' adj acc nval root t fuel res run hrt h

/-- `search` returns the target node in exactly the same cases -/
theorem Bfs.search_iff (adj : K → List (K × E)) (acc : K → K → E → Bool) (nval : K → Int) (root t : K) (fuel : Nat)
    (x : Option K) (run : Run K E) (hrt : t ≠ root)
    (h : searchNode adj acc nval .bfs root (some t) fuel = some (x, run)) :
    (x = some t ∨ x = none) ∧ (x = some t ↔ Reach (accAdj adj acc) root t) :=
  Bfs.search_iff' adj acc nval root t fuel x run hrt h

/-- with a finite node universe closed under accepted edges the loop never runs out of fuel -/
theorem Bfs.fuel_enough (adj : K → List (K × E)) (acc : K → K → E → Bool) (nval : K → Int) (root : K)
    (target : Option K) (cycle : Bool) (fuel : Nat) (nodes : List K)
    (hc : Closed (accAdj adj acc) nodes) (hr : root ∈ nodes) (hf : nodes.length < fuel) :
    (runLoop adj acc nval .bfs root target cycle fuel).isSome = true :=
  Bfs.fuel_enough' adj acc nval root target cycle fuel nodes hc hr hf

/-- non-vacuity: a graph with a cycle, a self-loop and parallel edges; the shortest path 0 → 3 has 2 edges -/
example : (searchPath (K := Nat) (E := Nat)
    (fun u => if u = 0 then [(0, 9), (1, 0), (1, 1), (2, 2)] else if u = 1 then [(0, 3), (3, 4)] else if u = 2 then [(3, 5)] else [])
    (fun _ _ _ => true) (fun _ => 0) .bfs 0 (some 3) false 6).map (·.1) = some (some [(0, 1, 0), (1, 3, 4)]) := by decide

end G

import GdslModel.Lemmas.Serde
import GdslModel.Lemmas.Extra
import GdslModel.Lemmas.Json
import GdslModel.Lemmas.Cbor
/-!
# C12 — serialisation round-trips
`decompose s nval π` is what `Serialize` writes for a container whose hash map iterates in order
`π`; `rebuild` is what the `Deserialize` visitor builds. JSON / CBOR are the identity between a
well-typed document and this pair of lists (trusted base). The container must be closed under
neighbours (every edge of a member leads to a member) — otherwise the document names an
undeclared key and deserialisation fails (`Serde.nonmember_error`).
-/
namespace G
variable {K E N : Type} [DecidableEq K]

/-- round trip, for every iteration order: same keys and node values (in document order), every
    member's outgoing list (directed) / outbound half-edge list (undirected) is reproduced exactly,
    in order, and the result is mirrored again -/
theorem Serde.roundtrip (s : Store K E) (nval : K → N) (π : List K) (hnd : π.Nodup)
    (hclosed : ∀ k ∈ π, ∀ p ∈ (s.get k).out, p.1 ∈ π) :
    ∃ s', rebuild (decompose s nval π).1 (decompose s nval π).2 = some (π.map (fun k => (k, nval k)), s') ∧
      (∀ k ∈ π, (s'.get k).out = (s.get k).out) ∧ Mirror s' :=
  Serde.roundtrip' s nval π hnd hclosed

/-- the incoming side: if the original is mirrored and all sources of members are members, every member
    gets back, per source, the same incoming values in the same order (hence the same multiset of
    incident edges for an undirected node, self-loops counted as stored) -/
theorem Serde.roundtrip_inn (s s' : Store K E) (nval : K → N) (π : List K) (hnd : π.Nodup)
    (hm : Mirror s) (hclosed : ∀ k ∈ π, ∀ p ∈ (s.get k).out, p.1 ∈ π)
    (hclosed' : ∀ k ∈ π, ∀ p ∈ (s.get k).inn, p.1 ∈ π)
    (h : rebuild (decompose s nval π).1 (decompose s nval π).2 = some (π.map (fun k => (k, nval k)), s')) :
    ∀ k ∈ π, ∀ u, vals (s'.get k).inn u = vals (s.get k).inn u :=
  Serde.roundtrip_inn' s s' nval π hnd hm hclosed hclosed' h

/-- a member with an edge to a non-member makes the document undeserialisable -/
theorem Serde.nonmember_error (s : Store K E) (nval : K → N) (π : List K)
    (k : K) (hk : k ∈ π) (p : K × E) (hp : p ∈ (s.get k).out) (hnot : p.1 ∉ π) :
    rebuild (decompose s nval π).1 (decompose s nval π).2 = none :=
  Serde.nonmember_error' s nval π k hk p hp hnot

/-- in the setting of `Serde.roundtrip_inn`: every member gets back its incoming list up to order, and
    hence (the outgoing list coming back exactly) the same multiset of incident half-edges -/
theorem Serde.roundtrip_incident_perm (s s' : Store K E) (nval : K → N) (π : List K) (hnd : π.Nodup)
    (hm : Mirror s) (hclosed : ∀ k ∈ π, ∀ p ∈ (s.get k).out, p.1 ∈ π)
    (hclosed' : ∀ k ∈ π, ∀ p ∈ (s.get k).inn, p.1 ∈ π)
    (h : rebuild (decompose s nval π).1 (decompose s nval π).2 = some (π.map (fun k => (k, nval k)), s')) :
    ∀ k ∈ π, (s'.get k).inn.Perm (s.get k).inn ∧ (unAdj s' k).Perm (unAdj s k) := by
  intro k hk
  have hinn : (s'.get k).inn.Perm (s.get k).inn :=
    perm_of_vals_eq _ _ (Serde.roundtrip_inn s s' nval π hnd hm hclosed hclosed' h k hk)
  obtain ⟨s'', hs'', hout, _⟩ := Serde.roundtrip s nval π hnd hclosed
  rw [h] at hs''
  simp only [Option.some.injEq, Prod.mk.injEq, true_and] at hs''
  subst hs''
  refine ⟨hinn, ?_⟩
  unfold unAdj
  rw [hout k hk]
  exact List.Perm.append (List.Perm.refl _) hinn

/-! ## byte level (JSON)
`Model/Json.lean` is a byte-level model of `serde_json` for the document type the harness instantiates
(`K = usize`, `N = i64`, `E = u32`): `Json.print` is what `serde_json::to_vec` writes, `Json.parse` what
`serde_json::from_slice` accepts (the correspondence check compares it with the real parser on raw bytes). -/

/-- what is written parses back to exactly the document, for every document whose payloads fit their types -/
theorem Json.parse_print (d : Json.Doc) (h : Json.InRange d) : Json.parse (Json.print d) = some d :=
  Json.parse_print' d h

/-- the whole round trip at byte level: serialising a closed container whose payloads fit their types and
    deserialising the bytes gives the same keys, node values and outgoing lists, mirrored -/
theorem Json.roundtrip_bytes (s : Store Nat Nat) (nval : Nat → Int) (π : List Nat) (hnd : π.Nodup)
    (hclosed : ∀ k ∈ π, ∀ p ∈ (s.get k).out, p.1 ∈ π) (hr : Json.InRange (decompose s nval π)) :
    ∃ s', Json.deJson (Json.serJson s nval π) = some (π.map (fun k => (k, nval k)), s') ∧
      (∀ k ∈ π, (s'.get k).out = (s.get k).out) ∧ Mirror s' :=
  Json.roundtrip_bytes' s nval π hnd hclosed hr

example : Json.parse (Json.print ([(0, -3), (7, 12)], [(0, 7, 4000000000), (7, 7, 0)])) =
    some ([(0, -3), (7, 12)], [(0, 7, 4000000000), (7, 7, 0)]) := by decide +kernel

/-! ## byte level (CBOR)
`Model/Cbor.lean` is the byte-level model of `serde_cbor` for the same document type: `Cbor.print` is what
`serde_cbor::to_vec` writes (definite lengths, shortest integers), `Cbor.parse` what `serde_cbor::from_slice` accepts
(any integer width, indefinite-length arrays, tags skipped, recursion budget 128). -/

/-- what is written parses back to exactly the document, for every document whose payloads fit their types
    (and whose two lists have fewer than 2^64 entries, so that their lengths fit an array head) -/
theorem Cbor.parse_print (d : Cbor.Doc) (h : Json.InRange d) (hl : d.1.length < 2 ^ 64 ∧ d.2.length < 2 ^ 64) :
    Cbor.parse (Cbor.print d) = some d :=
  Cbor.parse_print' d h hl

/-- the whole round trip at byte level through CBOR -/
theorem Cbor.roundtrip_bytes (s : Store Nat Nat) (nval : Nat → Int) (π : List Nat) (hnd : π.Nodup)
    (hclosed : ∀ k ∈ π, ∀ p ∈ (s.get k).out, p.1 ∈ π) (hr : Json.InRange (decompose s nval π))
    (hl : (decompose s nval π).1.length < 2 ^ 64 ∧ (decompose s nval π).2.length < 2 ^ 64) :
    ∃ s', Cbor.deCbor (Cbor.serCbor s nval π) = some (π.map (fun k => (k, nval k)), s') ∧
      (∀ k ∈ π, (s'.get k).out = (s.get k).out) ∧ Mirror s' :=
  Cbor.roundtrip_bytes' s nval π hnd hclosed hr hl

example : Cbor.parse (Cbor.print ([(0, -3), (7, 12), (300, -70000)], [(0, 7, 4000000000), (7, 7, 0), (300, 0, 24)])) =
    some ([(0, -3), (7, 12), (300, -70000)], [(0, 7, 4000000000), (7, 7, 0), (300, 0, 24)]) := by decide +kernel

end G

import GdslModel.Lemmas.Bfs
import GdslModel.Lemmas.Dfs
import GdslModel.Lemmas.Pfs
import GdslModel.Lemmas.Order
/-!
# C07 — traversal callbacks see every reachable edge once; filters exclude
`trace` is the sequence of edges handed to `Method::exec` (the `for_each` / `filter` closure).
-/
namespace G
variable {K E : Type} [DecidableEq K]

/-- without a target and without a filter, a search hands the closure every edge leaving a reachable
    node exactly once (counted with multiplicity) and nothing else -/
theorem Trace.search_sees_all (adj : K → List (K × E)) (nval : K → Int) (kind : Kind) (root : K) (fuel : Nat)
    (r : Run K E) (h : runLoop adj (fun _ _ _ => true) nval kind root none false fuel = some r) :
    ∃ L : List K, L.Nodup ∧ (∀ u, u ∈ L ↔ Reach adj root u) ∧ r.st.trace.Perm (L.flatMap (edgesOf adj)) := by
  cases kind with
  | bfs => exact Bfs.trace_perm adj nval root fuel r h
  | dfs => exact Dfs.trace_perm adj nval root fuel r h
  | pfsMin => exact Pfs.trace_perm adj nval .pfsMin (Or.inl rfl) root fuel r h
  | pfsMax => exact Pfs.trace_perm adj nval .pfsMax (Or.inr rfl) root fuel r h

/-- the same for the orderings -/
theorem Trace.order_sees_all (adj : K → List (K × E)) (post : Bool) (root : K) (fuel : Nat) (st : TSt K E)
    (h : orderEdges adj (fun _ _ _ => true) post root fuel = some st) :
    ∃ L : List K, L.Nodup ∧ (∀ u, u ∈ L ↔ Reach adj root u) ∧ st.trace.Perm (L.flatMap (edgesOf adj)) :=
  Order.trace_perm adj post root fuel st h

/-- every edge handed to the closure is an edge of the iterated list of its source, with its stored value
    (any method, target or mode) -/
theorem Trace.true_endpoints (adj : K → List (K × E)) (acc : K → K → E → Bool) (nval : K → Int) (kind : Kind)
    (root : K) (target : Option K) (cycle : Bool) (fuel : Nat) (r : Run K E)
    (h : runLoop adj acc nval kind root target cycle fuel = some r) :
    ∀ x ∈ r.st.trace, (x.2.1, x.2.2) ∈ adj x.1 := by
  cases kind with
  | bfs => exact Bfs.trace_sound adj acc nval root target cycle fuel r h
  | dfs => exact Dfs.trace_sound adj acc nval root target cycle fuel r h
  | pfsMin => exact Pfs.trace_sound adj acc nval .pfsMin (Or.inl rfl) root target cycle fuel r h
  | pfsMax => exact Pfs.trace_sound adj acc nval .pfsMax (Or.inr rfl) root target cycle fuel r h

theorem Trace.order_true_endpoints (adj : K → List (K × E)) (acc : K → K → E → Bool) (post : Bool) (root : K)
    (fuel : Nat) (st : TSt K E) (h : orderEdges adj acc post root fuel = some st) :
    ∀ x ∈ st.trace, (x.2.1, x.2.2) ∈ adj x.1 :=
  Order.trace_sound adj acc post root fuel st h

/-- a rejected edge never enters the edge tree, hence never appears in a returned path, cycle or ordering -/
theorem Filter.excluded (adj : K → List (K × E)) (acc : K → K → E → Bool) (nval : K → Int) (kind : Kind)
    (root : K) (target : Option K) (cycle : Bool) (fuel : Nat) (r : Run K E)
    (h : runLoop adj acc nval kind root target cycle fuel = some r) :
    ∀ x ∈ r.st.tree, (x.2.1, x.2.2) ∈ accAdj adj acc x.1 := by
  cases kind with
  | bfs => exact Bfs.tree_accepted adj acc nval root target cycle fuel r h
  | dfs => exact Dfs.tree_accepted adj acc nval root target cycle fuel r h
  | pfsMin => exact Pfs.tree_accepted adj acc nval .pfsMin (Or.inl rfl) root target cycle fuel r h
  | pfsMax => exact Pfs.tree_accepted adj acc nval .pfsMax (Or.inr rfl) root target cycle fuel r h

theorem Filter.order_excluded (adj : K → List (K × E)) (acc : K → K → E → Bool) (post : Bool) (root : K)
    (fuel : Nat) (st : TSt K E) (h : orderEdges adj acc post root fuel = some st) :
    ∀ x ∈ st.tree, (x.2.1, x.2.2) ∈ accAdj adj acc x.1 :=
  Order.tree_accepted adj acc post root fuel st h

/-- reachability is decided in the graph of accepted edges only: a filtered search is the unfiltered
    search of the accepted subgraph (same verdict, same visited set, same edge tree). For the recursive
    loops (dfs, orderings) stepping over a rejected edge costs fuel, hence the `isSome` hypothesis. -/
theorem Filter.as_subgraph (adj : K → List (K × E)) (acc : K → K → E → Bool) (nval : K → Int) (kind : Kind)
    (root : K) (target : Option K) (cycle : Bool) (fuel : Nat)
    (hs : (runLoop adj acc nval kind root target cycle fuel).isSome = true) :
    (runLoop adj acc nval kind root target cycle fuel).map (fun r => (r.found, r.st.vis, r.st.tree)) =
    (runLoop (accAdj adj acc) (fun _ _ _ => true) nval kind root target cycle fuel).map
      (fun r => (r.found, r.st.vis, r.st.tree)) := by
  cases kind with
  | bfs => exact Bfs.filter_subgraph adj acc nval root target cycle fuel
  | dfs => exact Dfs.filter_subgraph adj acc nval root target cycle fuel hs
  | pfsMin => exact Pfs.filter_subgraph adj acc nval .pfsMin (Or.inl rfl) root target cycle fuel
  | pfsMax => exact Pfs.filter_subgraph adj acc nval .pfsMax (Or.inr rfl) root target cycle fuel

theorem Filter.order_as_subgraph (adj : K → List (K × E)) (acc : K → K → E → Bool) (post : Bool) (root : K)
    (fuel : Nat) (hs : (orderEdges adj acc post root fuel).isSome = true) :
    (orderEdges adj acc post root fuel).map (fun st => (st.vis, st.tree)) =
    (orderEdges (accAdj adj acc) (fun _ _ _ => true) post root fuel).map (fun st => (st.vis, st.tree)) :=
  Order.filter_subgraph adj acc post root fuel hs

end G

import GdslModel.Gen.Traits
/-!
# C16 — thread-sharing is exactly as safe as the payload types
The definition tables `Gen.sync_digraph` … are regenerated from the Rust sources on every run, so
these theorems are re-checked against what the code says now. The verdict for a type depends on a
payload only through its capability bits (Send, Sync, and whether it meets any *additional* bound an
explicit impl asks, such as `'static`), so deciding all 8³ assignments is a proof for every
instantiation of `K`, `N`, `E`; in particular the verdict may not depend on the additional bit.
-/
namespace G.Traits

/-- lifting the finite check to all capability assignments -/
theorem exact_spec (defs : List Def) (idx : Nat) (h : exactFor defs idx = true) (k n e : Caps) (tr : Tr) :
    verdict defs idx tr k n e = (full k && full n && full e) := by
  unfold exactFor at h
  simp only [List.all_eq_true] at h
  have := h k (mem_allCaps k) n (mem_allCaps n) e (mem_allCaps e) tr (by cases tr <;> simp)
  simpa using this

theorem never_spec (defs : List Def) (idx : Nat) (h : neverFor defs idx = true) (k n e : Caps) (tr : Tr) :
    verdict defs idx tr k n e = false := by
  unfold neverFor at h
  simp only [List.all_eq_true] at h
  have := h k (mem_allCaps k) n (mem_allCaps n) e (mem_allCaps e) tr (by cases tr <;> simp)
  simpa using this

/-- a sync node, edge or graph is `Send` (`Sync`) exactly when K, N and E are all `Send + Sync` -/
theorem sync_digraph_exact (k n e : Caps) (tr : Tr) :
    verdict Gen.sync_digraph iNode tr k n e = (full k && full n && full e) ∧
    verdict Gen.sync_digraph iEdge tr k n e = (full k && full n && full e) ∧
    verdict Gen.sync_digraph iGraph tr k n e = (full k && full n && full e) :=
  ⟨exact_spec _ _ (by decide) k n e tr, exact_spec _ _ (by decide) k n e tr, exact_spec _ _ (by decide) k n e tr⟩

theorem sync_ungraph_exact (k n e : Caps) (tr : Tr) :
    verdict Gen.sync_ungraph iNode tr k n e = (full k && full n && full e) ∧
    verdict Gen.sync_ungraph iEdge tr k n e = (full k && full n && full e) ∧
    verdict Gen.sync_ungraph iGraph tr k n e = (full k && full n && full e) :=
  ⟨exact_spec _ _ (by decide) k n e tr, exact_spec _ _ (by decide) k n e tr, exact_spec _ _ (by decide) k n e tr⟩

/-- the plain types are never `Send` or `Sync` -/
theorem plain_never (k n e : Caps) (tr : Tr) :
    verdict Gen.digraph iNode tr k n e = false ∧ verdict Gen.digraph iEdge tr k n e = false ∧
    verdict Gen.digraph iGraph tr k n e = false ∧
    verdict Gen.ungraph iNode tr k n e = false ∧ verdict Gen.ungraph iEdge tr k n e = false ∧
    verdict Gen.ungraph iGraph tr k n e = false :=
  ⟨never_spec _ _ (by decide) k n e tr, never_spec _ _ (by decide) k n e tr, never_spec _ _ (by decide) k n e tr,
   never_spec _ _ (by decide) k n e tr, never_spec _ _ (by decide) k n e tr, never_spec _ _ (by decide) k n e tr⟩

/-- the weak handle type stored in adjacency lists follows the same rule (it is part of `Node`'s field types) -/
theorem sync_weak_exact (k n e : Caps) (tr : Tr) :
    verdict Gen.sync_digraph iWeakNode tr k n e = (full k && full n && full e) ∧
    verdict Gen.sync_ungraph iWeakNode tr k n e = (full k && full n && full e) :=
  ⟨exact_spec _ _ (by decide) k n e tr, exact_spec _ _ (by decide) k n e tr⟩

/-- negative control: bounds that ask only `Send` for `Send` and only `Sync` for `Sync` (the unrepaired
    `sync_digraph`) are *not* exact: a `Send`-only node value (`Cell`) makes the node `Send` -/
def weakBounds : List Def :=
  [⟨.arc (.tuple [.param 0, .param 1, .rwlock (.named 1)]), some [(0, .send), (1, .send), (2, .send)], some [(0, .sync), (1, .sync), (2, .sync)]⟩,
   ⟨.tuple [.vec (.tuple [.named 2, .param 2]), .vec (.tuple [.named 2, .param 2])], none, none⟩,
   ⟨.weak (.tuple [.param 0, .param 1, .rwlock (.named 1)]), none, none⟩,
   ⟨.tuple [.named 0, .named 0, .param 2], none, none⟩, ⟨.hashmap (.param 0) (.named 0), none, none⟩]
theorem weak_bounds_not_exact : exactFor weakBounds iNode = false ∧
    verdict weakBounds iNode .send ⟨true, true, true⟩ ⟨true, false, true⟩ ⟨true, true, true⟩ = true := by decide

/-- negative control: an explicit impl that additionally asks `'static` (or any bound the struct itself does not have)
    is not exact: a borrowed payload that is `Send + Sync` no longer makes the node shareable -/
def staticBounds : List Def :=
  [⟨.arc (.tuple [.param 0, .param 1, .rwlock (.named 1)]),
    some [(0, .send), (0, .sync), (0, .extra), (1, .send), (1, .sync), (2, .send), (2, .sync)],
    some [(0, .send), (0, .sync), (1, .send), (1, .sync), (2, .send), (2, .sync)]⟩,
   ⟨.tuple [.vec (.tuple [.named 2, .param 2]), .vec (.tuple [.named 2, .param 2])], none, none⟩,
   ⟨.weak (.tuple [.param 0, .param 1, .rwlock (.named 1)]), none, none⟩,
   ⟨.tuple [.named 0, .named 0, .param 2], none, none⟩, ⟨.hashmap (.param 0) (.named 0), none, none⟩]
theorem static_bounds_not_exact : exactFor staticBounds iNode = false ∧
    verdict staticBounds iNode .send ⟨true, true, false⟩ ⟨true, true, true⟩ ⟨true, true, true⟩ = false := by decide

end G.Traits

import GdslModel.Lemmas.Conc
import GdslModel.Lemmas.Reads
import GdslModel.Lemmas.ConcMixed
/-!
# C17 — concurrent operations on sync nodes terminate and serialise
Threads run sequences of lock programs (`Model/Sync.lean`) over one shared store; `Conf.step c i`
is one atomic lock event of thread `i`, enabled only if the reader–writer lock admits it;
a schedule is any list of thread indices, so "for every schedule" is "for every interleaving of
lock events", for any number of threads. These theorems are about the code after the repairs F1, F13
and F14 (mutators take the mutation mutex); `Conc.unlocked_not_serialisable` shows that without the
mutex the same model is not serialisable (so the theorem is not vacuous, and dropping the mutex
breaks a proof).
-/
namespace G
variable {K E : Type} [DecidableEq K]

/-- the initial configuration: thread `i` performs the calls `calls[i]` one after the other -/
def Conc.initDi (s : Store K E) (calls : List (List (Op K E))) : Conf K E (List (Res E)) :=
  { store := s, threads := calls.map fun ops => { prog := seqProg (ops.map (Sync.Di.prog true)) } }
def Conc.initUn (s : Store K E) (calls : List (List (Op K E))) : Conf K E (List (Res E)) :=
  { store := s, threads := calls.map fun ops => { prog := seqProg (ops.map (Sync.Un.prog true)) } }

/-- T1, no deadlock: in every configuration reachable by any schedule, if some thread is unfinished
    then some thread can take a step (also with readers: see `Conc.deadlock_free_wf`) -/
theorem Conc.deadlock_free_di (s : Store K E) (calls : List (List (Op K E))) (sched : List Nat) :
    (∃ t ∈ ((Conc.initDi s calls).runSched sched).threads, t.finished = false) →
    ∃ i, (((Conc.initDi s calls).runSched sched).step i).isSome = true :=
  Conc.deadlock_free_di' s calls sched

theorem Conc.deadlock_free_un (s : Store K E) (calls : List (List (Op K E))) (sched : List Nat) :
    (∃ t ∈ ((Conc.initUn s calls).runSched sched).threads, t.finished = false) →
    ∃ i, (((Conc.initUn s calls).runSched sched).step i).isSome = true :=
  Conc.deadlock_free_un' s calls sched

/-- T1 for arbitrary well-formed lock programs (mutators, queries, iterator steps, any sequence of them):
    `WFProg` = node locks are requested only while holding no node lock, the mutex only while holding
    nothing, everything acquired is released -/
theorem Conc.deadlock_free_wf {R : Type} (s : Store K E) (progs : List (Prog K E R)) (hwf : ∀ p ∈ progs, WFProg p)
    (sched : List Nat) :
    let c := ({ store := s, threads := progs.map fun p => { prog := p } } : Conf K E R).runSched sched
    (∃ t ∈ c.threads, t.finished = false) → ∃ i, (c.step i).isSome = true :=
  Conc.deadlock_free_wf' s progs hwf sched

/-- T4, serialisability: when all threads are done, the store and every return value are those of some
    sequential order of the same calls that respects each thread's own order -/
theorem Conc.serialisable_di (s : Store K E) (calls : List (List (Op K E))) (sched : List Nat)
    (hdone : ∀ t ∈ ((Conc.initDi s calls).runSched sched).threads, t.finished = true) :
    ∃ lin : List (Nat × Op K E),
      (∀ i, (lin.filter fun x => x.1 = i).map (·.2) = calls.getD i []) ∧
      ((Conc.initDi s calls).runSched sched).store = (lin.map (·.2)).foldl (fun s op => (Di.step s op).1) s ∧
      ∀ i, i < calls.length →
        (((Conc.initDi s calls).runSched sched).threads[i]?).bind Th.result =
          some (((linResults Di.step s lin).filter fun x => x.1 = i).map (·.2)) :=
  Conc.serialisable_di' s calls sched hdone

theorem Conc.serialisable_un (s : Store K E) (calls : List (List (Op K E))) (sched : List Nat)
    (hdone : ∀ t ∈ ((Conc.initUn s calls).runSched sched).threads, t.finished = true) :
    ∃ lin : List (Nat × Op K E),
      (∀ i, (lin.filter fun x => x.1 = i).map (·.2) = calls.getD i []) ∧
      ((Conc.initUn s calls).runSched sched).store = (lin.map (·.2)).foldl (fun s op => (Un.step s op).1) s ∧
      ∀ i, i < calls.length →
        (((Conc.initUn s calls).runSched sched).threads[i]?).bind Th.result =
          some (((linResults Un.step s lin).filter fun x => x.1 = i).map (·.2)) :=
  Conc.serialisable_un' s calls sched hdone

/-- hence no call panics and the mirror / symmetry invariant holds at quiescence -/
theorem Conc.quiescent_mirror_di (s : Store K E) (hm : Mirror s) (calls : List (List (Op K E))) (sched : List Nat)
    (hdone : ∀ t ∈ ((Conc.initDi s calls).runSched sched).threads, t.finished = true) :
    Mirror ((Conc.initDi s calls).runSched sched).store :=
  Conc.quiescent_mirror_di' s hm calls sched hdone

theorem Conc.quiescent_mirror_un (s : Store K E) (hm : Mirror s) (calls : List (List (Op K E))) (sched : List Nat)
    (hdone : ∀ t ∈ ((Conc.initUn s calls).runSched sched).threads, t.finished = true) :
    Mirror ((Conc.initUn s calls).runSched sched).store :=
  Conc.quiescent_mirror_un' s hm calls sched hdone

/-- T5, negative control: without the mutation mutex two concurrent `connect`s of the same pair can leave
    the two lists in different orders (`u.out = [e1, e2]`, `v.in = [e2, e1]`), which no sequential order produces -/
theorem Conc.unlocked_not_serialisable :
    ∃ sched : List Nat,
      let c := ({ store := ({} : Store Nat Nat),
                  threads := [{ prog := Sync.connect false 0 1 1 }, { prog := Sync.connect false 0 1 2 }] } : Conf Nat Nat (Res Nat)).runSched sched
      (∀ t ∈ c.threads, t.finished = true) ∧ (c.store.get 0).out = [(1, 1), (1, 2)] ∧ (c.store.get 1).inn = [(0, 2), (0, 1)] :=
  Conc.unlocked_not_serialisable'

/-! ### readers are inert
`NoWrite p` (Lemmas/Reads.lean): the lock program `p` contains no `write`, whatever it reads. -/

/-- every query and every iterator step of the sync flavours is write-free, and so is every sequence
    of write-free calls and everything composed from them with `bind` -/
theorem Conc.queries_write_free (u v : K) (sel : Adj K E → List (K × E)) (pos : Nat) :
    NoWrite (Sync.iterNext (E := E) u sel pos) ∧
    NoWrite (Sync.Di.isConnected (E := E) u v) ∧ NoWrite (Sync.Di.outDegree (E := E) u) ∧
    NoWrite (Sync.Di.inDegree (E := E) u) ∧ NoWrite (Sync.Di.isOrphan (E := E) u) ∧
    NoWrite (Sync.Un.isConnected (E := E) u v) ∧ NoWrite (Sync.Un.degree (E := E) u) ∧
    NoWrite (Sync.Un.isOrphan (E := E) u) :=
  ⟨Conc.noWrite_iterNext u sel pos, Conc.noWrite_query u _, Conc.noWrite_query u _, Conc.noWrite_query u _,
   Conc.noWrite_di_isOrphan u, Conc.noWrite_query u _, Conc.noWrite_query u _, Conc.noWrite_query u _⟩

theorem Conc.query_write_free {R : Type} (u : K) (f : Adj K E → R) : NoWrite (Sync.query u f) :=
  Conc.noWrite_query u f

theorem Conc.write_free_bind {R S : Type} (p : Prog K E R) (f : R → Prog K E S) (hp : NoWrite p)
    (hf : ∀ r, NoWrite (f r)) : NoWrite (p.bind f) :=
  NoWrite.bind hp hf

theorem Conc.write_free_seq {R : Type} (ps : List (Prog K E R)) (h : ∀ p ∈ ps, NoWrite p) : NoWrite (seqProg ps) :=
  Conc.noWrite_seqProg ps h

/-- a step of a thread whose residual program is write-free leaves the store unchanged, changes no other
    thread, and leaves that thread with a write-free residual program -/
theorem Conc.reads_inert {R : Type} (c c' : Conf K E R) (i : Nat) (t : Th K E R) (ht : c.threads[i]? = some t)
    (hn : NoWrite t.prog) (hs : c.step i = some c') :
    c'.store = c.store ∧ ∃ t', c'.threads = c.threads.set i t' ∧ NoWrite t'.prog :=
  Conc.reads_inert' c c' i t ht hn hs

/-- if all threads run write-free programs (queries, iterations, any sequences of them), the store never
    changes, along any schedule, and all residual programs stay write-free -/
theorem Conc.readers_never_change_store {R : Type} (c : Conf K E R) (h : ∀ t ∈ c.threads, NoWrite t.prog)
    (sched : List Nat) :
    (c.runSched sched).store = c.store ∧ ∀ t ∈ (c.runSched sched).threads, NoWrite t.prog :=
  Conc.AllReaders.runSched h sched

/-! ### traversals and other readers running concurrently with mutators
`Sync.bfsProg`, `Sync.dfsProg`, `Sync.preProg` (Model/Sync.lean) are the lock programs of breadth-first and depth-first
`search()` and of the preorder: sequences of iterator steps with thread-local control. -/

/-- traversals write nothing and are well-formed lock programs (one read guard at a time, released before the
    next step): so `Conc.deadlock_free_wf` and `Conc.readers_never_change_store` apply to them -/
theorem Conc.traversals_write_free_wf (sel : Adj K E → List (K × E)) (tgt : Option K) (fuel : Nat)
    (cur : Option (K × Nat)) (q vis acc : List K) (stack : List (K × Nat)) :
    (NoWrite (Sync.bfsProg sel tgt fuel cur q vis) ∧ WFProg (Sync.bfsProg sel tgt fuel cur q vis)) ∧
    (NoWrite (Sync.dfsProg sel tgt fuel stack vis) ∧ WFProg (Sync.dfsProg sel tgt fuel stack vis)) ∧
    (NoWrite (Sync.preProg sel fuel stack vis acc) ∧ WFProg (Sync.preProg sel fuel stack vis acc)) :=
  Conc.traversals_write_free_wf' sel tgt fuel cur q vis acc stack

/-- mutator threads together with any number of reader threads (queries, iterations, traversals: any write-free
    well-formed lock programs). The initial configuration lists the mutator threads first. -/
def Conc.initMixedDi (s : Store K E) (calls : List (List (Op K E))) (readers : List (Prog K E (List (Res E)))) :
    Conf K E (List (Res E)) :=
  { store := s, threads := (calls.map fun ops => { prog := seqProg (ops.map (Sync.Di.prog true)) }) ++
      (readers.map fun p => { prog := p }) }
def Conc.initMixedUn (s : Store K E) (calls : List (List (Op K E))) (readers : List (Prog K E (List (Res E)))) :
    Conf K E (List (Res E)) :=
  { store := s, threads := (calls.map fun ops => { prog := seqProg (ops.map (Sync.Un.prog true)) }) ++
      (readers.map fun p => { prog := p }) }

/-- no deadlock with readers and traversals in the mix -/
theorem Conc.deadlock_free_mixed_di (s : Store K E) (calls : List (List (Op K E))) (readers : List (Prog K E (List (Res E))))
    (hr : ∀ p ∈ readers, WFProg p) (sched : List Nat) :
    (∃ t ∈ ((Conc.initMixedDi s calls readers).runSched sched).threads, t.finished = false) →
    ∃ i, (((Conc.initMixedDi s calls readers).runSched sched).step i).isSome = true :=
  Conc.deadlock_free_mixed_di' s calls readers hr sched

theorem Conc.deadlock_free_mixed_un (s : Store K E) (calls : List (List (Op K E))) (readers : List (Prog K E (List (Res E))))
    (hr : ∀ p ∈ readers, WFProg p) (sched : List Nat) :
    (∃ t ∈ ((Conc.initMixedUn s calls readers).runSched sched).threads, t.finished = false) →
    ∃ i, (((Conc.initMixedUn s calls readers).runSched sched).step i).isSome = true :=
  Conc.deadlock_free_mixed_un' s calls readers hr sched

/-- serialisability with readers and traversals in the mix: at quiescence the store and the mutators' return values
    are those of a sequential order of the mutator calls (readers change nothing and do not disturb the order) -/
theorem Conc.serialisable_mixed_di (s : Store K E) (calls : List (List (Op K E))) (readers : List (Prog K E (List (Res E))))
    (hr : ∀ p ∈ readers, NoWrite p ∧ WFProg p) (sched : List Nat)
    (hdone : ∀ t ∈ ((Conc.initMixedDi s calls readers).runSched sched).threads, t.finished = true) :
    ∃ lin : List (Nat × Op K E),
      (∀ i, (lin.filter fun x => x.1 = i).map (·.2) = calls.getD i []) ∧
      ((Conc.initMixedDi s calls readers).runSched sched).store = (lin.map (·.2)).foldl (fun s op => (Di.step s op).1) s ∧
      ∀ i, i < calls.length →
        (((Conc.initMixedDi s calls readers).runSched sched).threads[i]?).bind Th.result =
          some (((linResults Di.step s lin).filter fun x => x.1 = i).map (·.2)) :=
  Conc.serialisable_mixed_di' s calls readers hr sched hdone

theorem Conc.serialisable_mixed_un (s : Store K E) (calls : List (List (Op K E))) (readers : List (Prog K E (List (Res E))))
    (hr : ∀ p ∈ readers, NoWrite p ∧ WFProg p) (sched : List Nat)
    (hdone : ∀ t ∈ ((Conc.initMixedUn s calls readers).runSched sched).threads, t.finished = true) :
    ∃ lin : List (Nat × Op K E),
      (∀ i, (lin.filter fun x => x.1 = i).map (·.2) = calls.getD i []) ∧
      ((Conc.initMixedUn s calls readers).runSched sched).store = (lin.map (·.2)).foldl (fun s op => (Un.step s op).1) s ∧
      ∀ i, i < calls.length →
        (((Conc.initMixedUn s calls readers).runSched sched).threads[i]?).bind Th.result =
          some (((linResults Un.step s lin).filter fun x => x.1 = i).map (·.2)) :=
  Conc.serialisable_mixed_un' s calls readers hr sched hdone

end G

import GdslModel.Lemmas.Bfs
import GdslModel.Lemmas.Dfs
import GdslModel.Lemmas.Pfs
import GdslModel.Lemmas.Extra
import GdslModel.Lemmas.PathView
/-!
# C09 — search_cycle returns a genuine cycle through the root iff one exists
`A = accAdj adj acc`. With `adj = outAdj s` these are the directed statements, with
`adj = unAdj s` (half-edges in both orientations) the undirected ones: a result exactly when some
closed walk of accepted edges leads from the root back to it, and the result is such a walk.
-/
namespace G
variable {K E : Type} [DecidableEq K]

/-- the result starts and ends at the root and consists of existing accepted edges joined end to start -/
theorem Cycle.sound (adj : K → List (K × E)) (acc : K → K → E → Bool) (nval : K → Int) (kind : Kind)
    (root : K) (target : Option K) (fuel : Nat) (p : List (Edge K E)) (run : Run K E)
    (h : searchPath adj acc nval kind root target true fuel = some (some p, run)) :
    IsPath (accAdj adj acc) root root p := by
  unfold searchPath at h
  cases hr : runLoop adj acc nval kind root target true fuel with
  | none => simp [hr] at h
  | some r =>
    simp only [hr, Option.map_some, Option.some.injEq, Prod.mk.injEq] at h
    obtain ⟨h1, rfl⟩ := h
    have hf : r.found = true := by
      cases hfd : r.found with
      | true => rfl
      | false => simp [hfd] at h1
    simp only [hf, if_true, Option.some.injEq] at h1
    subst h1
    have key : ∃ t, goal root target true = some t ∧ IsPath (accAdj adj acc) root t (backtrack r.st.tree) := by
      cases kind with
      | bfs => exact Bfs.run_sound adj acc nval root target true fuel r hr hf
      | dfs => exact Dfs.run_sound adj acc nval root target true fuel r hr hf
      | pfsMin => exact Pfs.run_sound adj acc nval .pfsMin (Or.inl rfl) root target true fuel r hr hf
      | pfsMax => exact Pfs.run_sound adj acc nval .pfsMax (Or.inr rfl) root target true fuel r hr hf
    obtain ⟨t, hg, hp⟩ := key
    have : t = root := by simp [goal] at hg; exact hg.symm
    subst this
    exact hp

/-- what the accessors of the returned `Path` hand out: `first_node()` is the root, `last_node()` again the root,
    `first_edge()` leaves the root, `last_edge()` enters again the root, `to_vec_nodes()` / `iter_nodes()` is the root
    followed by again the root of every edge, `len()` = number of edges + 1 -/
theorem Cycle.accessors (adj : K → List (K × E)) (acc : K → K → E → Bool) (nval : K → Int) (kind : Kind)
    (root : K) (target : Option K) (fuel : Nat) (p : List (Edge K E)) (run : Run K E)
    (h : searchPath adj acc nval kind root target true fuel = some (some p, run)) :
    pathFirstNode p = some root ∧ pathLastNode p = some root ∧
    (∃ x, pathFirstEdge p = some x ∧ x.1 = root) ∧ (∃ y, pathLastEdge p = some y ∧ y.2.1 = root) ∧
    pathNodes p = root :: p.map (·.2.1) ∧ (pathNodes p).length = p.length + 1 :=
  (Cycle.sound adj acc nval kind root target fuel p run h).accessors

/-- `None` only if no path of one or more accepted edges leads from the root back to the root -/
theorem Cycle.complete (adj : K → List (K × E)) (acc : K → K → E → Bool) (nval : K → Int) (kind : Kind)
    (root : K) (target : Option K) (fuel : Nat) (run : Run K E)
    (h : searchPath adj acc nval kind root target true fuel = some (none, run)) :
    ¬ ∃ q, IsPath (accAdj adj acc) root root q := by
  unfold searchPath at h
  cases hr : runLoop adj acc nval kind root target true fuel with
  | none => simp [hr] at h
  | some r =>
    simp only [hr, Option.map_some, Option.some.injEq, Prod.mk.injEq] at h
    obtain ⟨h1, rfl⟩ := h
    have hf : r.found = false := by
      cases hfd : r.found with
      | false => rfl
      | true => simp [hfd] at h1
    have hg : goal root target true = some root := by simp [goal]
    cases kind with
    | bfs => exact Bfs.run_complete adj acc nval root target true fuel r hr hf root hg (by simp)
    | dfs => exact Dfs.run_complete adj acc nval root target true fuel r hr hf root hg (by simp)
    | pfsMin => exact Pfs.run_complete adj acc nval .pfsMin (Or.inl rfl) root target true fuel r hr hf root hg (by simp)
    | pfsMax => exact Pfs.run_complete adj acc nval .pfsMax (Or.inr rfl) root target true fuel r hr hf root hg (by simp)

/-- the targets of the cycle's edges are pairwise distinct: no intermediate node occurs twice, none of
    them is the root (the last target is), hence no edge is used twice -/
theorem Cycle.simple (adj : K → List (K × E)) (acc : K → K → E → Bool) (nval : K → Int) (kind : Kind)
    (root : K) (target : Option K) (fuel : Nat) (p : List (Edge K E)) (run : Run K E)
    (h : searchPath adj acc nval kind root target true fuel = some (some p, run)) :
    (p.map (fun x => x.2.1)).Nodup ∧ p.Nodup := by
  unfold searchPath at h
  cases hr : runLoop adj acc nval kind root target true fuel with
  | none => simp [hr] at h
  | some r =>
    simp only [hr, Option.map_some, Option.some.injEq, Prod.mk.injEq] at h
    obtain ⟨h1, rfl⟩ := h
    have hf : r.found = true := by
      cases hfd : r.found with
      | true => rfl
      | false => simp [hfd] at h1
    simp only [hf, if_true, Option.some.injEq] at h1
    subst h1
    have key : ((backtrack r.st.tree).map (fun x => x.2.1)).Nodup := by
      cases kind with
      | bfs => exact Bfs.run_simple adj acc nval root target true fuel r hr hf
      | dfs => exact Dfs.run_simple adj acc nval root target true fuel r hr hf
      | pfsMin => exact Pfs.run_simple adj acc nval .pfsMin (Or.inl rfl) root target true fuel r hr hf
      | pfsMax => exact Pfs.run_simple adj acc nval .pfsMax (Or.inr rfl) root target true fuel r hr hf
    exact ⟨key, (List.pairwise_map.mp key).imp (fun hne heq => hne (by rw [heq]))⟩

/-- breadth-first: no cycle through the root has fewer edges -/
theorem Cycle.bfs_minimal (adj : K → List (K × E)) (acc : K → K → E → Bool) (nval : K → Int)
    (root : K) (target : Option K) (fuel : Nat) (p : List (Edge K E)) (run : Run K E)
    (h : searchPath adj acc nval .bfs root target true fuel = some (some p, run)) :
    ∀ q, IsPath (accAdj adj acc) root root q → p.length ≤ q.length := by
  unfold searchPath at h
  cases hr : runLoop adj acc nval .bfs root target true fuel with
  | none => simp [hr] at h
  | some r =>
    simp only [hr, Option.map_some, Option.some.injEq, Prod.mk.injEq] at h
    obtain ⟨h1, rfl⟩ := h
    have hf : r.found = true := by
      cases hfd : r.found with
      | true => rfl
      | false => simp [hfd] at h1
    simp only [hf, if_true, Option.some.injEq] at h1
    subst h1
    exact Bfs.run_minimal adj acc nval root target true fuel r hr hf root (by simp [goal])

/-- the self-loop of finding F3: `r→a, r→r` gives the one-edge cycle `[(r,r)]` -/
example : (searchPath (K := Nat) (E := Nat) (fun u => if u = 0 then [(1, 0), (0, 1)] else [])
    (fun _ _ _ => true) (fun _ => 0) .bfs 0 none true 4).map (·.1) = some (some [(0, 0, 1)]) := by decide

/-- undirected flavours, no filter: under the symmetry invariant a closed walk through the root exists
    exactly when the root has an incident edge (go to the peer and come back over the opposite half) -/
theorem Cycle.undirected_iff_incident (s : Store K E) (h : Mirror s) (r : K) :
    (∃ q, IsPath (unAdj s) r r q) ↔ unAdj s r ≠ [] :=
  cycle_undirected_iff s h r

/-- hence an unfiltered undirected `search_cycle` (any of the four kinds) returns a cycle exactly when
    the root is not an orphan -/
theorem Cycle.undirected_search_iff (s : Store K E) (h : Mirror s) (nval : K → Int) (kind : Kind)
    (root : K) (target : Option K) (fuel : Nat) (res : Option (List (Edge K E))) (run : Run K E)
    (hs : searchPath (unAdj s) (fun _ _ _ => true) nval kind root target true fuel = some (res, run)) :
    res.isSome = true ↔ unAdj s root ≠ [] := by
  rw [← Cycle.undirected_iff_incident s h root]
  have hacc : accAdj (unAdj s) (fun _ _ _ => true) = unAdj s := accAdj_true _
  cases res with
  | some p =>
    have := Cycle.sound _ _ nval kind root target fuel p run hs
    rw [hacc] at this
    simp only [Option.isSome_some, true_iff]
    exact ⟨p, this⟩
  | none =>
    have := Cycle.complete _ _ nval kind root target fuel run hs
    rw [hacc] at this
    simp only [Option.isSome_none, Bool.false_eq_true, false_iff]
    exact this

end G

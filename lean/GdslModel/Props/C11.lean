import GdslModel.Lemmas.Scc
import GdslModel.Lemmas.Extra
/-!
# C11 — scc() is the mutual-reachability partition
`scc adj radj π fuel` is `Graph::scc` (after the repair of F9) for a container whose hash map
iterates in order `π`; `adj` are the outgoing lists, `radj` the incoming lists. The hypotheses say:
`π` lists the members once, the container is closed under neighbours, and `radj` is the transpose
of `adj` (that is C01's mirror invariant).
-/
namespace G
variable {K E : Type} [DecidableEq K]

/-- `radj` is `adj` with every edge reversed -/
def IsTranspose (adj radj : K → List (K × E)) : Prop := ∀ u v, (∃ e, (v, e) ∈ adj u) ↔ (∃ e, (u, e) ∈ radj v)

/-- every member appears in exactly one component -/
theorem Scc.partition (adj radj : K → List (K × E)) (π : List K) (fuel : Nat) (comps : List (List K))
    (hnd : π.Nodup) (hc : Closed adj π) (hrc : Closed radj π) (ht : IsTranspose adj radj)
    (h : scc adj radj π fuel = some comps) :
    comps.flatten.Perm π ∧ ∀ c ∈ comps, c ≠ [] :=
  Scc.partition' adj radj π fuel comps hnd hc hrc ht h

/-- two nodes of one component reach each other -/
theorem Scc.sound (adj radj : K → List (K × E)) (π : List K) (fuel : Nat) (comps : List (List K))
    (hnd : π.Nodup) (hc : Closed adj π) (hrc : Closed radj π) (ht : IsTranspose adj radj)
    (h : scc adj radj π fuel = some comps) :
    ∀ c ∈ comps, ∀ u ∈ c, ∀ v ∈ c, Reach adj u v :=
  Scc.sound' adj radj π fuel comps hnd hc hrc ht h

/-- two members that reach each other share a component -/
theorem Scc.complete (adj radj : K → List (K × E)) (π : List K) (fuel : Nat) (comps : List (List K))
    (hnd : π.Nodup) (hc : Closed adj π) (hrc : Closed radj π) (ht : IsTranspose adj radj)
    (h : scc adj radj π fuel = some comps) :
    ∀ u ∈ π, ∀ v ∈ π, Reach adj u v → Reach adj v u → ∃ c ∈ comps, u ∈ c ∧ v ∈ c :=
  Scc.complete' adj radj π fuel comps hnd hc hrc ht h

/-- as a set of sets the result does not depend on the iteration order -/
theorem Scc.order_independent (adj radj : K → List (K × E)) (π π' : List K) (fuel fuel' : Nat)
    (comps comps' : List (List K))
    (hnd : π.Nodup) (hnd' : π'.Nodup) (hperm : ∀ k, k ∈ π ↔ k ∈ π')
    (hc : Closed adj π) (hrc : Closed radj π) (ht : IsTranspose adj radj)
    (h : scc adj radj π fuel = some comps) (h' : scc adj radj π' fuel' = some comps') :
    ∀ c ∈ comps, ∃ c' ∈ comps', ∀ x, x ∈ c ↔ x ∈ c' :=
  Scc.order_independent' adj radj π π' fuel fuel' comps comps' hnd hnd' hperm hc hrc ht h h'

theorem Scc.fuel_enough (adj radj : K → List (K × E)) (π : List K) (fuel : Nat)
    (hc : Closed adj π) (hrc : Closed radj π) (hf : π.length < fuel) :
    (scc adj radj π fuel).isSome = true :=
  Scc.fuel_enough' adj radj π fuel hc hrc hf

/-- on a graph built by a history, `scc()` never runs out of fuel for a container `π` that holds all
    keys the history mentions, with any fuel above its size (`opKeys`: Lemmas/Extra.lean, see Props/C04.lean) -/
theorem Scc.history_fuel (ops : List (Op K E)) (π : List K) (fuel : Nat)
    (hk : ∀ k ∈ opKeys ops, k ∈ π) (hf : π.length < fuel) :
    (scc (outAdj (Di.run ops)) (inAdj (Di.run ops)) π fuel).isSome = true := by
  have hc := history_closed ops (fun _ _ _ => true) π hk
  rw [accAdj_true, accAdj_true] at hc
  exact Scc.fuel_enough _ _ π fuel hc.1 hc.2.1 hf

end G

import GdslModel.Lemmas.Dfs
import GdslModel.Lemmas.Extra
import GdslModel.Lemmas.PathView
/-!
# C05 — depth-first search finds a valid simple path iff one exists
-/
namespace G
variable {K E : Type} [DecidableEq K]

theorem Dfs.path_sound (adj : K → List (K × E)) (acc : K → K → E → Bool) (nval : K → Int) (root t : K) (fuel : Nat)
    (p : List (Edge K E)) (run : Run K E)
    (h : searchPath adj acc nval .dfs root (some t) false fuel = some (some p, run)) :
    IsPath (accAdj adj acc) root t p :=
  Dfs.path_sound' adj acc nval root t fuel p run h

/-- what the accessors of the returned `Path` hand out: `first_node()` is the root, `last_node()` the target,
    `first_edge()` leaves the root, `last_edge()` enters the target, `to_vec_nodes()` / `iter_nodes()` is the root
    followed by the target of every edge, `len()` = number of edges + 1 -/
theorem Dfs.path_accessors (adj : K → List (K × E)) (acc : K → K → E → Bool) (nval : K → Int) (root t : K) (fuel : Nat)
    (p : List (Edge K E)) (run : Run K E)
    (h : searchPath adj acc nval .dfs root (some t) false fuel = some (some p, run)) :
    pathFirstNode p = some root ∧ pathLastNode p = some t ∧
    (∃ x, pathFirstEdge p = some x ∧ x.1 = root) ∧ (∃ y, pathLastEdge p = some y ∧ y.2.1 = t) ∧
    pathNodes p = root :: p.map (·.2.1) ∧ (pathNodes p).length = p.length + 1 :=
  (Dfs.path_sound adj acc nval root t fuel p run h).accessors

/-- the path visits no node twice -/
theorem Dfs.path_simple (adj : K → List (K × E)) (acc : K → K → E → Bool) (nval : K → Int) (root t : K) (fuel : Nat)
    (p : List (Edge K E)) (run : Run K E)
    (h : searchPath adj acc nval .dfs root (some t) false fuel = some (some p, run)) :
    (pathNodes p).Nodup :=
  Dfs.path_simple' adj acc nval root t fuel p run h

theorem Dfs.path_complete (adj : K → List (K × E)) (acc : K → K → E → Bool) (nval : K → Int) (root t : K) (fuel : Nat)
    (run : Run K E) (hrt : t ≠ root)
    (h : searchPath adj acc nval .dfs root (some t) false fuel = some (none, run)) :
    ¬ Reach (accAdj adj acc) root t :=
  Dfs.path_complete' adj acc nval root t fuel run hrt h

theorem Dfs.path_iff (adj : K → List (K × E)) (acc : K → K → E → Bool) (nval : K → Int) (root t : K) (fuel : Nat)
    (res : Option (List (Edge K E))) (run : Run K E) (hrt : t ≠ root)
    (h : searchPath adj acc nval .dfs root (some t) false fuel = some (res, run)) :
    res.isSome = true ↔ Reach (accAdj adj acc) root t :=
  Dfs.path_iff' adj acc nval root t fuel res run hrt h

theorem Dfs.search_iff (adj : K → List (K × E)) (acc : K → K → E → Bool) (nval : K → Int) (root t : K) (fuel : Nat)
    (x : Option K) (run : Run K E) (hrt : t ≠ root)
    (h : searchNode adj acc nval .dfs root (some t) fuel = some (x, run)) :
    (x = some t ∨ x = none) ∧ (x = some t ↔ Reach (accAdj adj acc) root t) :=
  Dfs.search_iff' adj acc nval root t fuel x run hrt h

theorem Dfs.fuel_enough (adj : K → List (K × E)) (acc : K → K → E → Bool) (nval : K → Int) (root : K)
    (target : Option K) (cycle : Bool) (fuel : Nat) (nodes : List K)
    (hc : Closed (accAdj adj acc) nodes) (hr : root ∈ nodes) (hf : nodes.length < fuel) :
    (runLoop adj acc nval .dfs root target cycle fuel).isSome = true :=
  Dfs.fuel_enough' adj acc nval root target cycle fuel nodes hc hr hf

example : (searchPath (K := Nat) (E := Nat)
    (fun u => if u = 0 then [(0, 9), (1, 0), (2, 2)] else if u = 1 then [(0, 3), (2, 4)] else if u = 2 then [(3, 5)] else [])
    (fun _ _ _ => true) (fun _ => 0) .dfs 0 (some 3) false 6).map (·.1) = some (some [(0, 1, 0), (1, 2, 4), (2, 3, 5)]) := by
  simp [searchPath, runLoop, dfsEdges, backtrack, backLoop]

/-- depth-first search on a graph built by a history never runs out of fuel when given
    `number of distinct keys + 1`: plain, transposed and undirected, any filter, target and mode
    (`opKeys`, `history_closed…`: Lemmas/Extra.lean, stated in Props/C04.lean) -/
theorem Dfs.history_fuel (ops : List (Op K E)) (acc : K → K → E → Bool) (nval : K → Int) (root : K)
    (target : Option K) (cycle : Bool) (hr : root ∈ opKeys ops) :
    (runLoop (outAdj (Di.run ops)) acc nval .dfs root target cycle ((opKeys ops).eraseDups.length + 1)).isSome = true ∧
    (runLoop (inAdj (Di.run ops)) acc nval .dfs root target cycle ((opKeys ops).eraseDups.length + 1)).isSome = true ∧
    (runLoop (unAdj (Un.run ops)) acc nval .dfs root target cycle ((opKeys ops).eraseDups.length + 1)).isSome = true := by
  have hc := history_closed_eraseDups ops acc
  have hr' := (mem_eraseDups_opKeys ops root).mpr hr
  exact ⟨Dfs.fuel_enough _ acc nval root target cycle _ _ hc.1 hr' (Nat.lt_succ_self _),
    Dfs.fuel_enough _ acc nval root target cycle _ _ hc.2.1 hr' (Nat.lt_succ_self _),
    Dfs.fuel_enough _ acc nval root target cycle _ _ hc.2.2 hr' (Nat.lt_succ_self _)⟩

/-- the form the driver uses: any node table containing the history's keys and the root, any fuel above its length -/
theorem Dfs.history_fuel_of_nodes (ops : List (Op K E)) (acc : K → K → E → Bool) (nval : K → Int) (root : K)
    (target : Option K) (cycle : Bool) (nodes : List K) (fuel : Nat)
    (hk : ∀ k ∈ opKeys ops, k ∈ nodes) (hr : root ∈ nodes) (hf : nodes.length < fuel) :
    (runLoop (outAdj (Di.run ops)) acc nval .dfs root target cycle fuel).isSome = true ∧
    (runLoop (inAdj (Di.run ops)) acc nval .dfs root target cycle fuel).isSome = true ∧
    (runLoop (unAdj (Un.run ops)) acc nval .dfs root target cycle fuel).isSome = true := by
  have hc := history_closed ops acc nodes hk
  exact ⟨Dfs.fuel_enough _ acc nval root target cycle _ _ hc.1 hr hf,
    Dfs.fuel_enough _ acc nval root target cycle _ _ hc.2.1 hr hf,
    Dfs.fuel_enough _ acc nval root target cycle _ _ hc.2.2 hr hf⟩

end G

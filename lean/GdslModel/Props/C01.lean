import GdslModel.Lemmas.Di
import GdslModel.Lemmas.Extra
/-!
# C01 — directed edges stay mirrored between source and target

Property theorems only; helper lemmas live in `GdslModel/Lemmas`.
-/
namespace G
variable {K E : Type} [DecidableEq K]

/-- the empty store is mirrored -/
theorem Di.mirror_init : Mirror ({} : Store K E) := Di.mirror_empty

/-- every edge operation (also with `u = v`, absent edges, failing calls) keeps the store mirrored -/
theorem Di.mirror_step (s : Store K E) (op : Op K E) (h : Mirror s) : Mirror (Di.step s op).1 :=
  Di.step_mirror s op h

/-- C01: after every prefix of every history the store is mirrored -/
theorem Di.mirror_run (ops : List (Op K E)) (n : Nat) : Mirror (Di.run (ops.take n)) :=
  Di.run_mirror (ops.take n)

/-- no edge operation reaches one of the `unwrap` panics from a mirrored store -/
theorem Di.no_panic (s : Store K E) (op : Op K E) (h : Mirror s) : (Di.step s op).2 ≠ .panic :=
  Di.step_no_panic s op h

/-- neighbour lookups of both endpoints agree: `u.is_connected(v)` iff `v.find_inbound(u)` finds something -/
theorem Di.connected_iff_inbound (s : Store K E) (h : Mirror s) (u v : K) :
    Di.isConnected s u v = hasKey (s.get v).inn u :=
  Di.connected_iff_inbound' s h u v

/-- equal multiplicity per pair: `u` lists as many edges to `v` as `v` lists edges from `u` -/
theorem Di.pair_multiplicity (s : Store K E) (h : Mirror s) (u v : K) :
    ((s.get u).out.filter (fun p => p.1 = v)).length = ((s.get v).inn.filter (fun p => p.1 = u)).length :=
  Di.pair_multiplicity' s h u v

/-- root/leaf predicates describe the same edge set from both ends:
    `v.is_root()` (empty incoming list) iff no node lists an edge to `v`;
    `u.is_leaf()` (empty outgoing list) iff no node lists an edge from `u` -/
theorem Di.root_iff (s : Store K E) (h : Mirror s) (v : K) :
    (s.get v).inn = [] ↔ ∀ u, vals (s.get u).out v = [] :=
  Di.root_iff' s h v
theorem Di.leaf_iff (s : Store K E) (h : Mirror s) (u : K) :
    (s.get u).out = [] ↔ ∀ v, vals (s.get v).inn u = [] :=
  Di.leaf_iff' s h u

/-- non-vacuity: a reachable store with a self-loop and parallel edges meets the hypothesis -/
example : Mirror (Di.run [Op.connect 0 0 7, .connect 0 1 1, .connect 0 1 2, .disconnect 0 0, .isolate 1] : Store Nat Nat) :=
  Di.run_mirror _

/-- handshake: in a mirrored store, over a duplicate-free set of nodes that contains every key occurring
    in a list of one of its members, the out-degrees and the in-degrees add up to the same number
    (every edge is counted once at its source and once at its target) -/
theorem Di.degree_balance (s : Store K E) (h : Mirror s) (ks : List K) (hnd : ks.Nodup)
    (hc : ∀ k ∈ ks, ∀ p ∈ (s.get k).out ++ (s.get k).inn, p.1 ∈ ks) :
    (ks.map fun k => (s.get k).out.length).sum = (ks.map fun k => (s.get k).inn.length).sum :=
  degree_balance' s h ks hnd hc

/-- the same without any hypothesis on the store: after every history, over any duplicate-free list of nodes that
    contains the operands of the history (the nodes of the program), out-degrees and in-degrees add up to the same
    number (out-degree and in-degree describe one and the same edge set) -/
theorem Di.degree_balance_run (ops : List (Op K E)) (ks : List K) (hnd : ks.Nodup)
    (hk : ∀ k ∈ opKeys ops, k ∈ ks) :
    (ks.map fun k => ((Di.run ops).get k).out.length).sum = (ks.map fun k => ((Di.run ops).get k).inn.length).sum :=
  Di.degree_balance_run' ops ks hnd hk

end G
